(* C11 model: what fim/authz/attribute_collector.py (ResourceAuthZAttributes) and
   fim/logging/log_collector.py (LogCollector) DO on an abstract slice, in storage order.
   Tables (attribute ids, types/categories, NSTYPE_LUT, the service-type set, the exempted type,
   PDP categories, enum member lists) are REGENERATED from the source: Gen/CollectGen.v.
   Definitions only; proofs are in Proofs/Collect11*.v. *)
From Coq Require Import List ZArith NArith Bool String.
From FIM Require Import Base.Str Base.Corr Gen.CollectGen.
Import ListNotations.

(* ---------------------------------------------------------------- values and the defaultdict(list) *)
Inductive aval := AI (z : Z) | AS (s : str).        (* attribute values: Python int / str *)

Definition aval_eqb (a b : aval) : bool :=
  match a, b with
  | AI x, AI y => Z.eqb x y
  | AS x, AS y => str_eqb x y
  | _, _ => false
  end.

Definition amem (v : aval) (l : list aval) : bool := existsb (aval_eqb v) l.      (* v in l *)

(* self._attributes : insertion-ordered dict  attribute-id -> list, missing keys are created on access *)
Definition attrs := list (N * list aval).

Fixpoint getk (k : N) (m : attrs) : list aval :=
  match m with
  | [] => []
  | (k', l) :: r => if N.eqb k k' then l else getk k r
  end.

Definition keys (m : attrs) : list N := map fst m.

(* m[k] = f(m[k]), creating k at the end when absent (defaultdict access) *)
Fixpoint upd (k : N) (f : list aval -> list aval) (m : attrs) : attrs :=
  match m with
  | [] => [(k, f [])]
  | (k', l) :: r => if N.eqb k k' then (k', f l) :: r else (k', l) :: upd k f r
  end.

Definition add_unique (v : aval) (l : list aval) : list aval := if amem v l then l else l ++ [v].

Definition dd_append (k : N) (v : aval) : attrs -> attrs := upd k (fun l => l ++ [v]).       (* m[k].append(v) *)
Definition dd_extend (k : N) (vs : list aval) : attrs -> attrs := upd k (fun l => l ++ vs).  (* m[k].extend(vs) *)
Definition dd_append_unique (k : N) (v : aval) : attrs -> attrs := upd k (add_unique v).     (* if v not in m[k]: m[k].append(v) *)
Definition dd_set (k : N) (l0 : list aval) : attrs -> attrs := upd k (fun _ => l0).          (* m[k] = l0 *)

Inductive res (A : Type) := Ok (a : A) | Err (cls : str).
Arguments Ok {A} a.
Arguments Err {A} cls.
Definition bind {A B} (r : res A) (f : A -> res B) : res B :=
  match r with Ok a => f a | Err e => Err e end.

(* ---------------------------------------------------------------- the abstract slice *)
Definition caps3 := (Z * Z * Z)%type.                       (* core, ram, disk *)

Record node := mkNode {
  n_kind : N;                        (* index into NodeType (Gen.ntypes) *)
  n_name : str;
  n_site : option str;               (* None = unset/empty (falsy) *)
  n_caps : option caps3;             (* sliver.capacities (None when not stored) *)
  n_alloc : option caps3;            (* sliver.capacity_allocations *)
  n_comps : list str                 (* str(c.get_type()) of attached_components_info.list_devices(), in that order *)
}.

Record svc := mkSvc {
  s_type : N;                        (* index into ServiceType (Gen.stypes) *)
  s_site : option str;
  s_bw : option Z;                   (* capacities.bw when capacities are stored *)
  s_mirror : option str              (* mirror_port *)
}.

Record slice := mkSlice {
  sl_nodes : list node;              (* topo.nodes.values()   (facility nodes are not listed there) *)
  sl_ports : list (option str);      (* local_name label of the first peer of each node interface whose peer carries labels *)
  sl_svcs : list svc;                (* topo.network_services.values() *)
  sl_facs : list str                 (* names of topo.facilities.values() *)
}.

Definition memN (x : N) (l : list N) : bool := existsb (N.eqb x) l.

Fixpoint lookupN {V} (k : N) (l : list (N * V)) : option V :=
  match l with
  | [] => None
  | (k', v) :: r => if N.eqb k k' then Some v else lookupN k r
  end.

Definition opt_str_eqb := opt_eqb str_eqb.
Definition mem_port (p : option str) (ports : list (option str)) : bool := existsb (opt_str_eqb p) ports.

Definition unknown_site : str := S"UNKNOWN-SITE".
Definition init_attrs : attrs := [(A_RESOURCE_TYPE, [AS (S"sliver")])].
Definition KeyError : str := S"KeyError".
Definition AssertionError : str := S"AssertionError".

(* ---------------------------------------------------------------- ResourceAuthZAttributes *)
(* _collect_attributes_from_node_sliver *)
Definition collect_node (m : attrs) (n : node) : attrs :=
  let m := if N.eqb (n_kind n) NT_Switch then dd_set A_RESOURCE_TYPE [AS (S"switch-p4")] m else m in
  let m := match n_caps n with
           | Some (c, r, d) => dd_append A_RESOURCE_DISK (AI d) (dd_append A_RESOURCE_RAM (AI r) (dd_append A_RESOURCE_CPU (AI c) m))
           | None => m
           end in
  let m := match n_site n with
           | Some x => dd_append_unique A_RESOURCE_SITE (AS x) m
           | None => m
           end in
  fold_left (fun m c => dd_append A_RESOURCE_COMPONENT (AS c) m) (n_comps n) m.

Definition site_or_unknown (v : svc) : str := match s_site v with Some x => x | None => unknown_site end.
Definition is_special (v : svc) : bool := memN (s_type v) special_types.
Definition in_slice_mirror (ports : list (option str)) (v : svc) : bool :=
  N.eqb (s_type v) mirror_type && mem_port (s_mirror v) ports.

(* the part of _collect_attributes_from_ns_sliver before the per-type site attribute *)
Definition collect_svc_base (m : attrs) (v : svc) : attrs :=
  let m := match s_bw v with Some b => dd_append A_RESOURCE_BW (AI b) m | None => m end in
  match s_site v with
  | Some x => dd_append_unique A_RESOURCE_SITE (AS x) m
  | None => m
  end.

(* _collect_attributes_from_ns_sliver(sliver, in_slice_ports) *)
Definition collect_svc (ports : list (option str)) (m : attrs) (v : svc) : res attrs :=
  let m := collect_svc_base m v in
  if is_special v then
    match lookupN (s_type v) nstype_lut with          (* self.NSTYPE_LUT[sliver.resource_type] *)
    | None => Err KeyError
    | Some rn =>
        if in_slice_mirror ports v then Ok m
        else Ok (dd_append_unique rn (AS (site_or_unknown v)) m)
    end
  else Ok m.

Definition collect_svcs (ports : list (option str)) (m : attrs) (l : list svc) : res attrs :=
  fold_left (fun acc v => bind acc (fun m => collect_svc ports m v)) l (Ok m).

(* _collect_attributes_from_topo *)
Definition collect_topo (m : attrs) (s : slice) : res attrs :=
  let m := fold_left collect_node (sl_nodes s) m in
  bind (collect_svcs (sl_ports s) m (sl_svcs s)) (fun m =>
  Ok (fold_left (fun m f => dd_append A_RESOURCE_FACILITY_PORT (AS f) m) (sl_facs s) m)).

(* ---- the ASM path: _collect_attributes_from_asm = asm.validate_graph(); t = ExperimentTopology(graph_string=
   asm.serialize_graph()); t.validate(); _collect_attributes_from_topo(t).  The reloaded topology lists its members by
   walking the graph BY CLASS in the backend's node enumeration order (get_all_network_nodes / get_all_network_service_nodes /
   get_all_nodes_by_class_and_type / the interface walk), so the abstract graph is the slice's elements in one arbitrary
   enumeration order.  validate() only writes the inferred site of services that do not carry one yet: it is the identity on
   a model serialized from a validated topology (documented precondition, see notes/C11.md); that serialize/load preserves
   the elements is C01/C02's subject. *)
Inductive gelem :=
| GNode (n : node)                 (* a non-facility NetworkNode with its components (in has-edge enumeration order) *)
| GSvc (v : svc)                   (* a NetworkService node *)
| GFac (f : str)                   (* a NetworkNode of type Facility *)
| GPort (p : option str).          (* a labelled service port peering a node interface *)
Definition agraph := list gelem.

Definition slice_of_graph (g : agraph) : slice :=
  mkSlice (flat_map (fun e => match e with GNode n => [n] | _ => [] end) g)
          (flat_map (fun e => match e with GPort p => [p] | _ => [] end) g)
          (flat_map (fun e => match e with GSvc v => [v] | _ => [] end) g)
          (flat_map (fun e => match e with GFac f => [f] | _ => [] end) g).

Definition collect_asm (m : attrs) (g : agraph) : res attrs := collect_topo m (slice_of_graph g).

(* arguments that are None / a string / a list of strings *)
Inductive sarg := SNone | SOne (s : str) | SMany (l : list str).

(* `if x: (extend if list else append)` *)
Definition apply_arg (k : N) (a : sarg) (m : attrs) : attrs :=
  match a with
  | SNone => m
  | SOne [] => m
  | SOne s => dd_append k (AS s) m
  | SMany [] => m
  | SMany l => dd_extend k (map AS l) m
  end.

(* fromtimedelta + the f-string of set_lifetime; td = days, seconds, microseconds (normalised timedelta) *)
Definition lifetime_text (days secs : Z) : str :=
  let h := (secs / 3600)%Z in
  let r := (secs mod 3600)%Z in
  let mi := (r / 60)%Z in
  let s := (r mod 60)%Z in
  S"P" ++ str_of_Z days ++ S"DT" ++ str_of_Z h ++ S"H" ++ str_of_Z mi ++ S"M" ++ str_of_Z s ++ S"S".

Inductive op :=
| OTopo (s : slice)                           (* collect_resource_attributes(source=topology) *)
| OAsm (g : agraph)                           (* collect_resource_attributes(source=NetworkxASM) *)
| ONode (n : node)                            (* source = Node / NodeSliver *)
| OSvc (v : svc)                              (* source = NetworkService / NetworkServiceSliver (no in-slice ports) *)
| OSubject (sid proj tag : sarg)              (* set_subject_attributes *)
| OAction (a : sarg)                          (* set_action *)
| OResSP (sid proj : sarg)                    (* set_resource_subject_and_project *)
| OLifetime (days secs micros : Z).           (* set_lifetime(now + timedelta) *)

Definition step (m : attrs) (o : op) : res attrs :=
  match o with
  | OTopo s => collect_topo m s
  | OAsm g => collect_asm m g
  | ONode n => Ok (collect_node m n)
  | OSvc v => collect_svc [] m v
  | OSubject sid proj tag =>
      Ok (apply_arg A_PROJECT_TAG tag (apply_arg A_SUBJECT_PROJECT proj
            (match sid with SOne (c :: s) => dd_append A_SUBJECT_ID (AS (c :: s)) m | _ => m end)))
  | OAction a => Ok (match a with SOne (c :: s) => dd_append A_ACTION_ID (AS (c :: s)) m | _ => m end)
  | OResSP sid proj => Ok (apply_arg A_RESOURCE_PROJECT proj (apply_arg A_RESOURCE_SUBJECT sid m))
  | OLifetime d s us =>
      if ((d * 86400 + s) * 1000000 + us <=? 0)%Z then Err AssertionError
      else Ok (dd_append A_RESOURCE_LIFETIME (AS (lifetime_text d s)) m)
  end.

Definition run (ops : list op) : res attrs :=
  fold_left (fun acc o => bind acc (fun m => step m o)) ops (Ok init_attrs).

(* ---------------------------------------------------------------- transform_to_pdp_request *)
Record pdp_attr := mkPA { pa_id : N; pa_dtype : N; pa_vals : list aval }.
Definition pdp := list (N * list pdp_attr).        (* (category, attributes in insertion order), in cat_list order *)

Definition route (cs : pdp) (cat : N) (a : pdp_attr) : pdp :=
  map (fun c => if N.eqb (fst c) cat then (fst c, snd c ++ [a]) else c) cs.

Definition pdp_step (acc : res pdp) (kv : N * list aval) : res pdp :=
  bind acc (fun cs =>
    match lookupN (fst kv) attr_table with            (* self.ATTRIBUTE_TYPES_AND_CATEGORIES[k] *)
    | None => Err KeyError
    | Some (dt, cat) => Ok (route cs cat (mkPA (fst kv) dt (snd kv)))
    end).

Definition to_pdp (m : attrs) : res pdp :=
  fold_left pdp_step m (Ok (map (fun c => (c, [])) pdp_cats)).

(* ---------------------------------------------------------------- LogCollector *)
Record logst := mkLog {
  l_nodes : list caps3;            (* 'nodes' : the capacity objects of VMs *)
  l_core : Z; l_vm : Z; l_p4 : Z;
  l_comps : list (str * Z);        (* 'components' : dict type -> count, insertion order *)
  l_svcs : list (str * Z);         (* 'services' : (type, bw) *)
  l_facs : list str;               (* 'facilities' : set (kept duplicate free, insertion order) *)
  l_sites : list str               (* 'sites' : set *)
}.

Definition log_init : logst := mkLog [] 0 0 0 [] [] [] [].

Definition smem (x : str) (l : list str) : bool := existsb (str_eqb x) l.
Definition sadd (x : str) (l : list str) : list str := if smem x l then l else l ++ [x].

Fixpoint cnt_inc (c : str) (d : list (str * Z)) : list (str * Z) :=    (* d[c] = d.get(c, 0) + 1 *)
  match d with
  | [] => [(c, 1%Z)]
  | (c', n) :: r => if str_eqb c c' then (c', (n + 1)%Z) :: r else (c', n) :: cnt_inc c r
  end.

Definition with_site (o : option str) (st : logst) : logst :=
  match o with
  | Some x => mkLog (l_nodes st) (l_core st) (l_vm st) (l_p4 st) (l_comps st) (l_svcs st) (l_facs st) (sadd x (l_sites st))
  | None => st
  end.

Definition eff_caps (n : node) : option caps3 :=
  match n_alloc n with Some a => Some a | None => n_caps n end.

Definition log_node (st : logst) (n : node) : logst :=
  let st :=
    if N.eqb (n_kind n) NT_VM then
      match eff_caps n with
      | Some (c, r, d) => mkLog (l_nodes st ++ [(c, r, d)]) (l_core st + c) (l_vm st + 1) (l_p4 st) (l_comps st) (l_svcs st) (l_facs st) (l_sites st)
      | None => mkLog (l_nodes st) (l_core st) (l_vm st + 1) (l_p4 st) (l_comps st) (l_svcs st) (l_facs st) (l_sites st)
      end
    else if N.eqb (n_kind n) NT_Switch then
      mkLog (l_nodes st) (l_core st) (l_vm st) (l_p4 st + 1) (l_comps st) (l_svcs st) (l_facs st) (l_sites st)
    else if N.eqb (n_kind n) NT_Facility then
      mkLog (l_nodes st) (l_core st) (l_vm st) (l_p4 st) (l_comps st) (l_svcs st) (sadd (n_name n) (l_facs st)) (l_sites st)
    else st in
  let st := with_site (n_site n) st in
  fold_left (fun st c => mkLog (l_nodes st) (l_core st) (l_vm st) (l_p4 st) (cnt_inc c (l_comps st)) (l_svcs st) (l_facs st) (l_sites st))
            (n_comps n) st.

Definition stype_name (t : N) : str := of_string (nth (N.to_nat t) stypes ""%string).

Definition log_svc (st : logst) (v : svc) : logst :=
  let bw := match s_bw v with Some b => b | None => 0%Z end in
  with_site (s_site v)
    (mkLog (l_nodes st) (l_core st) (l_vm st) (l_p4 st) (l_comps st) (l_svcs st ++ [(stype_name (s_type v), bw)]) (l_facs st) (l_sites st)).

Definition log_topo (st : logst) (s : slice) : logst :=
  let st := fold_left log_node (sl_nodes s) st in
  let st := fold_left log_svc (sl_svcs s) st in
  fold_left (fun st f => mkLog (l_nodes st) (l_core st) (l_vm st) (l_p4 st) (l_comps st) (l_svcs st) (sadd f (l_facs st)) (l_sites st))
            (sl_facs s) st.

Definition log_step (st : logst) (o : op) : logst :=
  match o with
  | OTopo s => log_topo st s
  | OAsm g => log_topo st (slice_of_graph g)
  | ONode n => log_node st n
  | OSvc v => log_svc st v
  | _ => st
  end.

Definition log_run (ops : list op) : logst := fold_left log_step ops log_init.

(* ---------------------------------------------------------------- observation values (what the harness records) *)
Definition aval_val (a : aval) : val := match a with AI z => VZ z | AS s => VS s end.
Definition urn_of (k : N) : str := nth (N.to_nat k) urns [].
Definition cat_of (c : N) : str := nth (N.to_nat c) cats [].
Definition dtype_of (d : N) : str := nth (N.to_nat d) dtypes [].

Definition attrs_val (m : attrs) : val :=
  VL (map (fun kv => VL [VS (urn_of (fst kv)); VL (map aval_val (snd kv))]) m).

Definition pdp_val (rpl cd : bool) (p : pdp) : val :=
  VL [VB rpl; VB cd;
      VL (map (fun c => VL [VS (cat_of (fst c));
                            VL (map (fun a => VL [VB false; VL (map aval_val (pa_vals a)); VS (urn_of (pa_id a)); VS (dtype_of (pa_dtype a))])
                                    (snd c))]) p)].

Definition caps_val (c : caps3) : val := let '(a, b, d) := c in VL [VZ a; VZ b; VZ d].
Definition kv_val (p : str * Z) : val := VL [VS (fst p); VZ (snd p)].

(* compression dictionary of the cases files: an encoding device of harness/c11.py, which lists the same strings in the
   same order (static obligation dict_in_sync); observations spell long strings as (VD i) *)
Definition dict : list str :=
  [S"urn:fabric:xacml:attributes:resource-type";
   S"urn:fabric:xacml:attributes:resource-cpu";
   S"urn:fabric:xacml:attributes:resource-ram";
   S"urn:fabric:xacml:attributes:resource-disk";
   S"urn:fabric:xacml:attribute:resource-bw";
   S"urn:fabric:xacml:attribute:resource-site";
   S"urn:fabric:xacml:attribute:resource-component";
   S"urn:fabric:xacml:attribute:resource-fabnetv4-ext-site";
   S"urn:fabric:xacml:attribute:resource-fabnetv6-ext-site";
   S"urn:fabric:xacml:attribute:resource-mirrorsite";
   S"urn:fabric:xacml:attribute:resource-facility-port";
   S"urn:fabric:xacml:attributes:resource-project";
   S"urn:fabric:xacml:attributes:resource-subject";
   S"urn:oasis:names:tc:xacml:1.0:action:action-id";
   S"urn:fabric:xacml:attributes:resource-lifetime";
   S"urn:oasis:names:tc:xacml:1.0:subject:subject-id";
   S"urn:fabric:xacml:attributes:subject-project";
   S"urn:fabric:xacml:attributes:project-tag";
   S"http://www.w3.org/2001/XMLSchema#string";
   S"http://www.w3.org/2001/XMLSchema#integer";
   S"http://www.w3.org/2001/XMLSchema#boolean";
   S"http://www.w3.org/2001/XMLSchema#dayTimeDuration";
   S"urn:oasis:names:tc:xacml:3.0:attribute-category:resource";
   S"urn:oasis:names:tc:xacml:3.0:attribute-category:action";
   S"urn:oasis:names:tc:xacml:1.0:subject-category:access-subject";
   S"sliver";
   S"switch-p4";
   S"UNKNOWN-SITE";
   S"user@example.org"].
Definition VD (i : N) : val := VS (nth (N.to_nat i) dict []).

(* multiset equality of val lists (sets / canonicalised lists are compared up to order) *)
Fixpoint remove1 (x : val) (l : list val) : option (list val) :=
  match l with
  | [] => None
  | y :: r => if val_eqb x y then Some r else match remove1 x r with Some r' => Some (y :: r') | None => None end
  end.

Fixpoint ms_eqb (a b : list val) : bool :=
  match a with
  | [] => match b with [] => true | _ => false end
  | x :: a' => match remove1 x b with Some b' => ms_eqb a' b' | None => false end
  end.

Definition res_val {A} (f : A -> val) (r : res A) : val := match r with Ok a => f a | Err e => VErr e end.

(* exact comparison of the attribute mapping (key order and value order) *)
Definition attrs_exact (r : res attrs) (o : val) : bool := val_eqb (res_val attrs_val r) o.

(* comparison up to the order of keys and of values (collection through the serialized model) *)
Definition attrs_canon (r : res attrs) (o : val) : bool :=
  match r, o with
  | Ok m, VL kvs =>
      Nat.eqb (List.length m) (List.length kvs) &&
      forallb (fun kv => match kv with
                         | VL [VS u; VL vs] =>
                             existsb (fun mk => str_eqb (urn_of (fst mk)) u && ms_eqb (map aval_val (snd mk)) vs) m
                         | _ => false end) kvs
  | Err e, VErr e' => str_eqb e e'
  | _, _ => false
  end.

Definition log_check (st : logst) (o : val) : bool :=
  match o with
  | VL [VL ns; VZ core; VZ vm; VZ p4; VL comps; VL svcs; VL facs; VL sites] =>
      val_eqb (VL (map caps_val (l_nodes st))) (VL ns) &&
      Z.eqb (l_core st) core && Z.eqb (l_vm st) vm && Z.eqb (l_p4 st) p4 &&
      val_eqb (VL (map kv_val (l_comps st))) (VL comps) &&
      val_eqb (VL (map kv_val (l_svcs st))) (VL svcs) &&
      ms_eqb (map VS (l_facs st)) facs && ms_eqb (map VS (l_sites st)) sites
  | _ => false
  end.

(* One case: the operation list (slices in storage order), PDP flags, and the recorded observation
   VL [attrs (exact); pdp; log; attrs through the ASM (canonical) or VNone when not observed]. *)
Definition check11 (c : list op * (bool * bool) * val) : bool :=
  let '(ops, (rpl, cd), o) := c in
  match o with
  | VL [oa; op_; ol; oasm] =>
      let r := run ops in
      attrs_exact r oa &&
      val_eqb (res_val (pdp_val rpl cd) (bind r to_pdp)) op_ &&
      log_check (log_run ops) ol &&
      match oasm with VNone => true | _ => attrs_canon r oasm end
  | _ => false
  end.

Definition check11_group (g : list (list op * (bool * bool) * val)) : bool := forallb check11 g.

(* ---------------------------------------------------------------- histories on long-lived objects *)
(* one long-lived collector (its mapping is the state) and, at each event, the current slice of the long-lived topology:
   HSame s  = collect_resource_attributes(source=topology) on the long-lived collector, answer = its mapping afterwards
   HFresh s = the same call on a collector created for the occasion, answer = that collector's mapping *)
Inductive hev := HSame (s : slice) | HFresh (s : slice).

Definition hist_step (st : attrs * list attrs) (e : hev) : res (attrs * list attrs) :=
  let '(m, outs) := st in
  match e with
  | HSame s => bind (collect_topo m s) (fun m' => Ok (m', outs ++ [m']))
  | HFresh s => bind (collect_topo init_attrs s) (fun r => Ok (m, outs ++ [r]))
  end.

Definition hist_run (es : list hev) : res (attrs * list attrs) :=
  fold_left (fun acc e => bind acc (fun st => hist_step st e)) es (Ok (init_attrs, [])).

Definition same_slices (es : list hev) : list slice := flat_map (fun e => match e with HSame s => [s] | HFresh _ => [] end) es.

(* ---------------------------------------------------------------- LogCollector.__str__ *)
(* the parts of the log line, before they are joined with ';' (sets in the model's insertion order; the harness
   splits the text and compares the two sets up to order) *)
Definition colon (a b : str) : str := a ++ S":" ++ b.
Definition vmdetail_key (c : caps3) : str :=
  let '(a, b, d) := c in S"C" ++ str_of_Z a ++ S"/R" ++ str_of_Z b ++ S"/D" ++ str_of_Z d.
Definition str_is (a b : str) : bool := str_eqb a b.

Record log_summary := mkSum {
  sm_vms : Z; sm_cores : Z; sm_p4s : Z;
  sm_sites : list str; sm_facs : list str;
  sm_comps : list str;            (* "type:count" in dictionary order *)
  sm_svcs : list str;             (* "type:bw" for every service that is not OVS, in list order *)
  sm_vmdetails : list (str * Z)   (* "C../R../D..": how many VMs *)
}.

Definition summary_of (st : logst) : log_summary :=
  mkSum (l_vm st) (l_core st) (l_p4 st) (l_sites st) (l_facs st)
        (map (fun kv => colon (fst kv) (str_of_Z (snd kv))) (l_comps st))
        (map (fun kv => colon (fst kv) (str_of_Z (snd kv))) (filter (fun kv => negb (str_eqb (fst kv) (S"OVS"))) (l_svcs st)))
        (fold_left (fun d c => cnt_inc (vmdetail_key c) d) (l_nodes st) []).

Definition summary_val (u : log_summary) : val :=
  VL [VZ (sm_vms u); VZ (sm_cores u); VZ (sm_p4s u); VL (map VS (sm_comps u)); VL (map VS (sm_svcs u));
      VL (map kv_val (sm_vmdetails u))].

Definition summary_check (u : log_summary) (o : val) : bool :=
  match o with
  | VL [core; VL sites; VL facs] =>
      val_eqb (summary_val u) core && ms_eqb (map VS (sm_sites u)) sites && ms_eqb (map VS (sm_facs u)) facs
  | _ => false
  end.

(* ---------------------------------------------------------------- cases of the correspondence streams *)
Inductive ccase :=
| CFull (ops : list op) (rpl cd : bool) (o : val)        (* VL [attrs (exact); pdp; log; attrs through the ASM (canonical) | VNone] *)
| CAttrsLog (ops : list op) (oa ol : val)                 (* exact attribute mapping and log dictionary *)
| CSummary (ops : list op) (o : val)                      (* the parsed LogCollector.__str__ *)
| CCanon (ops : list op) (oa ol : val).                   (* mapping and log dictionary up to order (another enumeration
                                                             of the same graph: component order is not reproducible) *)

Definition log_check_canon (st : logst) (o : val) : bool :=
  match o with
  | VL [VL ns; VZ core; VZ vm; VZ p4; VL comps; VL svcs; VL facs; VL sites] =>
      ms_eqb (map caps_val (l_nodes st)) ns &&
      Z.eqb (l_core st) core && Z.eqb (l_vm st) vm && Z.eqb (l_p4 st) p4 &&
      ms_eqb (map kv_val (l_comps st)) comps && ms_eqb (map kv_val (l_svcs st)) svcs &&
      ms_eqb (map VS (l_facs st)) facs && ms_eqb (map VS (l_sites st)) sites
  | _ => false
  end.

Definition check11c (c : ccase) : bool :=
  match c with
  | CFull ops rpl cd o => check11 (ops, (rpl, cd), o)
  | CAttrsLog ops oa ol => attrs_exact (run ops) oa && log_check (log_run ops) ol
  | CSummary ops o => summary_check (summary_of (log_run ops)) o
  | CCanon ops oa ol => attrs_canon (run ops) oa && log_check_canon (log_run ops) ol
  end.

Definition check11_cases (g : list ccase) : bool := forallb check11c g.

(* C10: HAND-PINNED copy of the constraint tables = the specification the property speaks about.
   Written by hand from the documentation of the service and node types (fim/slivers/network_service.py
   ServiceConstraints, fim/slivers/network_node.py NodeConstraints, as of the snapshot the properties were
   written against); never regenerated.  The obligation `gen_tables = pinned_tables`
   (Properties/C10.v, C10_table_pinned) is closed by reflexivity, so any edit of the tables, of an enum or of
   the guardrail in the source is visible as a failed obligation. *)
From Coq Require Import List ZArith String.
From FIM Require Import Base.C10Types.
Import ListNotations.
Open Scope Z_scope.
Open Scope string_scope.

Definition mirror3 : list string := ["mirror_port"; "mirror_vlan"; "mirror_direction"].
Definition mirror4 : list string := mirror3 ++ ["controller_url"].
Definition node_forb : list string := ["attached_components_info"; "image_type"; "image_ref"].

(*                                   layer min max sites inst required forbidden  interface types *)
Definition pinned_tables : tables := mk_tables 0
  ["P4"; "MPLS"; "OVS"; "L2Path"; "L2STS"; "L2PTP"; "L2Multisite"; "L2Bridge"; "FABNetv4"; "FABNetv6";
   "PortMirror"; "L3VPN"; "VLAN"; "FABNetv4Ext"; "FABNetv6Ext"]
  ["Server"; "VM"; "Container"; "Switch"; "NAS"; "Facility"]
  ["AccessPort"; "TrunkPort"; "ServicePort"; "DedicatedPort"; "SharedPort"; "vInt"; "StitchPort";
   "FacilityPort"; "SubInterface"]
  [("P4",          mk_svc "L2" 1 0 1 0 [] mirror3 []);
   ("OVS",         mk_svc "L2" 1 0 1 0 [] mirror3 []);
   ("VLAN",        mk_svc "L2" 1 0 1 0 [] mirror4 []);
   ("MPLS",        mk_svc "L2" 1 0 1 0 [] mirror4 []);
   ("L2Path",      mk_svc "L2" 1 2 2 0 [] mirror4 []);
   ("L2STS",       mk_svc "L2" 2 0 2 0 [] (mirror4 ++ ["ero"]) []);
   ("L2PTP",       mk_svc "L2" 2 2 2 0 [] mirror4 ["DedicatedPort"; "FacilityPort"; "SubInterface"]);
   ("L2Multisite", mk_svc "L2" 1 0 0 0 [] mirror4 []);
   ("L2Bridge",    mk_svc "L2" 1 0 1 0 [] mirror4 []);
   ("FABNetv4",    mk_svc "L3" 1 0 1 0 [] mirror4 []);
   ("FABNetv6",    mk_svc "L3" 1 0 1 0 [] mirror4 []);
   ("PortMirror",  mk_svc "L2" 1 1 1 0 ["mirror_port"; "mirror_direction"; "site"] ["controller_url"] []);
   ("L3VPN",       mk_svc "L3" 1 0 0 0 [] mirror4 []);
   ("FABNetv4Ext", mk_svc "L3" 1 0 1 0 [] mirror4 []);
   ("FABNetv6Ext", mk_svc "L3" 1 0 1 0 [] mirror4 [])]
  [("Server",    mk_node ["site"] []);
   ("VM",        mk_node ["site"] []);
   ("Container", mk_node ["site"] []);
   ("Switch",    mk_node [] node_forb);
   ("NAS",       mk_node [] node_forb);
   ("Facility",  mk_node [] (node_forb ++ ["management_ip"]))]
  [("L2PTP", "SharedPort")].

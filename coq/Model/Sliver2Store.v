(* C02 model, part 4: node removal, histories of writes and removals, and the store level under the
   graph view - internal integer node ids as the two in-memory stores allocate them
   (networkx_property_graph.py:838 add_blank_node_to_graph: one global counter start_id;
    networkx_property_graph_disjoint.py:174: one counter per graph), NetworkX add_node / remove_node.
   Definitions only. *)
From Coq Require Import List String NArith Bool.
From FIM Require Import Base.Str Model.Sliver2Kinds Gen.PropMap Model.Sliver2Map Model.Sliver2WF
  Model.Sliver2Deep Model.Sliver2DeepWF Model.Sliver2Graph Model.Sliver2GraphWF.
Import ListNotations.

(* ---------- graph view: delete_node (incident edges go with the node) ---------- *)
Definition touches (id : str) (e : gedge) : bool :=
  match e with (a, _, b) => str_eqb a id || str_eqb b id end.

Definition delete_node (g : graph) (id : str) : res graph :=
  match find_node g id with
  | None => Err ExQuery
  | Some _ => Ok {| g_nodes := filter (fun n => negb (str_eqb (g_id n) id)) (g_nodes g);
                    g_edges := filter (fun e => negb (touches id e)) (g_edges g) |}
  end.

(* a history of a graph: slivers written (stand-alone or under a parent) and nodes removed *)
Inductive hop :=
| HAdd (parent : option str) (t : tree)
| HDel (id : str).

Definition hstep (g : graph) (o : hop) : res graph :=
  match o with
  | HAdd parent t => add_under g parent t
  | HDel id => delete_node g id
  end.

(* the operation is one the theorems speak about (a refused operation leaves the graph as it was) *)
Definition hop_ok (g : graph) (o : hop) : bool :=
  match o with
  | HAdd parent t => graph_wf_sub t && fresh_in g t && parent_ok g parent t
  | HDel _ => true
  end.

Fixpoint run_history (g : graph) (h : list hop) : graph :=
  match h with
  | [] => g
  | o :: r => if hop_ok g o then
                match hstep g o with Ok g' => run_history g' r | Err _ => run_history g r end
              else run_history g r
  end.

(* ---------- store level: internal integer ids ---------- *)
(* one graph inside a store: NetworkX nodes keyed by internal id (in insertion order), edges between
   internal ids, and the store's allocation counter for this graph *)
Record sgraph := { s_nodes : list (N * gnode); s_edges : list (N * string * N); s_ctr : N }.

Definition s_ids (s : sgraph) : list N := map fst (s_nodes s).

(* _find_node: the internal id of the node carrying NodeID = id *)
Definition s_find (s : sgraph) (id : str) : option N :=
  match find (fun kn => str_eqb (g_id (snd kn)) id) (s_nodes s) with Some kn => Some (fst kn) | None => None end.

(* networkx Graph.add_node(k, **attrs): a new key is appended, an EXISTING key has its attributes updated
   in place (here: replaced by the new record - add_node starts from a blank node) *)
Fixpoint nx_add_node (k : N) (n : gnode) (l : list (N * gnode)) : list (N * gnode) :=
  match l with
  | [] => [(k, n)]
  | (k', n') :: r => if N.eqb k k' then (k', n) :: r else (k', n') :: nx_add_node k n r
  end.

(* add_node on a store whose allocator hands out `alloc s` (then bumps the counter) *)
Definition s_add_node (alloc : sgraph -> N) (s : sgraph) (id : str) (label : string) (p : props) : res sgraph :=
  match s_find s id with
  | Some _ => Err ExQuery
  | None => let k := alloc s in
            Ok {| s_nodes := nx_add_node k {| g_id := id; g_label := label;
                                              g_props := aupdate [(node_id_prop, Some id)] p |} (s_nodes s);
                  s_edges := s_edges s; s_ctr := N.succ (N.max (s_ctr s) k) |}
  end.

Definition s_add_link (s : sgraph) (a : str) (rel : string) (b : str) : res sgraph :=
  match s_find s a, s_find s b with
  | Some ka, Some kb =>
      Ok {| s_nodes := s_nodes s;
            s_edges := filter (fun e => match e with (x, _, y) =>
                                          negb ((N.eqb x ka && N.eqb y kb) || (N.eqb x kb && N.eqb y ka)) end)
                              (s_edges s) ++ [(ka, rel, kb)];
            s_ctr := s_ctr s |}
  | _, _ => Err ExQuery
  end.

(* remove_node: the node and its incident edges; the counter is NOT moved back *)
Definition s_delete_node (s : sgraph) (id : str) : res sgraph :=
  match s_find s id with
  | None => Err ExQuery
  | Some k => Ok {| s_nodes := filter (fun kn => negb (N.eqb (fst kn) k)) (s_nodes s);
                    s_edges := filter (fun e => match e with (x, _, y) => negb (N.eqb x k || N.eqb y k) end) (s_edges s);
                    s_ctr := s_ctr s |}
  end.

(* the two allocators of the code: the counter (global start_id, or the per-graph graph_node_ids entry);
   and the one of seeded change C02-9: number of nodes + 1 *)
Definition alloc_counter (s : sgraph) : N := s_ctr s.
Definition alloc_size (s : sgraph) : N := N.succ (N.of_nat (List.length (s_nodes s))).

(* the graph view of a store graph *)
Definition nid_of (s : sgraph) (k : N) : str :=
  match find (fun kn => N.eqb (fst kn) k) (s_nodes s) with Some kn => g_id (snd kn) | None => [] end.

Definition view (s : sgraph) : graph :=
  {| g_nodes := map snd (s_nodes s);
     g_edges := map (fun e => match e with (x, r, y) => (nid_of s x, r, nid_of s y) end) (s_edges s) |}.

(* store invariant: internal ids distinct and below the counter, NodeIDs distinct, edges between nodes *)
Fixpoint n_nodup (l : list N) : bool :=
  match l with [] => true | x :: r => negb (existsb (N.eqb x) r) && n_nodup r end.

Definition store_ok (s : sgraph) : bool :=
  n_nodup (s_ids s) && forallb (fun k => N.ltb k (s_ctr s)) (s_ids s)
  && strs_nodup (map (fun kn => g_id (snd kn)) (s_nodes s))
  && forallb (fun e => match e with (x, _, y) => existsb (N.eqb x) (s_ids s) && existsb (N.eqb y) (s_ids s) end) (s_edges s).

Definition empty_sgraph : sgraph := {| s_nodes := []; s_edges := []; s_ctr := 1%N |}.

(* the probe the harness runs on BOTH in-memory stores: a graph with filler nodes, of which one that is
   not the newest was removed, then the sliver written (a component under filler-B) and rebuilt *)
Definition filler_graph : res graph :=
  bind (add_node empty_graph (S"filler-A") "NetworkNode" [("Name", Some (S"fillerA")); ("Type", Some (S"Server"))]%string) (fun g1 =>
  bind (add_node g1 (S"filler-B") "NetworkNode" [("Name", Some (S"fillerB")); ("Type", Some (S"Server")); ("Site", Some (S"S"))]%string) (fun g2 =>
  bind (add_node g2 (S"filler-C") "Component" [("Name", Some (S"fillerC")); ("Type", Some (S"GPU")); ("Model", Some (S"m"))]%string) (fun g3 =>
  bind (add_link g3 (S"filler-B") rel_has (S"filler-C")) (fun g4 =>
    delete_node g4 (S"filler-A"))))).

Definition roundtrip_after_removal (t : tree) : res tree :=
  bind filler_graph (fun g =>
  bind (add_under g (if kind_eqb (t_kind t) KComponent then Some (S"filler-B") else None) t) (fun g' =>
    match t_nid t with
    | Some id => build_deep g' (t_kind t) id
    | None => Err ExAssertion
    end)).

(* C02: the hypothesis of the graph-route theorem and the graph a sliver tree is written as.
   Definitions only. *)
From Coq Require Import List String NArith Bool.
From FIM Require Import Base.Str Model.Sliver2Kinds Gen.PropMap Model.Sliver2Map Model.Sliver2WF
  Model.Sliver2Deep Model.Sliver2DeepWF Model.Sliver2Graph.
Import ListNotations.

(* the children the writers descend into, in the order they write them *)
Definition kids (t : tree) : list tree :=
  match t with
  | T k _ _ c n i => (if has_comps k then olist c else []) ++ (if has_nss k then olist n else [])
                     ++ (if has_ifs k then olist i else [])
  end.

(* all slivers of the tree, parents before children (the order the nodes are created in) *)
Fixpoint subtrees (t : tree) : list tree :=
  match t with
  | T k _ _ c n i =>
      let sub := fun (o : option (list tree)) =>
                   match o with Some l => flat_map subtrees l | None => [] end in
      t :: (if has_comps k then sub c else []) ++ (if has_nss k then sub n else [])
           ++ (if has_ifs k then sub i else [])
  end.

Definition id_of (t : tree) : str := match t_nid t with Some i => i | None => [] end.
Definition props_of (t : tree) : props :=
  match to_props (t_kind t) (t_attrs t) with Ok p => p | Err _ => [] end.

(* the properties of the node add_node creates *)
Definition node_props (id : str) (p : props) : props := aupdate [(node_id_prop, Some id)] p.

Definition rec_of (t : tree) : gnode :=
  {| g_id := id_of t; g_label := class_label (t_kind t); g_props := node_props (id_of t) (props_of t) |}.

(* the relation a child is linked to its parent with *)
Definition relk (k : kind) : string := match k with KInterface => rel_connects | _ => rel_has end.

Definition link_to (p : tree) (c : tree) : gedge := (id_of p, relk (t_kind c), id_of c).

(* the edges, in the order they are created: the link to a child, then the child's own edges *)
Fixpoint edges_of (t : tree) : list gedge :=
  match t with
  | T k _ _ c n i =>
      let sub := fun (o : option (list tree)) =>
                   match o with
                   | Some l => flat_map (fun u => link_to t u :: edges_of u) l
                   | None => []
                   end in
      (if has_comps k then sub c else []) ++ (if has_nss k then sub n else [])
      ++ (if has_ifs k then sub i else [])
  end.

Definition graph_of (t : tree) : graph := {| g_nodes := map rec_of (subtrees t); g_edges := edges_of t |}.

(* ---------- hypotheses ---------- *)
Fixpoint strs_nodup (l : list str) : bool :=
  match l with
  | [] => true
  | x :: r => negb (existsb (str_eqb x) r) && strs_nodup r
  end.

Definition has_id (t : tree) : bool := match t_nid t with Some _ => true | None => false end.

Definition is_dedicated (t : tree) : bool :=
  match alookup "resource_type" (t_attrs t) with
  | Some (Some ty) => fval_eqb ty dedicated
  | _ => false
  end.

Definition childless (t : tree) : bool :=
  match t with T _ _ _ c n i =>
    match c, n, i with None, None, None => true | _, _, _ => false end end.

(* what the graph readers can see: only a DedicatedPort interface has child interfaces, and those
   are leaves that are not DedicatedPorts themselves (the API creates them with type SubInterface) *)
Definition shape_ok (t : tree) : bool :=
  match t_kind t, t_ifs t with
  | KInterface, Some l => is_dedicated t && forallb (fun u => childless u && negb (is_dedicated u)) l
  | _, _ => true
  end.

(* a sliver tree as the graph route can carry it: well-formed, every sliver with its own node id,
   interface nesting as above; components are only written under a node *)
Definition graph_wf (t : tree) : bool :=
  tree_wf t
  && negb (kind_eqb (t_kind t) KComponent)
  && forallb has_id (subtrees t)
  && strs_nodup (map id_of (subtrees t))
  && forallb shape_ok (subtrees t).

(* ---------- writing into a graph that already has content ---------- *)
Definition gids (g : graph) : list str := map g_id (g_nodes g).

(* node ids are distinct and every edge joins two nodes of the graph (what add_node / add_link maintain) *)
Definition good_graph (g : graph) : bool :=
  strs_nodup (gids g)
  && forallb (fun e => match e with (a, _, b) => existsb (str_eqb a) (gids g) && existsb (str_eqb b) (gids g) end)
             (g_edges g).

(* the sliver's node ids are fresh in the graph (and distinct among themselves) *)
Definition fresh_in (g : graph) (t : tree) : bool := strs_nodup (gids g ++ map id_of (subtrees t)).

(* the writer by class: under an existing node of the graph (components always; services and interfaces
   optionally) or stand-alone *)
Definition add_under (g : graph) (parent : option str) (t : tree) : res graph :=
  match t_kind t, parent with
  | KNode, None => add_network_node_sliver g t
  | KComponent, Some pid => add_component_sliver g pid t
  | KService, _ => add_network_service_sliver g parent t
  | KInterface, _ => add_interface_sliver g parent t
  | KLink, None => add_network_link_sliver g t []
  | _, _ => Err ExOther
  end.

(* the place the sliver is written to is one the API uses: the parent exists and is of a class that owns
   such slivers (a sub-interface added under an existing interface is a leaf that is not a DedicatedPort);
   a stand-alone node / service has a name that is free (check_node_unique, else the writer refuses) *)
Definition parent_ok (g : graph) (parent : option str) (t : tree) : bool :=
  match parent with
  | None =>
      match t_kind t with
      | KNode | KService => check_node_unique g (class_label (t_kind t)) (t_name t)
      | KInterface | KLink => true
      | KComponent => false
      end
  | Some pid =>
      match find_node g pid with
      | None => false
      | Some n =>
          match t_kind t with
          | KComponent => String.eqb (g_label n) (class_label KNode)
          | KService => String.eqb (g_label n) (class_label KNode) || String.eqb (g_label n) (class_label KComponent)
          | KInterface => String.eqb (g_label n) (class_label KService)
                          || (String.eqb (g_label n) (class_label KInterface) && childless t && negb (is_dedicated t))
          | KNode | KLink => false
          end
      end
  end.

(* a sliver tree the graph route can carry, of any class *)
Definition graph_wf_sub (t : tree) : bool :=
  tree_wf t && forallb has_id (subtrees t) && forallb shape_ok (subtrees t).

(* C10: the SPECIFICATION.  `allowed T full_nodes full_sites sl` says, declaratively and from the constraint
   tables T only, that every node and every service of the abstract slice meets its per-type constraints.
   The property of properties.jsonl is `allowed pinned_tables true true`.  The two booleans weaken the
   specification to what the current code enforces (see the cur_ flags in Model/Validate10.v): with `false` the
   corresponding clause is dropped.  Definitions only. *)
From Coq Require Import List ZArith String Bool NArith.
From FIM Require Import Base.C10Types Gen.Constraints Model.Validate10.
Import ListNotations.
Open Scope Z_scope.

Section Spec.
Variable T : tables.
Variable with_facilities : bool.     (* facility nodes are subject to their NodeConstraints entry *)
Variable with_site_agreement : bool. (* a declared site must equal the site of the connected nodes *)

Definition no_limit : Z := t_no_limit T.

(* --- nodes: required properties set, forbidden properties not set --- *)
Definition node_allowed (n : anode) : Prop :=
  exists r, assoc (n_type n) (t_nodes T) = Some r /\
    (forall p, In p (nc_required r) -> In p (n_set n)) /\
    (forall p, In p (nc_forbidden r) -> ~ In p (n_set n)).

Definition node_in_scope (n : anode) : Prop := with_facilities = true \/ n_type n <> S_Facility.

(* --- services --- *)
(* the node-side end of a service interface: the interface itself, or for a ServicePort its one and only peer *)
Definition attached_to (i : iface) (e : endpoint) : Prop :=
  (i_type i = S_ServicePort /\ i_peers i = Some [e]) \/
  (i_type i <> S_ServicePort /\ e = mk_ep (i_type i) (i_owner i)).

(* the service spans site a: one of its interfaces belongs to a node at a *)
Definition spans (eps : list endpoint) (a : osite) : Prop := exists e, In e eps /\ ep_owner e = Some a.

(* `after` = the site the service carries after validation: the declared one, else the single inferred one *)
Definition site_rule (r : svc_rec) (s : asvc) (eps : list endpoint) (after : osite) : Prop :=
  (sc_num_sites r = no_limit /\ after = s_site s) \/
  (sc_num_sites r <> no_limit /\
   (forall e, In e eps -> ep_owner e <> None) /\          (* every interface belongs to a node *)
   exists sites, NoDup sites /\ (forall a, In a sites <-> spans eps a) /\
     Z.of_nat (List.length sites) <= sc_num_sites r /\                     (* maximum number of sites spanned *)
     ((sites = [] /\ after = s_site s) \/
      (exists a, sites = [a] /\                                            (* single site: *)
         ((s_site s = None /\ after = a) \/                                (*   inferred and recorded *)
          (exists d, s_site s = Some d /\ after = Some d /\                (*   or declared, and then it agrees *)
                     (with_site_agreement = true -> a = Some d)))) \/
      ((2 <= List.length sites)%nat /\ s_site s = None /\ after = None)))  (* multi-site: no site may be declared *).

Definition has_prop (s : asvc) (after : osite) (p : string) : Prop :=
  (p = S_site /\ after <> None) \/ (p <> S_site /\ In p (s_set s)).

Definition svc_ok (s : asvc) (after : osite) : Prop :=
  exists r eps,
    assoc (s_type s) (t_services T) = Some r /\
    Forall2 attached_to (s_ifaces s) eps /\
    (sc_min_interfaces r = no_limit \/ sc_min_interfaces r <= Z.of_nat (List.length eps)) /\   (* minimum *)
    (sc_num_interfaces r = no_limit \/ Z.of_nat (List.length eps) <= sc_num_interfaces r) /\   (* maximum *)
    site_rule r s eps after /\
    (forall p, In p (sc_required r) -> has_prop s after p) /\
    (forall p, In p (sc_forbidden r) -> ~ has_prop s after p) /\
    (sc_itypes r <> [] -> forall e, In e eps -> In (ep_type e) (sc_itypes r)).                (* permitted interface types *)

Definition svc_allowed (s : asvc) : Prop := exists after, svc_ok s after.

Definition allowed (sl : slice) : Prop :=
  (forall n, In n (sl_nodes sl) -> node_in_scope n -> node_allowed n) /\
  (forall s, In s (sl_services sl) -> svc_allowed s).

End Spec.

(* the hypotheses of the partial soundness theorem: exactly the signatures of the two defects *)
Definition facilities_meet_constraints (T : tables) (sl : slice) : Prop :=
  forall n, In n (sl_nodes sl) -> n_type n = S_Facility -> node_allowed T n.

Definition declared_sites_agree (T : tables) (sl : slice) : Prop :=
  forall s r eps d a, In s (sl_services sl) ->
    assoc (s_type s) (t_services T) = Some r -> sc_num_sites r <> t_no_limit T ->
    Forall2 attached_to (s_ifaces s) eps -> s_site s = Some d ->
    (forall b, spans eps b <-> b = a) ->            (* the connected nodes are all at the one site a *)
    a = Some d.

(* conditions on the TABLES under which the model has no unmodelled / raising branch (checked by computation
   on the pinned tables): no per-site instance limits; every constrained property can be read *)
Definition table_ok (T : tables) : bool :=
  forallb (fun kv => (sc_num_instances (snd kv) =? t_no_limit T)
                     && forallb (fun p => mem p ns_getters) (sc_required (snd kv))
                     && forallb (fun p => mem p ns_getters) (sc_forbidden (snd kv))) (t_services T)
  && forallb (fun kv => forallb (fun p => mem p node_getters) (nc_required (snd kv))) (t_nodes T).

Definition tables_total (T : tables) : bool :=
  forallb (fun t => is_some (assoc t (t_services T))) (t_service_types T)
  && forallb (fun t => is_some (assoc t (t_nodes T))) (t_node_types T)
  && mem S_ServicePort (t_interface_types T) && mem S_Facility (t_node_types T).

(* every refused combination is one the service type's interface-type list excludes *)
Definition guard_consistent (T : tables) : bool :=
  forallb (fun p => match assoc (fst p) (t_services T) with
                    | Some r => match sc_itypes r with [] => false | rit => negb (mem (snd p) rit) end
                    | None => false
                    end) (t_guardrails T).

(* well-formed input: every type has a table entry and every interface whose site matters belongs to a node
   (NetworkService.__validate_nstype_constraints: "interfaces is a list of interfaces belonging to nodes!") *)
Definition endpoint_owned (e : endpoint) : bool := is_some (ep_owner e).
Definition svc_wf (T : tables) (s : asvc) : bool :=
  match assoc (s_type s) (t_services T) with
  | None => false
  | Some r => match node_ifaces (s_ifaces s) with
              | None => true      (* rejected before any owner is looked at *)
              | Some eps => (sc_num_sites r =? t_no_limit T)%Z || forallb endpoint_owned eps
              end
  end.
Definition slice_wf (T : tables) (sl : slice) : bool :=
  forallb (fun n => is_some (assoc (n_type n) (t_nodes T))) (sl_nodes sl) && forallb (svc_wf T) (sl_services sl).

(* the slice after validation: every service carries its recorded site *)
Definition with_site (s : asvc) (a : osite) : asvc := mk_asvc (s_type s) a (s_set s) (s_ifaces s).
Fixpoint record_sites (l : list asvc) (sts : list osite) : list asvc :=
  match l, sts with
  | s :: r, a :: t => with_site s a :: record_sites r t
  | _, _ => l
  end.
Definition recorded (sl : slice) (sts : list osite) : slice := mk_slice (sl_nodes sl) (record_sites (sl_services sl) sts).

(* a session on one topology object: mutations of the slice interleaved with validations.  A validation
   returns validate's outcome on the current slice and leaves the recorded sites in it. *)
Inductive step := Mutate (f : slice -> slice) | Validate.
Definition vstep (st : slice) : slice := recorded st (fst (validate_cur st)).
Fixpoint session (st : slice) (steps : list step) : list (list osite * result) :=
  match steps with
  | [] => []
  | Mutate f :: r => session (f st) r
  | Validate :: r => validate_cur st :: session (vstep st) r
  end.
Fixpoint state_after (st : slice) (steps : list step) : slice :=
  match steps with
  | [] => st
  | Mutate f :: r => state_after (f st) r
  | Validate :: r => state_after (vstep st) r
  end.

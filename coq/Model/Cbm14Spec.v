(* C14 - abstract combined broker model.  A combined model is a finite map
     NodeID -> (class, plain properties, contributors, label delegation, capacity delegation)
   plus a finite map of connections keyed by the (ordered) pair of node ids.  A delegation is recorded as
   (id of the contributing delegation model, content): only one model may speak for a resource.
   smerge / sunmerge are what merge_adm / unmerge_adm (fim/graph/resources/neo4j_cbm.py) do, seen through
   the canonical snapshot of the combined graph; the harness checks that on every run (Cbm14SpecCheck.v).
   Like the code, a connection carries no contributor record (a connection found in two merged models is
   kept once, with the combined model's data).  Definitions only. *)
From Coq Require Import List NArith Bool.
Import ListNotations.
Open Scope N_scope.

Section Assoc.
  Context {K V : Type} (eqb : K -> K -> bool).
  Fixpoint get (k : K) (l : list (K * V)) : option V :=
    match l with
    | [] => None
    | (k', v) :: r => if eqb k k' then Some v else get k r
    end.
  Definition has (k : K) (l : list (K * V)) : bool :=
    match get k l with Some _ => true | None => false end.
End Assoc.

Definition ekey := (N * N)%type.
Definition ekey_eqb (a b : ekey) : bool := (fst a =? fst b) && (snd a =? snd b).
Definition getn {V} := @get N V N.eqb.
Definition hasn {V} := @has N V N.eqb.
Definition gete {V} := @get ekey V ekey_eqb.
Definition hase {V} := @has ekey V ekey_eqb.

Definition props := list (N * N).
(* a node of a delegation model: its delegations are single-entry dictionaries; only the content matters *)
Record anode := mkA { a_cls : N; a_oth : props; a_ld : option N; a_cd : option N }.
Definition edata := (N * props)%type.                 (* class, plain properties of a connection *)
Record adm := mkAdm { adm_id : N; adm_nodes : list (N * anode); adm_edges : list (ekey * edata) }.

Record cnode := mkC { c_cls : N; c_oth : props; c_con : list N;
                      c_ld : option (N * N); c_cd : option (N * N) }.
Record cbm := mkCbm { nodes : list (N * cnode); edges : list (ekey * edata) }.
Definition empty : cbm := mkCbm [] [].

Definition is_some {A} (o : option A) : bool := match o with Some _ => true | None => false end.

(* a node only the merged model has: stamped with the single contributor, delegations keyed by it *)
Definition stamp (g : N) (a : anode) : cnode :=
  mkC (a_cls a) (a_oth a) [g] (option_map (pair g) (a_ld a)) (option_map (pair g) (a_cd a)).
Definition join_d (g : N) (c : option (N * N)) (a : option N) : option (N * N) :=
  match c with Some x => Some x | None => option_map (pair g) a end.
(* a common node: combined model's class and properties are kept, the contributor is appended, the
   delegation comes from whichever side has one *)
Definition upd (g : N) (a : anode) (c : cnode) : cnode :=
  mkC (c_cls c) (c_oth c) (c_con c ++ [g]) (join_d g (c_ld c) (a_ld a)) (join_d g (c_cd c) (a_cd a)).
(* "This node contains delegations from both CBM and ADM graph, which is not allowed" *)
Definition clash (c : cnode) (a : anode) : bool :=
  (is_some (c_ld c) && is_some (a_ld a)) || (is_some (c_cd c) && is_some (a_cd a)).
Definition conflict (C : cbm) (A : adm) : bool :=
  existsb (fun ka => match getn (fst ka) (nodes C) with Some c => clash c (snd ka) | None => false end)
          (adm_nodes A).

Definition merge_nodes (g : N) (cn : list (N * cnode)) (an : list (N * anode)) : list (N * cnode) :=
  map (fun kc => (fst kc, match getn (fst kc) an with
                            | Some a => upd g a (snd kc)
                            | None => snd kc end)) cn
  ++ map (fun ka => (fst ka, stamp g (snd ka))) (filter (fun ka => negb (hasn (fst ka) cn)) an).
Definition merge_edges (ce ae : list (ekey * edata)) : list (ekey * edata) :=
  ce ++ filter (fun kd => negb (hase (fst kd) ce)) ae.

Definition smerge (C : cbm) (A : adm) : option cbm :=
  if conflict C A then None
  else Some (mkCbm (merge_nodes (adm_id A) (nodes C) (adm_nodes A)) (merge_edges (edges C) (adm_edges A))).

Definition drop_d (g : N) (d : option (N * N)) : option (N * N) :=
  match d with Some (k, x) => if k =? g then None else Some (k, x) | None => None end.
Definition unm (g : N) (c : cnode) : cnode :=
  mkC (c_cls c) (c_oth c) (filter (fun x => negb (x =? g)) (c_con c)) (drop_d g (c_ld c)) (drop_d g (c_cd c)).
Definition alive (c : cnode) : bool := match c_con c with [] => false | _ => true end.
Definition sunmerge (C : cbm) (g : N) : cbm :=
  let ns := filter (fun kc => alive (snd kc)) (map (fun kc => (fst kc, unm g (snd kc))) (nodes C)) in
  mkCbm ns (filter (fun kd => hasn (fst (fst kd)) ns && hasn (snd (fst kd)) ns) (edges C)).

(* merging a family, left to right, from the empty combined model; None = some merge was refused *)
Definition merge_from (C : cbm) (As : list adm) : option cbm :=
  fold_left (fun acc A => match acc with Some C => smerge C A | None => None end) As (Some C).
Definition merge_all (As : list adm) : option cbm := merge_from empty As.

(* ---- histories over the abstract model ---- *)
Inductive hop := HMerge (A : adm) | HUnmerge (g : N) | HSnap (id : N) | HRollback (id : N).
(* h_ms: the delegation models currently merged (ghost); h_snaps: snapshot id -> saved (model, ghost) *)
Record hstate := mkH { h_cur : cbm; h_ms : list adm; h_snaps : list (N * (cbm * list adm)) }.
Definition hinit : hstate := mkH empty [] [].
Definition mem (g : N) (l : list N) : bool := existsb (N.eqb g) l.

(* operations outside the documented domain (merging a contributor again, a refused merge, an unknown or
   consumed snapshot, a snapshot id already in use) leave the abstract state unchanged *)
Definition hstep (s : hstate) (o : hop) : hstate :=
  match o with
  | HMerge A =>
      if mem (adm_id A) (map adm_id (h_ms s)) then s else
      match smerge (h_cur s) A with
      | Some C => mkH C (h_ms s ++ [A]) (h_snaps s)
      | None => s
      end
  | HUnmerge g =>
      mkH (sunmerge (h_cur s) g) (filter (fun A => negb (adm_id A =? g)) (h_ms s)) (h_snaps s)
  | HSnap id =>
      if hasn id (h_snaps s) then s else mkH (h_cur s) (h_ms s) ((id, (h_cur s, h_ms s)) :: h_snaps s)
  | HRollback id =>
      match getn id (h_snaps s) with
      | Some (C, ms) => mkH C ms (filter (fun kv => negb (fst kv =? id)) (h_snaps s))
      | None => s
      end
  end.
Definition hrun (s : hstate) (ops : list hop) : hstate := fold_left hstep ops s.

(* ---- decidable versions of the well-formedness / consistency predicates used by the theorems
   (Proofs/Cbm14Dec.v shows that they imply the propositional ones) ---- *)
Fixpoint nodupb {A} (eqb : A -> A -> bool) (l : list A) : bool :=
  match l with [] => true | x :: r => negb (existsb (eqb x) r) && nodupb eqb r end.
Definition wf_admb (A : adm) : bool :=
  nodupb N.eqb (map fst (adm_nodes A)) && nodupb ekey_eqb (map fst (adm_edges A)) &&
  forallb (fun kd => hasn (fst (fst kd)) (adm_nodes A) && hasn (snd (fst kd)) (adm_nodes A)) (adm_edges A).
Fixpoint props_eqb (a b : props) : bool :=
  match a, b with
  | [], [] => true
  | x :: a', y :: b' => (fst x =? fst y) && (snd x =? snd y) && props_eqb a' b'
  | _, _ => false
  end.
Definition edata_eqb (a b : edata) : bool := (fst a =? fst b) && props_eqb (snd a) (snd b).
Definition compatibleb (A B : adm) : bool :=
  forallb (fun ka => match getn (fst ka) (adm_nodes B) with
                     | Some b => (a_cls (snd ka) =? a_cls b) && props_eqb (a_oth (snd ka)) (a_oth b)
                     | None => true end) (adm_nodes A) &&
  forallb (fun kd => match gete (fst kd) (adm_edges B) with
                     | Some d' => edata_eqb (snd kd) d'
                     | None => true end) (adm_edges A).
Definition one_speakerb (A B : adm) : bool :=
  forallb (fun ka => match getn (fst ka) (adm_nodes B) with
                     | Some b => negb (is_some (a_ld (snd ka)) && is_some (a_ld b)) &&
                                 negb (is_some (a_cd (snd ka)) && is_some (a_cd b))
                     | None => true end) (adm_nodes A).
Definition consistentb (As : list adm) : bool :=
  nodupb N.eqb (map adm_id As) &&
  forallb (fun A => forallb (fun B => (adm_id A =? adm_id B) || (compatibleb A B && one_speakerb A B)) As) As.
Definition not_contributorb (g : N) (C : cbm) : bool :=
  forallb (fun kc => negb (mem g (c_con (snd kc)))) (nodes C).
Definition no_new_inner_edgesb (C : cbm) (A : adm) : bool :=
  forallb (fun kd => implb (hasn (fst (fst kd)) (nodes C) && hasn (snd (fst kd)) (nodes C)) (hase (fst kd) (edges C)))
          (adm_edges A).

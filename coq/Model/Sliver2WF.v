(* C02: the decidable predicates the theorems are stated with.
   - tables_symmetric k : the regenerated to/from/setter tables of class k are mutually inverse,
     entry by entry (a finite check over the tables);
   - attrs_wf k a       : the sliver's attributes hold values of the kind their setter expects;
   - normalize k a      : what a round trip returns (a = normalize k a unless an absent value reads
     back as an empty object, which only the gateway of a service does).
   Definitions only. *)
From Coq Require Import List String NArith Bool.
From FIM Require Import Base.Str Model.Sliver2Kinds Gen.PropMap Model.Sliver2Map.
Import ListNotations.

Fixpoint nodupb (l : list string) : bool :=
  match l with
  | [] => true
  | x :: r => negb (mem x r) && nodupb r
  end.

Definition data_attrs (k : kind) : list string := akeys (blank k).

(* how the attribute x is written: by its own statement, or as the second half of a pair statement *)
Inductive to_role := RPrimary (e : enc) | RPartner (primary : string).

Definition is_partner_of (x : string) (te : to_entry) : bool :=
  match snd te with EImagePair y => String.eqb y x | _ => false end.

Definition to_for (k : kind) (x : string) : option (string * to_role) :=
  match find (fun te => String.eqb (fst (fst te)) x) (to_table k) with
  | Some (_, g, e) => Some (g, RPrimary e)
  | None => match find (is_partner_of x) (to_table k) with
            | Some (x0, g, _) => Some (g, RPartner x0)
            | None => None
            end
  end.

(* the attribute a from-entry ends up assigning *)
Definition target (k : kind) (fe : from_entry) : option string :=
  match find_setter k (fst (fst fe)) with Some (x, _) => Some x | None => None end.

Definition targets (k : kind) : list string :=
  flat_map (fun fe => match target k fe with Some x => [x] | None => [] end) (from_table k).

Definition from_for (k : kind) (x : string) : option (string * dec * setk) :=
  match find (fun fe => match target k fe with Some y => String.eqb y x | None => false end) (from_table k) with
  | Some (kw, g, dc) => match find_setter k kw with Some (_, st) => Some (g, dc, st) | None => None end
  | None => None
  end.

(* the pairs (how written, how read back, what the setter does) that are inverse to each other *)
Definition inv_ok (r : to_role) (dc : dec) (st : setk) : bool :=
  match r, dc, st with
  | RPrimary EPlain, DGet, SPlain None => true
  | RPrimary EPlain, DGet, SName => true
  | RPrimary EStr, DGet, SPlain None => true
  | RPrimary EStr, DGet, SIp => true
  | RPrimary EStr, DTypeFromStr, SPlain None => true
  | RPrimary EStr, DEnumFromString _, SPlain None => true
  | RPrimary EToJson, DFromJson c _, SPlain (Some c') => String.eqb c c'
  | RPrimary EToJson, DFromJson c _, SFinalize (Some c') => String.eqb c c'
  | RPrimary EToJson, DFromJson _ _, SPlain None => true
  | RPrimary EDataJson, DCtor c, SPlain (Some c') => String.eqb c c'
  | RPrimary EJsonDumps, DJsonLoads false, STuple => true
  | RPrimary EJsonDumpsAlways, DJsonLoads true, SPlain None => true
  | RPrimary (EImagePair _), DSplitComma 0, SPlain None => true
  | RPartner _, DSplitComma 1, SPlain None => true
  | RPrimary (EImagePair _), DRSplitComma 0, SPlain None => true
  | RPartner _, DRSplitComma 1, SPlain None => true
  | _, _, _ => false
  end.

(* pairing is consistent: the partner of a pair statement is itself written only through that statement *)
Definition partner_ok (k : kind) (te : to_entry) : bool :=
  match snd te with
  | EImagePair y =>
      match to_for k y with
      | Some (g, RPartner x0) => String.eqb g (snd (fst te)) && String.eqb x0 (fst (fst te))
                                 && negb (String.eqb y (fst (fst te)))
      | _ => false
      end
  | _ => true
  end.

Definition entry_ok (k : kind) (x : string) : bool :=
  match to_for k x, from_for k x with
  | Some (g, r), Some (g', dc, st) => String.eqb g g' && inv_ok r dc st
  | _, _ => false
  end.

Definition tables_symmetric (k : kind) : bool :=
  nodupb (data_attrs k)
  && nodupb (map (fun te => snd (fst te)) (to_table k))          (* one statement per graph property *)
  && nodupb (map (fun te => fst (fst te)) (to_table k))          (* one statement per attribute *)
  && nodupb (targets k)                                          (* one keyword per attribute *)
  && forallb (fun fe => match target k fe with Some x => mem x (data_attrs k) | None => false end) (from_table k)
  && forallb (fun te => mem (fst (fst te)) (data_attrs k)) (to_table k)
  && forallb (partner_ok k) (to_table k)
  && forallb (entry_ok k) (data_attrs k)                         (* every attribute: written and read inversely *)
  && forallb (fun te => negb (mem (snd (fst te)) child_keys)) (to_table k).

(* ---------- values ---------- *)
Definition no_comma (s : str) : bool := negb (existsb (N.eqb comma) s).
Definition json_text_ok (t : str) : bool := negb (str_eqb t []) && negb (str_eqb t s_None).
Definition not_json_const (t : str) : bool :=
  negb (str_eqb t s_true) && negb (str_eqb t s_false) && negb (str_eqb t s_null).

Definition aget (x : string) (a : attrs) : option fval :=
  match alookup x a with Some o => o | None => None end.

(* the first half of the pair may contain commas when the reader splits at the LAST comma *)
Definition pair_text_ok (dc : dec) (r : str) : bool :=
  match dc with DRSplitComma _ => true | _ => no_comma r end.

(* the value of attribute x is one its setter produces (documented type of the property) *)
Definition val_ok (k : kind) (r : to_role) (dc : dec) (st : setk) (a : attrs) (x : string) : bool :=
  match r, dc, st with
  | RPrimary EPlain, DGet, SName => match aget x a with Some (FStr _) => true | _ => false end
  | RPrimary EPlain, DGet, _ | RPrimary EStr, DGet, SPlain _ =>
      match aget x a with None | Some (FStr _) => true | _ => false end
  | RPrimary EStr, DGet, SIp => match aget x a with None | Some (FIp _) => true | _ => false end
  | RPrimary EStr, DTypeFromStr, _ =>
      match aget x a with
      | None => true
      | Some (FEnum e m) => String.eqb e (type_enum k) && is_member e m
      | _ => false end
  | RPrimary EStr, DEnumFromString e', _ =>
      match aget x a with
      | None => true
      | Some (FEnum e m) => String.eqb e e' && is_member e m
      | _ => false end
  | RPrimary EToJson, DFromJson c nk, _ =>
      match aget x a with
      | None => true
      | Some (FObj c' (Some t)) => String.eqb c' c && json_text_ok t
      | Some (FObj c' None) => String.eqb c' c && match nk with NKWrap => true | NKNone => false end
      | _ => false end
  | RPrimary EDataJson, DCtor c, _ =>
      match aget x a with None => true | Some (FData c' _) => String.eqb c' c | _ => false end
  | RPrimary EJsonDumps, DJsonLoads _, _ =>
      match aget x a with None => true | Some (FJson t) => not_json_const t | _ => false end
  | RPrimary EJsonDumpsAlways, DJsonLoads _, _ =>
      match aget x a with None | Some (FBool _) => true | _ => false end
  | RPrimary (EImagePair y), _, _ =>
      match aget x a, aget y a with
      | None, None => true
      | Some (FStr r), Some (FStr t) => pair_text_ok dc r && no_comma t
      | _, _ => false end
  | RPartner x0, _, _ =>
      match aget x0 a, aget x a with
      | None, None => true
      | Some (FStr r), Some (FStr t) => pair_text_ok dc r && no_comma t
      | _, _ => false end
  | _, _, _ => false
  end.

Definition attr_ok (k : kind) (a : attrs) (x : string) : bool :=
  match to_for k x, from_for k x with
  | Some (_, r), Some (_, dc, st) => val_ok k r dc st a x
  | _, _ => false
  end.

Definition keys_eqb (a b : list string) : bool := list_eqb String.eqb a b.

(* a sliver object of class k: exactly the class's data attributes, each holding a value of its kind *)
Definition attrs_wf (k : kind) (a : attrs) : bool :=
  keys_eqb (akeys a) (data_attrs k) && forallb (attr_ok k a) (data_attrs k).

(* what an ABSENT graph property reads back as (None, except where from_json wraps None) *)
Definition absent_reads (k : kind) (x : string) : option fval :=
  match from_for k x with
  | Some (_, DFromJson c NKWrap, _) => Some (FObj c None)
  | _ => None
  end.

(* an absent graph property reads as None for every attribute (no decoder wraps None any more) *)
Definition absent_none (k : kind) : bool :=
  forallb (fun x => match absent_reads k x with None => true | Some _ => false end) (data_attrs k).

Definition wrapping_decoders (k : kind) : list string :=
  filter (fun x => match absent_reads k x with None => false | Some _ => true end) (data_attrs k).

Definition normalize (k : kind) (a : attrs) : attrs :=
  map (fun xo => (fst xo, match snd xo with Some v => Some v | None => absent_reads k (fst xo) end)) a.

Definition is_normal (k : kind) (a : attrs) : bool :=
  forallb (fun xo => match snd xo with
                     | Some _ => true
                     | None => match absent_reads k (fst xo) with None => true | Some _ => false end
                     end) a.

(* ---------- element level ---------- *)
(* a property name the element API can set: it has a setter and a getter on the same attribute *)
Definition settable (k : kind) (p : string) : option string :=
  match find_setter k p, find_getter k p with
  | Some (x, _), Some (x', _) => if String.eqb x x' && mem x (data_attrs k) then Some x else None
  | _, _ => None
  end.

(* the attribute is written by a statement of its own (not one half of the image_ref/image_type pair) *)
Definition single_written (k : kind) (x : string) : bool :=
  match to_for k x with
  | Some (_, RPrimary (EImagePair _)) | Some (_, RPartner _) | None => false
  | Some (_, RPrimary _) => true
  end.

(* the setter stores its argument as it is (every setter but set_management_ip, which builds an
   ipaddress object from the text) *)
Definition stores_argument (k : kind) (p : string) : bool :=
  match find_setter k p with Some (_, SIp) | None => false | Some _ => true end.

(* setter keywords that SLIVER_PROPERTY_TO_GRAPH does not map (cannot be unset through the API) *)
Definition unmapped_setters (k : kind) : list string :=
  filter (fun kw => match settable k kw with
                    | Some _ => match alookup kw sliver_property_to_graph with Some _ => false | None => true end
                    | None => false end)
         (map (fun se => fst (fst se)) (setters k)).

(* the unset map sends a property name to the graph property its attribute is written to *)
Definition unset_map_ok (k : kind) (kw : string) : bool :=
  match settable k kw, alookup kw sliver_property_to_graph with
  | Some x, Some g => match to_for k x with Some (g', _) => String.eqb g g' | None => false end
  | _, _ => true
  end.

(* what one from-entry assigns when read from the dictionary d: (attribute, stored value) *)
Definition from_val (k : kind) (d : props) (fe : from_entry) : res (string * option fval) :=
  match find_setter k (fst (fst fe)) with
  | None => Err ExAttribute
  | Some (x, st) => bind (dec_val k (snd fe) (pget (snd (fst fe)) d))
                         (fun v => bind (apply_setter st v) (fun v' => Ok (x, v')))
  end.

(* what get_<p> returns once the graph property is removed (None, the default False of a flag, or the
   empty object where from_json wraps None) *)
Definition unset_reads (k : kind) (x : string) : option fval :=
  match from_for k x with
  | Some (_, DFromJson c NKWrap, _) => Some (FObj c None)
  | Some (_, DJsonLoads true, _) => Some (FBool false)
  | _ => None
  end.

(* every from-entry whose graph property may be removed reads the documented absent value *)
Definition absent_ok (k : kind) : bool :=
  forallb (fun fe => mem (snd (fst fe)) no_unset_properties ||
             match target k fe, from_val k [] fe with
             | Some x, Ok (x', v) =>
                 String.eqb x x' &&
                 match v, unset_reads k x with
                 | None, None => true
                 | Some (FObj c None), Some (FObj c' None) => String.eqb c c'
                 | Some (FBool b), Some (FBool b') => Bool.eqb b b'
                 | _, _ => false
                 end
             | _, _ => false
             end) (from_table k).

(* all attributes are of their kind or None (a sliver under construction: only some setters called) *)
Definition attrs_wf_weak (k : kind) (a : attrs) : bool :=
  keys_eqb (akeys a) (data_attrs k) &&
  forallb (fun x => match aget x a with None => true | Some _ => attr_ok k a x end) (data_attrs k).

(* the attribute is written even when it is None (the unguarded stitch_node statement) *)
Definition always_written (k : kind) (x : string) : bool :=
  match to_for k x with Some (_, RPrimary EJsonDumpsAlways) => true | _ => false end.

(* the keyword list builds a sliver whose set attributes are all of their kind (for the image pair:
   both halves given) *)
Definition values_ok (k : kind) (kvs : list (string * option fval)) : bool :=
  match blank_with k kvs (blank k) with
  | Ok a1 => attrs_wf_weak k a1
  | Err _ => false
  end.

(* distinct keywords assigning distinct data attributes *)
Definition kw_targets (k : kind) (kvs : list (string * option fval)) : list string :=
  flat_map (fun kv => match find_setter k (fst kv) with Some (x, _) => [x] | None => [] end) kvs.
Definition kws_ok (k : kind) (kvs : list (string * option fval)) : bool :=
  nodupb (kw_targets k kvs)
  && forallb (fun kv => match find_setter k (fst kv) with
                        | Some (x, _) => mem x (data_attrs k)
                        | None => false end) kvs.

(* the value v is one the setter of property p accepts and stores *)
Definition value_ok (k : kind) (p : string) (v : fval) : bool :=
  match blank_with k [(p, Some v)] (blank k) with
  | Ok a1 => attrs_wf_weak k a1
  | Err _ => false
  end.

(* what get_<p> returns on a sliver after set_<p>(v) *)
Definition stored (k : kind) (p : string) (v : fval) : option fval :=
  match find_setter k p with
  | Some (_, st) => match apply_setter st (Some v) with Ok o => o | Err _ => None end
  | None => None
  end.

(* the node properties can be read back as a sliver of class k *)
Definition readable (k : kind) (d : props) : bool := is_ok (from_props k d) && nodupb (akeys d).

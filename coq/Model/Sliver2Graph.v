(* C02 model, part 3: the graph route on the in-memory backend.
     add_network_node_sliver / add_component_sliver / add_network_service_sliver / add_interface_sliver /
     add_network_link_sliver                                      (abc_property_graph.py:1205-1302)
     build_deep_{node,component,ns,interface,link}_sliver         (abc_property_graph.py:862-1073)
   over the fragment of the property-graph API these use (add_node, add_link, get_node_properties,
   get_first_neighbor, check_node_unique of networkx_property_graph.py).  One graph; nodes carry a class
   label and a property dictionary; edges are undirected and carry a relation.  Definitions only. *)
From Coq Require Import List String NArith Bool.
From FIM Require Import Base.Str Model.Sliver2Kinds Gen.PropMap Model.Sliver2Map Model.Sliver2Deep.
Import ListNotations.

Record gnode := { g_id : str; g_label : string; g_props : props }.
Definition gedge := (str * string * str)%type.
Record graph := { g_nodes : list gnode; g_edges : list gedge }.

Definition empty_graph : graph := {| g_nodes := []; g_edges := [] |}.

Definition class_label (k : kind) : string :=
  match k with
  | KNode => "NetworkNode" | KComponent => "Component" | KService => "NetworkService"
  | KInterface => "ConnectionPoint" | KLink => "Link"
  end.
Definition rel_has : string := "has".
Definition rel_connects : string := "connects".

Definition find_node (g : graph) (id : str) : option gnode :=
  find (fun n => str_eqb (g_id n) id) (g_nodes g).

(* add_node: node ids are unique within a graph whatever the class (fix 7faf377) *)
Definition add_node (g : graph) (id : str) (label : string) (p : props) : res graph :=
  match find_node g id with
  | Some _ => Err ExQuery
  | None => Ok {| g_nodes := g_nodes g ++ [{| g_id := id; g_label := label;
                                              g_props := aupdate [(node_id_prop, Some id)] p |}];
                  g_edges := g_edges g |}
  end.

Definition same_edge (a b : str) (e : gedge) : bool :=
  let '(x, _, y) := e in (str_eqb x a && str_eqb y b) || (str_eqb x b && str_eqb y a).

(* add_link: both ends must exist; a second edge between the same two nodes replaces the first *)
Definition add_link (g : graph) (a : str) (rel : string) (b : str) : res graph :=
  match find_node g a, find_node g b with
  | Some _, Some _ =>
      Ok {| g_nodes := g_nodes g;
            g_edges := filter (fun e => negb (same_edge a b e)) (g_edges g) ++ [(a, rel, b)] |}
  | _, _ => Err ExQuery
  end.

Definition get_node_properties (g : graph) (id : str) : res (string * props) :=
  match find_node g id with
  | Some n => Ok (g_label n, g_props n)
  | None => Err ExQuery
  end.

Definition adjacent_via (g : graph) (id : str) (rel : string) (other : str) : bool :=
  existsb (fun e => let '(x, r, y) := e in
                    String.eqb r rel && ((str_eqb x id && str_eqb y other) || (str_eqb y id && str_eqb x other)))
          (g_edges g).

(* get_first_neighbor: ids of the nodes of class `label` related to id via rel (in node insertion
   order; the implementation's order comes from a Python set and is not compared) *)
Definition get_first_neighbor (g : graph) (id : str) (rel label : string) : res (list str) :=
  match find_node g id with
  | None => Err ExQuery
  | Some _ => Ok (map g_id (filter (fun n => String.eqb (g_label n) label && adjacent_via g id rel (g_id n))
                                   (g_nodes g)))
  end.

Definition check_node_unique (g : graph) (label : string) (name : option str) : bool :=
  negb (existsb (fun n => String.eqb (g_label n) label
                          && opt_eqb str_eqb (pget "Name" (g_props n)) name) (g_nodes g)).

(* ---------- writing slivers ---------- *)
Definition foldM {A St} (f : St -> A -> res St) (l : list A) (s : St) : res St :=
  fold_left (fun acc x => bind acc (fun s' => f s' x)) l (Ok s).

Definition olist {A} (o : option (list A)) : list A := match o with Some l => l | None => [] end.

(* every add_* asserts node_id is not None *)
Definition need_id (t : tree) : res str := match t_nid t with Some i => Ok i | None => Err ExAssertion end.

(* add_interface_sliver: node, link to the parent, then - when the regenerated flag
   add_interface_descends says the code does so (fix 1e6f502) - the child interfaces, recursively *)
Fixpoint add_interface_sliver (g : graph) (parent : option str) (t : tree) : res graph :=
  match t with
  | T _ nid a _ _ i =>
      match nid with
      | None => Err ExAssertion
      | Some id =>
          bind (to_props KInterface a) (fun p =>
          bind (add_node g id (class_label KInterface) p) (fun g1 =>
          bind (match parent with
                | Some pid => add_link g1 pid rel_connects id
                | None => Ok g1
                end) (fun g2 =>
            if add_interface_descends then
              match i with
              | Some l =>
                  (fix go (l : list tree) (g : graph) : res graph :=
                     match l with
                     | [] => Ok g
                     | u :: r => bind (add_interface_sliver g (Some id) u) (go r)
                     end) l g2
              | None => Ok g2
              end
            else Ok g2)))
      end
  end.

Definition t_ifs (t : tree) := match t with T _ _ _ _ _ i => i end.
Definition t_nss (t : tree) := match t with T _ _ _ _ n _ => n end.
Definition t_comps (t : tree) := match t with T _ _ _ c _ _ => c end.

Definition add_network_service_sliver (g : graph) (parent : option str) (t : tree) : res graph :=
  bind (need_id t) (fun id =>
    if match parent with
       | None => negb (check_node_unique g (class_label KService) (t_name t))
       | Some _ => false
       end then Err ExQuery
    else
  bind (to_props KService (t_attrs t)) (fun p =>
  bind (add_node g id (class_label KService) p) (fun g1 =>
  bind (match parent with Some pid => add_link g1 pid rel_has id | None => Ok g1 end) (fun g2 =>
    foldM (fun g' i => add_interface_sliver g' (Some id) i) (olist (t_ifs t)) g2)))).

Definition add_component_sliver (g : graph) (parent : str) (t : tree) : res graph :=
  bind (need_id t) (fun id =>
  bind (to_props KComponent (t_attrs t)) (fun p =>
  bind (add_node g id (class_label KComponent) p) (fun g1 =>
  bind (add_link g1 parent rel_has id) (fun g2 =>
    foldM (fun g' s => add_network_service_sliver g' (Some id) s) (olist (t_nss t)) g2)))).

Definition add_network_node_sliver (g : graph) (t : tree) : res graph :=
  bind (need_id t) (fun id =>
    if negb (check_node_unique g (class_label KNode) (t_name t)) then Err ExQuery else
  bind (to_props KNode (t_attrs t)) (fun p =>
  bind (add_node g id (class_label KNode) p) (fun g1 =>
  bind (foldM (fun g' c => add_component_sliver g' id c) (olist (t_comps t)) g1) (fun g2 =>
    foldM (fun g' s => add_network_service_sliver g' (Some id) s) (olist (t_nss t)) g2)))).

(* every interface must be in the graph before the Link node is added (fix b5829c4) *)
Definition add_network_link_sliver (g : graph) (t : tree) (interfaces : list str) : res graph :=
  bind (need_id t) (fun id =>
  bind (mapM (get_node_properties g) interfaces) (fun _ =>
  bind (to_props KLink (t_attrs t)) (fun p =>
  bind (add_node g id (class_label KLink) p) (fun g1 =>
    foldM (fun g' i => add_link g' id rel_connects i) interfaces g1)))).

(* the route by sliver class (services written stand-alone have no parent) *)
Definition add_sliver (g : graph) (t : tree) : res graph :=
  match t_kind t with
  | KNode => add_network_node_sliver g t
  | KComponent => Err ExOther                      (* components are only written under a node *)
  | KService => add_network_service_sliver g None t
  | KInterface => add_interface_sliver g None t
  | KLink => add_network_link_sliver g t []
  end.

(* ---------- rebuilding slivers ---------- *)
Definition flat_sliver (k : kind) (p : props) : res tree :=
  bind (from_props k p) (fun a => Ok (T k (node_id_of p) a None None None)).

Definition with_label (g : graph) (id : str) (k : kind) : res props :=
  bind (get_node_properties g id) (fun lp =>
    if String.eqb (fst lp) (class_label k) then Ok (snd lp) else Err ExQuery).

Definition dedicated : fval := FEnum "InterfaceType" (S"DedicatedPort").

(* the info object built from rebuilt children (None when there are none) *)
Definition info_of (ck : kind) (ts : list tree) : res (option (list tree)) :=
  match ts with
  | [] => Ok None
  | _ => bind (build_info ck ts) (fun l => Ok (Some l))
  end.

Definition build_deep_interface_sliver (g : graph) (id : str) : res tree :=
  bind (with_label g id KInterface) (fun p =>
  bind (from_props KInterface p) (fun a =>
    match alookup "resource_type" a with
    | Some (Some ty) =>
        if fval_eqb ty dedicated then
          bind (get_first_neighbor g id rel_connects (class_label KInterface)) (fun ids =>
          bind (mapM (fun i => bind (get_node_properties g i) (fun lp => flat_sliver KInterface (snd lp))) ids)
               (fun subs =>
          bind (info_of KInterface subs) (fun info =>
            Ok (T KInterface (node_id_of p) a None None info))))
        else Ok (T KInterface (node_id_of p) a None None None)
    | _ => Ok (T KInterface (node_id_of p) a None None None)
    end)).

Definition build_deep_ns_sliver (g : graph) (id : str) : res tree :=
  bind (with_label g id KService) (fun p =>
  bind (from_props KService p) (fun a =>
  bind (get_first_neighbor g id rel_connects (class_label KInterface)) (fun ids =>
  bind (mapM (build_deep_interface_sliver g) ids) (fun ifs =>
  bind (info_of KInterface ifs) (fun info =>
    Ok (T KService (node_id_of p) a None None info)))))).

Definition build_deep_component_sliver (g : graph) (id : str) : res tree :=
  bind (with_label g id KComponent) (fun p =>
  bind (from_props KComponent p) (fun a =>
  bind (get_first_neighbor g id rel_has (class_label KService)) (fun ids =>
  bind (mapM (build_deep_ns_sliver g) ids) (fun nss =>
  bind (info_of KService nss) (fun info =>
    Ok (T KComponent (node_id_of p) a None info None)))))).

Definition build_deep_node_sliver (g : graph) (id : str) : res tree :=
  bind (with_label g id KNode) (fun p =>
  bind (from_props KNode p) (fun a =>
  bind (get_first_neighbor g id rel_has (class_label KComponent)) (fun cids =>
  bind (mapM (build_deep_component_sliver g) cids) (fun cs =>
  bind (info_of KComponent cs) (fun cinfo =>
  bind (get_first_neighbor g id rel_has (class_label KService)) (fun sids =>
  bind (mapM (build_deep_ns_sliver g) sids) (fun nss =>
  bind (info_of KService nss) (fun sinfo =>
    Ok (T KNode (node_id_of p) a cinfo sinfo None))))))))).

Definition build_deep_link_sliver (g : graph) (id : str) : res tree :=
  bind (with_label g id KLink) (fun p => flat_sliver KLink p).

Definition build_deep (g : graph) (k : kind) (id : str) : res tree :=
  match k with
  | KNode => build_deep_node_sliver g id
  | KComponent => build_deep_component_sliver g id
  | KService => build_deep_ns_sliver g id
  | KInterface => build_deep_interface_sliver g id
  | KLink => build_deep_link_sliver g id
  end.

(* write into an empty graph, read back; a component is written under a host node that is already in
   the graph (components are only ever written under a node) *)
Definition host_id : str := S"host-id".
Definition host_graph : res graph :=
  add_node empty_graph host_id (class_label KNode) [("Name"%string, Some (S"host"))].

Definition graph_roundtrip (t : tree) : res tree :=
  if kind_eqb (t_kind t) KComponent then
    bind host_graph (fun g1 =>
    bind (add_component_sliver g1 host_id t) (fun g =>
      match t_nid t with
      | Some id => build_deep g KComponent id
      | None => Err ExAssertion
      end))
  else
    bind (add_sliver empty_graph t) (fun g =>
      match t_nid t with
      | Some id => build_deep g (t_kind t) id
      | None => Err ExAssertion
      end).

(* C07 - typed single-graph state of a topology, the primitive graph operations of the in-memory backend
   (fim/graph/networkx_property_graph.py: add_node :575, add_link :600, delete_node :549,
   get_first_neighbor :455, get_first_and_second_neighbor :479; fim/graph/networkx_mixin.py _find_node :40)
   and the state/exception monad in which the API programs of T7Ops.v are written.
   Definitions only.  A graph is the canonical projection the harness extracts after every call:
   nodes (NodeID, Class, Type, Name, "Labels present") and undirected edges (a, b, Class). *)
From Coq Require Import List NArith ZArith Bool.
From FIM Require Import Base.Str.
Import ListNotations.

Inductive cls := KNode | KComp | KNS | KCP | KLink | KComposite | KOther.
Inductive rel := Has | Connects | ROther.

Definition cls_eqb (a b : cls) : bool :=
  match a, b with
  | KNode, KNode | KComp, KComp | KNS, KNS | KCP, KCP | KLink, KLink | KComposite, KComposite | KOther, KOther => true
  | _, _ => false
  end.
Definition rel_eqb (a b : rel) : bool :=
  match a, b with Has, Has | Connects, Connects | ROther, ROther => true | _, _ => false end.

Record node := mkNode { nid : str; ncls : cls; ntyp : option str; nname : option str; nlab : bool }.
Record edge := mkEdge { ea : str; eb : str; erel : rel }.
Record graph := mkG { gnodes : list node; gedges : list edge }.

Definition empty_graph : graph := mkG [] [].

Definition ostr_eqb (a b : option str) : bool := opt_eqb str_eqb a b.
Definition node_eqb (a b : node) : bool :=
  str_eqb (nid a) (nid b) && cls_eqb (ncls a) (ncls b) && ostr_eqb (ntyp a) (ntyp b)
  && ostr_eqb (nname a) (nname b) && Bool.eqb (nlab a) (nlab b).
(* undirected *)
Definition edge_eqb (a b : edge) : bool :=
  rel_eqb (erel a) (erel b) &&
  ((str_eqb (ea a) (ea b) && str_eqb (eb a) (eb b)) || (str_eqb (ea a) (eb b) && str_eqb (eb a) (ea b))).
Definition same_ends (e : edge) (a b : str) : bool :=
  (str_eqb (ea e) a && str_eqb (eb e) b) || (str_eqb (ea e) b && str_eqb (eb e) a).

(* ---- queries ------------------------------------------------------------------------------ *)
Definition find_nodes (g : graph) (x : str) : list node := filter (fun n => str_eqb (nid n) x) (gnodes g).
Definition has_id (g : graph) (x : str) : bool := existsb (fun n => str_eqb (nid n) x) (gnodes g).
Definition get_node (g : graph) (x : str) : option node :=
  match find_nodes g x with [n] => Some n | _ => None end.
Definition cls_of (g : graph) (x : str) : option cls :=
  match find_nodes g x with n :: _ => Some (ncls n) | [] => None end.
Definition typ_of (g : graph) (x : str) : option str :=
  match find_nodes g x with n :: _ => ntyp n | [] => None end.
Definition name_of (g : graph) (x : str) : option str :=
  match find_nodes g x with n :: _ => nname n | [] => None end.
Definition cls_is (g : graph) (x : str) (k : cls) : bool :=
  match cls_of g x with Some c => cls_eqb c k | None => false end.
Definition typ_is (g : graph) (x : str) (t : str) : bool :=
  match typ_of g x with Some c => str_eqb c t | None => false end.

(* all neighbours with the class of the joining edge *)
Definition nbrs (g : graph) (x : str) : list (str * rel) :=
  flat_map (fun e => if str_eqb (ea e) x then [(eb e, erel e)]
                     else if str_eqb (eb e) x then [(ea e, erel e)] else []) (gedges g).
(* get_first_neighbor(node_id, rel, node_label) *)
Definition first_nb (g : graph) (x : str) (r : rel) (k : cls) : list str :=
  map fst (filter (fun p => rel_eqb (snd p) r && cls_is g (fst p) k) (nbrs g x)).
(* neighbours of class k over ANY edge class *)
Definition any_nb (g : graph) (x : str) (k : cls) : list str :=
  map fst (filter (fun p => cls_is g (fst p) k) (nbrs g x)).
(* get_first_and_second_neighbor(x, rel1, k1, rel2, k2): the rel2 filter of the implementation is
   ineffective (networkx_property_graph.py:529), second neighbours are taken over any edge class;
   the start node itself is removed from the second neighbours. *)
Definition second_nb (g : graph) (x : str) (r1 : rel) (k1 : cls) (k2 : cls) : list (str * str) :=
  flat_map (fun n => map (fun k => (n, k)) (filter (fun k => negb (str_eqb k x)) (any_nb g n k2)))
           (first_nb g x r1 k1).

Definition ids_of_class (g : graph) (k : cls) : list str :=
  map nid (filter (fun n => cls_eqb (ncls n) k) (gnodes g)).
Definition nodes_named (g : graph) (k : cls) (name : str) : list node :=
  filter (fun n => cls_eqb (ncls n) k && ostr_eqb (nname n) (Some name)) (gnodes g).

Fixpoint mem_str (x : str) (l : list str) : bool :=
  match l with [] => false | y :: r => str_eqb x y || mem_str x r end.
Fixpoint dedup (l : list str) : list str :=
  match l with [] => [] | x :: r => if mem_str x r then dedup r else x :: dedup r end.

(* first occurrences, in order *)
Fixpoint dedup_keep_aux (seen l : list str) : list str :=
  match l with [] => [] | x :: r => if mem_str x seen then dedup_keep_aux seen r else x :: dedup_keep_aux (x :: seen) r end.
Definition dedup_keep (l : list str) : list str := dedup_keep_aux [] l.

(* ---- primitive mutations (pure) ----------------------------------------------------------------- *)
Definition g_add_node (g : graph) (n : node) : graph := mkG (gnodes g ++ [n]) (gedges g).
(* nx.Graph.add_edge: one edge per unordered pair, a second add_edge overwrites the attributes *)
Definition g_add_edge (g : graph) (a : str) (r : rel) (b : str) : graph :=
  mkG (gnodes g) (filter (fun e => negb (same_ends e a b)) (gedges g) ++ [mkEdge a b r]).
Definition g_del_node (g : graph) (x : str) : graph :=
  mkG (filter (fun n => negb (str_eqb (nid n) x)) (gnodes g))
      (filter (fun e => negb (str_eqb (ea e) x) && negb (str_eqb (eb e) x)) (gedges g)).
Definition g_update (g : graph) (x : str) (f : node -> node) : graph :=
  mkG (map (fun n => if str_eqb (nid n) x then f n else n) (gnodes g)) (gedges g).

Definition set_name (s : str) (n : node) := mkNode (nid n) (ncls n) (ntyp n) (Some s) (nlab n).
Definition set_typ (s : str) (n : node) := mkNode (nid n) (ncls n) (Some s) (nname n) (nlab n).
Definition set_lab (b : bool) (n : node) := mkNode (nid n) (ncls n) (ntyp n) (nname n) b.

(* ---- exceptions and the monad ----------------------------------------------------------------------- *)
Inductive exn :=
| ETopology | EQuery | EValue | EAssert | ECatalog | ERuntime | EAttribute | EKey | EType | EIndex
| ENoRef          (* the harness could not obtain a handle through the views *)
| EAmbiguous      (* the implementation's choice is not determined by the model (tie among shortest paths) *)
| ENoDraw         (* the model wanted a generated id but the implementation drew none *)
| EOtherExn.

Definition exn_eqb (a b : exn) : bool :=
  match a, b with
  | ETopology, ETopology | EQuery, EQuery | EValue, EValue | EAssert, EAssert | ECatalog, ECatalog
  | ERuntime, ERuntime | EAttribute, EAttribute | EKey, EKey | EType, EType | EIndex, EIndex
  | ENoRef, ENoRef | EAmbiguous, EAmbiguous | ENoDraw, ENoDraw | EOtherExn, EOtherExn => true
  | _, _ => false
  end.

(* Behaviours of the running library that proposed repairs change; the harness reads each off the source of the
   library under test, so the same model follows the code before and after a repair lands:
     fl_rename_check    set_property('name') / rename refuse a name used in the element's scope (proposed_fixes/C07-3)
     fl_link_refuse     remove_link refuses a link that carries a service port (C07-4)
     fl_skip_gone       _disconnect_from_services skips an interface removed by an earlier disconnection (C07-5)
     fl_connect_names   connect_interface refuses a derived port / link name already in use (C07-6)
     fl_comp_precheck   add_component_sliver validates the ids it is going to add before it adds anything (C09-6, 94aa751)
     fl_connect_undo    connect_interface removes the new service port when its link cannot be made (C09-7, 7b7379b)
     fl_peer_checks     peer refuses a service peered with itself and a derived link name already in use (C07-7, 39e308b)
     fl_props_check     set_properties(name=...) checks the scope like set_property / rename (C07-8, e7f5960)
     fl_link_cp_only    add_link refuses arguments that are not interfaces (proposed C07-9)
     fl_disc_peering    disconnect_interface refuses a peering port, i.e. a service port whose peer is a service port:
                        such a port goes with unpeer (proposed C07-10)
     fl_parent_first    add_interface_sliver looks the parent up before it adds the node (a4fc126, C09); only observable
                        through the handle of a removed service, so only OStaleAddIface reads it *)
Record flags := mkFlags { fl_rename_check : bool; fl_link_refuse : bool; fl_skip_gone : bool; fl_connect_names : bool;
                          fl_comp_precheck : bool; fl_connect_undo : bool; fl_peer_checks : bool;
                          fl_props_check : bool; fl_link_cp_only : bool; fl_disc_peering : bool;
                          fl_parent_first : bool }.

Record st := mkSt { sg : graph; sdr : list str }.
Inductive res (A : Type) := Ok (a : A) | Err (e : exn).
Arguments Ok {A} a.
Arguments Err {A} e.
Definition M (A : Type) := st -> st * res A.

Definition ret {A} (a : A) : M A := fun s => (s, Ok a).
Definition raise {A} (e : exn) : M A := fun s => (s, Err e).
Definition bind {A B} (m : M A) (f : A -> M B) : M B :=
  fun s => match m s with (s', Ok a) => f a s' | (s', Err e) => (s', Err e) end.
Notation "x <- m ;; k" := (bind m (fun x => k)) (at level 61, m at next level, right associativity).
Notation "m ;;; k" := (bind m (fun _ => k)) (at level 61, right associativity).
Definition getg : M graph := fun s => (s, Ok (sg s)).
Definition putg (g : graph) : M unit := fun s => (mkSt g (sdr s), Ok tt).
Definition guard (b : bool) (e : exn) : M unit := if b then ret tt else raise e.
(* try m, on a TopologyException run the handler (which normally re-raises) *)
Definition try_topology {A} (m : M A) (h : M A) : M A :=
  fun s => match m s with (s', Err ETopology) => h s' | r => r end.
(* try m, on ANY exception run the handler with it (which normally re-raises it) *)
Definition try_any {A} (m : M A) (h : exn -> M A) : M A :=
  fun s => match m s with (s', Err e) => h e s' | r => r end.
Fixpoint for_each {A} (l : list A) (f : A -> M unit) : M unit :=
  match l with [] => ret tt | x :: r => f x ;;; for_each r f end.
(* str(uuid.uuid4()): the next id the implementation drew during this call *)
Definition draw : M str :=
  fun s => match sdr s with x :: r => (mkSt (sg s) r, Ok x) | [] => (s, Err ENoDraw) end.
Definition id_or_draw (o : option str) : M str := match o with Some x => ret x | None => draw end.

(* _find_node: exactly one node with this NodeID, else PropertyGraphQueryException *)
Definition find1 (x : str) : M node :=
  g <- getg ;; match find_nodes g x with [n] => ret n | _ => raise EQuery end.
(* get_node_properties *)
Definition props := find1.
(* add_node: NodeID must be new in the graph whatever the class (fix 7faf377) *)
Definition add_node (n : node) : M unit :=
  g <- getg ;; guard (negb (has_id g (nid n))) EQuery ;;; putg (g_add_node g n).
Definition add_link (a : str) (r : rel) (b : str) : M unit :=
  find1 a ;;; find1 b ;;; g <- getg ;; putg (g_add_edge g a r b).
Definition delete_node (x : str) : M unit :=
  find1 x ;;; g <- getg ;; putg (g_del_node g x).
Definition update_node (x : str) (f : node -> node) : M unit :=
  find1 x ;;; g <- getg ;; putg (g_update g x f).
Definition q_first_nb (x : str) (r : rel) (k : cls) : M (list str) :=
  find1 x ;;; g <- getg ;; ret (first_nb g x r k).
Definition q_second_nb (x : str) (r1 : rel) (k1 k2 : cls) : M (list (str * str)) :=
  find1 x ;;; g <- getg ;; ret (second_nb g x r1 k1 k2).
(* check_node_unique(label, name) *)
Definition check_node_unique (k : cls) (name : str) : M bool :=
  g <- getg ;; ret (match nodes_named g k name with [] => true | _ => false end).
(* find_node_by_name (networkx_asm.py:41) *)
Definition find_node_by_name (name : str) (k : cls) : M str :=
  g <- getg ;; match nodes_named g k name with [n] => ret (nid n) | _ => raise EQuery end.
(* props[PROP_NAME] of a handle built from the graph: KeyError when the node has no Name *)
Definition name_prop (n : node) : M str := match nname n with Some s => ret s | None => raise EKey end.

(* C01 model, second store flavour: NetworkXGraphStorageDisjoint
   (fim/graph/networkx_property_graph_disjoint.py:87-186) - one nx.Graph per graph id, in a defaultdict.
   Tied to the code by the `disjoint` correspondence stream and judged by the same property oracle;
   no theorems are stated about this flavour.  Definitions only. *)
From Coq Require Import String.
From Coq Require Import List NArith ZArith Bool.
From FIM Require Import Base.Str Model.Serial1Text Model.Serial1Graph Model.Serial1Corr.
Import ListNotations.

Definition dstore := list (str * nxg).
Definition empty_graph : nxg := {| g_nodes := []; g_edges := [] |}.

Fixpoint dget (s : dstore) (gid : str) : nxg :=          (* self.graphs[gid] : absent = empty graph *)
  match s with
  | [] => empty_graph
  | (k, g) :: r => if str_eqb k gid then g else dget r gid
  end.
Fixpoint dset (s : dstore) (gid : str) (g : nxg) : dstore :=
  match s with
  | [] => [(gid, g)]
  | (k, g') :: r => if str_eqb k gid then (k, g) :: r else (k, g') :: dset r gid g
  end.

(* add_graph :98-124: a graph id that already holds nodes is left as it is ("skipping") *)
Definition d_add_graph (s : dstore) (gid : str) (g : nxg) : dstore * res :=
  if nonempty (dget s gid) then (s, ROk gid)
  else match relabel 1%N g with
       | None => (s, RUnsupported)
       | Some t => if forallb (fun n => truthy (pget P_NodeID (snd n))) (g_nodes t)
                   then (dset s gid (stamp gid t), ROk gid)
                   else (s, RErrImport)
       end.

(* add_graph_direct :126-139: replaces *)
Definition d_add_graph_direct (s : dstore) (gid : str) (g : nxg) : dstore * res :=
  match relabel 1%N g with
  | None => (s, RUnsupported)
  | Some t => (dset s gid t, ROk gid)
  end.

Definition d_import_string (s : dstore) (t : gtext) (gid : str) : dstore * res :=
  match read_any t with
  | Some g => if nonempty g then d_add_graph s gid g else (s, RErrImport)
  | None => (s, RErrImport)
  end.
Definition d_import_string_direct (s : dstore) (t : gtext) : dstore * res :=
  match get_graph_id t with
  | ROk gid => match read_any t with
               | Some g => if nonempty g then d_add_graph_direct s gid g else (s, RErrImport)
               | None => (s, RErrImport)
               end
  | r => (s, r)
  end.
Definition d_import_via (ep : entry) (s : dstore) (t : gtext) (gid : str) : dstore * res :=
  if is_direct ep then d_import_string_direct s (file_trip t) else d_import_string s (file_trip t) gid.

(* extract_graph never returns None here, so serialize_graph always produces a text *)
Definition d_serialize_graph (s : dstore) (gid : str) (f : fmt) : option (option gtext) :=
  Some (serialize f (dget s gid)).

Definition d_load (acc : dstore * list res) (x : bool * str * nxg) : dstore * list res :=
  let '(direct, gid, g) := x in
  let '(s, rs) := acc in
  let '(s', r) := if direct then d_add_graph_direct s gid g else d_add_graph s gid g in
  (s', rs ++ [r]).

Definition run_d (c : case) : obs :=
  let '(s0, loads) := fold_left d_load (c_pre c) ([], []) in
  let text := match c_src c with
              | Some gid => d_serialize_graph s0 gid (c_fmt c)
              | None => Some (serialize (c_fmt c) (c_raw c))
              end in
  match text with
  | Some (Some t) =>
      let '(s1, r) := d_import_via (c_ep c) s0 t (c_gid c) in
      {| o_loads := loads; o_ser := ser_obs_of text; o_res := Some r;
         o_graphs := map (fun gid => Some (content (dget s1 gid))) (c_watch c);
         o_reser := match r with
                    | ROk g => Some (ser_obs_of (d_serialize_graph s1 g (c_fmt c)))
                    | _ => None end |}
  | _ => {| o_loads := loads; o_ser := ser_obs_of text; o_res := None;
            o_graphs := map (fun gid => Some (content (dget s0 gid))) (c_watch c);
            o_reser := None |}
  end.

Definition check_d (x : case * obs) : bool := obs_eqb (c_names (fst x)) (run_d (fst x)) (snd x).

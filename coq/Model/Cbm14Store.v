(* C14 - store-level model: merge_adm / _update_node_delegations / unmerge_adm
   (fim/graph/resources/neo4j_cbm.py:66-236), snapshot / rollback (abc_cbm.py:59-84), executed over the
   in-memory shared store (fim/graph/networkx_property_graph.py: one networkx graph holding every model,
   nodes carry GraphID / NodeID / Class and properties; clone_graph, update_nodes_property, merge_nodes =
   networkx contracted_nodes, delete_node, find_matching_nodes, graph_exists), and
   ABCADMPropertyGraph.rewrite_delegations (abc_adm.py:46-86).
   Definitions only.  Opaque strings (graph ids, node ids, class names, property names and values, the
   per-delegation content) are interned to N by the harness. *)
From Coq Require Import List NArith Bool.
From FIM Require Gen.Cbm14Gen.
Import ListNotations.
Open Scope N_scope.

(* a LabelDelegations / CapacityDelegations property: absent, the empty string (what unmerge writes), or a
   JSON object  delegation-id -> content *)
Inductive dval := DAbs | DStr0 | DDict (l : list (N * N)).
(* the StructuralInfo property: absent, JSON without an adm_graph_ids list, or adm_graph_ids = l *)
Inductive sival := SAbs | SOther (t : N) | SIds (l : list N).

Record node := mkNode { n_int : N; n_gid : N; n_nid : N; n_cls : N; n_oth : list (N * N);
                        n_si : sival; n_ld : dval; n_cd : dval }.
(* e_con: the edge carries networkx's 'contraction' attribute *)
Record edge := mkEdge { e_a : N; e_b : N; e_cls : N; e_oth : list (N * N); e_con : bool }.
Record store := mkStore { s_nodes : list node; s_edges : list edge; s_next : N }.

Inductive exn := EAssert | EAttr | EPGQ | EKey.
(* OErrU: the code raised in the middle of a loop over a Python set: partial effects depend on the
   iteration order and are not predicted *)
Inductive outcome := OOk (s : store) | OErr (e : exn) (s : store) | OErrU (e : exn).

Definition set_gid g n := mkNode (n_int n) g (n_nid n) (n_cls n) (n_oth n) (n_si n) (n_ld n) (n_cd n).
Definition set_int_gid i g n := mkNode i g (n_nid n) (n_cls n) (n_oth n) (n_si n) (n_ld n) (n_cd n).
Definition set_si s n := mkNode (n_int n) (n_gid n) (n_nid n) (n_cls n) (n_oth n) s (n_ld n) (n_cd n).
Definition set_dels ld cd n := mkNode (n_int n) (n_gid n) (n_nid n) (n_cls n) (n_oth n) (n_si n) ld cd.
Definition set_con b e := mkEdge (e_a e) (e_b e) (e_cls e) (e_oth e) b.

Definition of_gid (g : N) (st : store) : list node := filter (fun n => n_gid n =? g) (s_nodes st).
(* graph_exists *)
Definition gexists (g : N) (st : store) : bool := existsb (fun n => n_gid n =? g) (s_nodes st).
Definition find_node (g x : N) (st : store) : option node :=
  find (fun n => (n_gid n =? g) && (n_nid n =? x)) (s_nodes st).
Definition upd_node (n' : node) (st : store) : store :=
  mkStore (map (fun n => if n_int n =? n_int n' then n' else n) (s_nodes st)) (s_edges st) (s_next st).
Definition map_gid (g : N) (f : node -> node) (st : store) : store :=
  mkStore (map (fun n => if n_gid n =? g then f n else n) (s_nodes st)) (s_edges st) (s_next st).

(* update_nodes_property(GraphID, new) on graph g : _find_all_nodes raises when g has no node *)
Definition rehome (g new : N) (st : store) : outcome :=
  if gexists g st then OOk (map_gid g (set_gid new) st) else OErr EPGQ st.

(* ---- clone_graph: extract_graph + add_graph (fresh internal ids from start_id) ---- *)
Fixpoint clone_nodes (new next : N) (l : list node) : list node * list (N * N) :=
  match l with
  | [] => ([], [])
  | n :: r => let '(ns, m) := clone_nodes new (N.succ next) r in
              (set_int_gid next new n :: ns, (n_int n, next) :: m)
  end.
Fixpoint lookup (m : list (N * N)) (k : N) : option N :=
  match m with [] => None | (a, b) :: r => if a =? k then Some b else lookup r k end.
Definition clone_edges (m : list (N * N)) (es : list edge) : list edge :=
  flat_map (fun e => match lookup m (e_a e), lookup m (e_b e) with
                     | Some a, Some b => [mkEdge a b (e_cls e) (e_oth e) (e_con e)]
                     | _, _ => [] end) es.
Definition clone (g new : N) (st : store) : store :=
  let src := of_gid g st in
  let '(ns, m) := clone_nodes new (s_next st) src in
  mkStore (s_nodes st ++ ns) (s_edges st ++ clone_edges m (s_edges st)) (s_next st + N.of_nat (length src)).

(* ---- delete_node ---- *)
Definition delete_node (i : N) (st : store) : store :=
  mkStore (filter (fun n => negb (n_int n =? i)) (s_nodes st))
          (filter (fun e => negb (e_a e =? i) && negb (e_b e =? i)) (s_edges st)) (s_next st).
Definition delete_graph (g : N) (st : store) : store :=
  fold_left (fun s n => delete_node (n_int n) s) (of_gid g st) st.

(* ---- merge_nodes = networkx contracted_nodes(G, u, v, copy=False): v disappears, its edges are re-attached
   to u; an edge that already exists keeps its own data and receives the 'contraction' attribute; then
   (networkx_property_graph.py:668-671) the 'contraction' attribute is popped from every link of u ---- *)
Definition joins (a b : N) (e : edge) : bool :=
  ((e_a e =? a) && (e_b e =? b)) || ((e_a e =? b) && (e_b e =? a)).
Definition has_edge (a b : N) (es : list edge) : bool := existsb (joins a b) es.
Definition flag_edge (a b : N) (es : list edge) : list edge :=
  map (fun e => if joins a b e then set_con true e else e) es.
Definition reattach (u v : N) (es : list edge) (e : edge) : list edge :=
  let x0 := if e_a e =? v then e_b e else e_a e in
  let x := if x0 =? v then u else x0 in
  if has_edge u x es then flag_edge u x es else es ++ [mkEdge u x (e_cls e) (e_oth e) (e_con e)].
Definition pop_contraction (u : N) (es : list edge) : list edge :=
  map (fun e => if (e_a e =? u) || (e_b e =? u) then set_con false e else e) es.
Definition contract (u v : N) (st : store) : store :=
  let ev := filter (fun e => (e_a e =? v) || (e_b e =? v)) (s_edges st) in
  let st1 := delete_node v st in
  mkStore (s_nodes st1) (pop_contraction u (fold_left (reattach u v) ev (s_edges st1))) (s_next st1).

(* ---- rewrite_delegations(real_adm_id = adm) on one node ---- *)
Definition rw_d (adm : N) (d : dval) : dval + exn :=
  match d with
  | DAbs => inl DAbs
  | DStr0 => inr EAttr                        (* from_json('') is None -> None.get_delegation_ids() *)
  | DDict [(_, c)] => inl (DDict [(adm, c)])
  | DDict _ => inr EPGQ                       (* "more than one entry" (or none) *)
  end.
Definition rw_node (adm : N) (n : node) : node + exn :=
  match rw_d adm (n_ld n) with
  | inr e => inr e
  | inl ld => match rw_d adm (n_cd n) with
              | inr e => inr e
              | inl cd => inl (set_dels ld cd n)
              end
  end.
Fixpoint rw_nodes (adm tmp : N) (l : list node) : list node + exn :=
  match l with
  | [] => inl []
  | n :: r => if n_gid n =? tmp then
                match rw_node adm n with
                | inr e => inr e
                | inl n' => match rw_nodes adm tmp r with inr e => inr e | inl r' => inl (n' :: r') end
                end
              else match rw_nodes adm tmp r with inr e => inr e | inl r' => inl (n :: r') end
  end.

(* ---- _update_node_delegations ---- *)
(* Delegations.from_json: None for an absent / empty property *)
Definition speaks (d : dval) : bool := match d with DDict _ => true | _ => false end.
Definition upd_d (c a : dval) : dval := if speaks c then c else if speaks a then a else c.
Definition double_speaker (c t : node) : bool :=
  (speaks (n_ld c) && speaks (n_ld t)) || (speaks (n_cd c) && speaks (n_cd t)).

(* one common node: update delegations, merge_nodes (CBM properties kept), append adm to adm_graph_ids *)
Definition merge_one (cbm tmp adm : N) (acc : option store) (x : N) : option store :=
  match acc with
  | None => None
  | Some st =>
    match find_node cbm x st, find_node tmp x st with
    | Some c, Some t =>
        match n_si c with
        | SIds l =>
            let c' := set_si (SIds (l ++ [adm])) (set_dels (upd_d (n_ld c) (n_ld t)) (upd_d (n_cd c) (n_cd t)) c) in
            Some (contract (n_int c) (n_int t) (upd_node c' st))
        | _ => None
        end
    | _, _ => None
    end
  end.

Definition merge_adm (cbm adm tmp : N) (st : store) : outcome :=
  if negb (gexists adm st) then OErr EAssert st else
  let st1 := clone adm tmp st in
  match rw_nodes adm tmp (s_nodes st1) with
  | inr e => OErr e st1
  | inl ns =>
    let st2 := map_gid tmp (set_si (SIds [adm])) (mkStore ns (s_edges st1) (s_next st1)) in
    if negb (gexists cbm st2) then rehome tmp cbm st2 else
    let common := filter (fun x => existsb (fun c => n_nid c =? x) (of_gid cbm st2)) (map n_nid (of_gid tmp st2)) in
    if existsb (fun x => match find_node cbm x st2, find_node tmp x st2 with
                         | Some c, Some t => double_speaker c t | _, _ => false end) common
    then OErrU EPGQ else
    match fold_left (merge_one cbm tmp adm) common (Some st2) with
    | None => OErrU EAttr
    | Some st3 => if gexists tmp st3 then rehome tmp cbm st3 else OOk st3   (* nothing left to re-home *)
    end
  end.

(* ---- unmerge_adm ---- *)
Fixpoint remove_first (g : N) (l : list N) : list N :=
  match l with [] => [] | x :: r => if x =? g then r else x :: remove_first g r end.
Definition mem (g : N) (l : list N) : bool := existsb (N.eqb g) l.
(* delegations part: Some d' | None = raise "more than one delegation" *)
Definition unm_d (g : N) (d : dval) : option dval :=
  match d with
  | DDict l => if mem g (map fst l)
               then (if forallb (fun kv => fst kv =? g) l then Some DStr0 else None)
               else Some d
  | _ => Some d
  end.
(* result per node: (node', delete?) *)
Definition unm_node (g : N) (n : node) : option (node * bool) + exn :=
  match n_si n with
  | SAbs => inr EKey
  | SOther _ => inl (Some (n, false))
  | SIds l =>
      let '(n1, del) := if mem g l then
                          let l' := remove_first g l in
                          match l' with [] => (n, true) | _ => (set_si (SIds l') n, false) end
                        else (n, false) in
      match unm_d g (n_cd n1), unm_d g (n_ld n1) with
      | Some cd, Some ld => inl (Some (set_dels ld cd n1, del))
      | _, _ => inl None
      end
  end.
Fixpoint unm_nodes (cbm g : N) (l : list node) : option (list node * list N) + exn :=
  match l with
  | [] => inl (Some ([], []))
  | n :: r =>
      if n_gid n =? cbm then
        match unm_node g n with
        | inr e => inr e
        | inl None => inl None
        | inl (Some (n', del)) =>
            match unm_nodes cbm g r with
            | inr e => inr e
            | inl None => inl None
            | inl (Some (r', ds)) => inl (Some (n' :: r', if del then n_int n :: ds else ds))
            end
        end
      else match unm_nodes cbm g r with
           | inr e => inr e
           | inl None => inl None
           | inl (Some (r', ds)) => inl (Some (n :: r', ds))
           end
  end.
Definition unmerge_adm (cbm g : N) (st : store) : outcome :=
  if negb (gexists cbm st) then OErr EPGQ st else        (* list_all_node_ids -> _find_all_nodes raises *)
  match unm_nodes cbm g (s_nodes st) with
  | inr e => OErrU e
  | inl None => OErrU EPGQ
  | inl (Some (ns, ds)) =>
      OOk (fold_left (fun s i => delete_node i s) ds (mkStore ns (s_edges st) (s_next st)))
  end.

(* ---- snapshot / rollback ---- *)
Definition snapshot (cbm new : N) (st : store) : outcome :=
  if negb (gexists cbm st) then OErr EPGQ st else OOk (clone cbm new st).   (* clone_graph: "Unable to find graph" (fix fdc67eb) *)
(* rollback (abc_cbm.py): with checks_first the snapshot is looked up (cast_graph asserts that it exists) BEFORE the
   combined graph deletes itself, otherwise after.  Which of the two the code does is read from the source on every
   run (translator/gen_cbm14.py -> Gen/Cbm14Gen.rollback_checks_first). *)
Definition rollback_gen (checks_first : bool) (cbm sid : N) (st : store) : outcome :=
  if checks_first then
    if negb (gexists sid st) then OErr EAssert st else rehome sid cbm (delete_graph cbm st)
  else
    let st1 := delete_graph cbm st in
    if negb (gexists sid st1) then OErr EAssert st1 else rehome sid cbm st1.
Definition rollback : N -> N -> store -> outcome := rollback_gen Cbm14Gen.rollback_checks_first.

(* ---- canonical view of one graph (what the harness records from the implementation) ---- *)
Definition vnode := (N * N * list (N * N) * sival * dval * dval)%type.
Definition vedge := (N * N * N * list (N * N) * bool)%type.
Definition view := option (list vnode * list vedge).

Definition vnode_of (n : node) : vnode := (n_nid n, n_cls n, n_oth n, n_si n, n_ld n, n_cd n).
Fixpoint ins_node (x : vnode) (l : list vnode) : list vnode :=
  match l with
  | [] => [x]
  | y :: r => let '(kx, _, _, _, _, _) := x in let '(ky, _, _, _, _, _) := y in
              if kx <=? ky then x :: l else y :: ins_node x r
  end.
Definition sort_nodes (l : list vnode) : list vnode := fold_right ins_node [] l.
Definition ekey_le (x y : vedge) : bool :=
  let '(a, b, _, _, _) := x in let '(c, d, _, _, _) := y in (a <? c) || ((a =? c) && (b <=? d)).
Fixpoint ins_edge (x : vedge) (l : list vedge) : list vedge :=
  match l with
  | [] => [x]
  | y :: r => if ekey_le x y then x :: l else y :: ins_edge x r
  end.
Definition sort_edges (l : list vedge) : list vedge := fold_right ins_edge [] l.
Definition nid_of_int (ns : list node) (i : N) : option N :=
  match find (fun n => n_int n =? i) ns with Some n => Some (n_nid n) | None => None end.
Definition vedges_of (ns : list node) (es : list edge) : list vedge :=
  flat_map (fun e => match nid_of_int ns (e_a e), nid_of_int ns (e_b e) with
                     | Some a, Some b => [(N.min a b, N.max a b, e_cls e, e_oth e, e_con e)]
                     | _, _ => [] end) es.
Definition view_of (g : N) (st : store) : view :=
  match of_gid g st with
  | [] => None
  | ns => Some (sort_nodes (map vnode_of ns), sort_edges (vedges_of ns (s_edges st)))
  end.

(* ---- decidable store invariant used by the frame theorems (Proofs/Cbm14Frame.v): internal ids unique and
   below start_id, and no connection leaves graph g ---- *)
Definition memN (x : N) (l : list N) : bool := existsb (N.eqb x) l.
Definition touches (I : list N) (e : edge) : bool := memN (e_a e) I || memN (e_b e) I.
Definition gints (g : N) (st : store) : list N := map n_int (of_gid g st).
Fixpoint nodupN (l : list N) : bool :=
  match l with [] => true | x :: r => negb (memN x r) && nodupN r end.
Definition goodb (g : N) (st : store) : bool :=
  nodupN (map n_int (s_nodes st)) &&
  forallb (fun n => n_int n <? s_next st) (s_nodes st) &&
  forallb (fun e => (e_a e <? s_next st) && (e_b e <? s_next st)) (s_edges st) &&
  forallb (fun e => implb (touches (gints g st) e) (memN (e_a e) (gints g st) && memN (e_b e) (gints g st)))
          (s_edges st).

(* C02: well-formed sliver trees (the hypothesis of the deep round-trip theorems) and the remaining
   finite obligations on the tables.  Definitions only. *)
From Coq Require Import List String NArith Bool.
From FIM Require Import Base.Str Model.Sliver2Kinds Gen.PropMap Model.Sliver2Map Model.Sliver2WF
  Model.Sliver2Deep.
Import ListNotations.

Definition named (t : tree) : bool := match t_name t with Some _ => true | None => false end.
Definition typed (t : tree) : bool :=
  match alookup "resource_type" (t_attrs t) with Some (Some _) => true | _ => false end.

Fixpoint names_nodup (l : list str) : bool :=
  match l with
  | [] => true
  | x :: r => negb (existsb (str_eqb x) r) && names_nodup r
  end.

Definition is_nil {A} (l : list A) : bool := match l with [] => true | _ => false end.

(* a child dictionary: absent, or non-empty, holding well-formed slivers of the right class with
   distinct names (they key a dict); components also carry a type (add_device asserts it) *)
Definition kids_ok (wf : tree -> bool) (ck : kind) (o : option (list tree)) : bool :=
  match o with
  | None => true
  | Some l =>
      negb (is_nil l)
      && forallb (fun u => kind_eqb (t_kind u) ck && wf u && named u
                           && (if kind_eqb ck KComponent then typed u else true)) l
      && names_nodup (map name_key l)
  end.

Definition slot_ok (wf : tree -> bool) (b : bool) (ck : kind) (o : option (list tree)) : bool :=
  if b then kids_ok wf ck o else match o with None => true | Some _ => false end.

Fixpoint tree_wf (t : tree) : bool :=
  match t with
  | T k nid a c n i =>
      attrs_wf k a
      && slot_ok tree_wf (has_comps k) KComponent c
      && slot_ok tree_wf (has_nss k) KService n
      && slot_ok tree_wf (has_ifs k) KInterface i
  end.

Definition all_kinds : list kind := [KNode; KComponent; KService; KInterface; KLink].

(* the dictionary forms: no graph property is called like a child key or like the node id *)
Definition dict_tables_ok (k : kind) : bool :=
  forallb (fun te => negb (mem (snd (fst te)) child_keys) && negb (String.eqb (snd (fst te)) node_id_prop))
          (to_table k)
  && forallb (fun fe => negb (String.eqb (snd (fst fe)) node_id_prop)) (from_table k)
  && list_eqb String.eqb child_keys [k_components; k_services; k_interfaces].

Definition all_tables_ok : bool :=
  forallb (fun k => tables_symmetric k && dict_tables_ok k && absent_ok k && absent_none k) all_kinds.

(* diagnosis: the attributes / keywords / graph properties whose table entries are not inverse (empty
   exactly when the entry-wise part of tables_symmetric holds) *)
Definition bad_entries (k : kind) : list string :=
  filter (fun x => negb (entry_ok k x)) (data_attrs k)
  ++ map (fun te => fst (fst te)) (filter (fun te => negb (mem (fst (fst te)) (data_attrs k)) || negb (partner_ok k te)) (to_table k))
  ++ map (fun fe => fst (fst fe)) (filter (fun fe => match target k fe with
                                                     | Some x => negb (mem x (data_attrs k))
                                                     | None => true end) (from_table k)).

(* C12 model, part 1: Delegation / Delegations of fim/slivers/delegations.py (lines 51-296), the
   Capacities / Labels objects that are their "details" (fim/slivers/capacities_labels.py: __init__,
   _set_fields, to_dict) and the JSON encoding at the VALUE level (what json.loads(to_json()) is and what
   from_json does with json.loads(text)).  Definitions only; proofs are in Proofs/Deleg12*.v.

   Conventions: Python str = list N (code points); exceptions = `Err cls`; a dict = insertion-ordered
   association list; the regenerated constants / field lists come from Gen/DelegGen.v. *)
From Coq Require Import List ZArith NArith Bool String.
From FIM Require Import Base.Str Base.Corr Gen.DelegGen.
Import ListNotations.

(* ---------------------------------------------------------------------------------------------- *)
(* results and exception classes                                                                    *)
(* ---------------------------------------------------------------------------------------------- *)
Inductive exn :=
| EDelegation      (* DelegationException *)
| EPool            (* PoolException *)
| EAssertion       (* AssertionError *)
| EKey             (* KeyError *)
| EType            (* TypeError *)
| ELabel           (* LabelException *)
| ECapacity        (* CapacityException *)
| EQuery           (* PropertyGraphQueryException *)
| EUnmodelled      (* a state the API cannot produce (explicit error branch, excluded in every statement) *)
| EOther (cls : str).   (* any other class, by name (verdicts of the label validators, e.g. ValueError) *)

Inductive res (A : Type) := Ok (a : A) | Err (e : exn).
Arguments Ok {A} a.
Arguments Err {A} e.

Definition bind {A B} (r : res A) (f : A -> res B) : res B :=
  match r with Ok a => f a | Err e => Err e end.

Inductive dtype := TCap | TLab.                       (* DelegationType.CAPACITY / LABEL *)
Inductive dformat := FDef | FRef | FSingle.           (* PoolDefinition / PoolReference / SinglePool *)

Definition dtype_eqb (a b : dtype) : bool :=
  match a, b with TCap, TCap => true | TLab, TLab => true | _, _ => false end.

(* ---------------------------------------------------------------------------------------------- *)
(* details: Capacities / Labels objects and their dictionaries                                      *)
(* ---------------------------------------------------------------------------------------------- *)
(* a scalar that can sit in a details dictionary (JSON int, string, list of strings) *)
Inductive dval := DInt (z : Z) | DStr (s : str) | DList (l : list str).
Definition ddict := list (str * dval).                (* kwargs / JSON object, insertion ordered *)

(* a Capacities or Labels object: its class and the value of every field of __dict__, in __init__ order
   (None = Python None) *)
Record det := mkDet { det_kind : dtype; det_vals : list (option dval) }.

Definition fields_of (ty : dtype) : list str :=
  match ty with TCap => deleg_cap_fields | TLab => deleg_lab_fields end.
Definition default_of (ty : dtype) : option dval :=    (* __init__ defaults: 0 / None *)
  match ty with TCap => Some (DInt 0) | TLab => None end.

Fixpoint lookup {A} (k : str) (l : list (str * A)) : option A :=
  match l with
  | [] => None
  | (k', v) :: r => if str_eqb k' k then Some v else lookup k r
  end.

Definition is_field (ty : dtype) (k : str) : bool := existsb (fun f => str_eqb f k) (fields_of ty).

(* JSONField.to_dict: drop a field when `d[k] is None or d[k] == 0`; None when nothing is left *)
Definition dropped (v : option dval) : bool :=
  match v with
  | None => true
  | Some (DInt z) => dict_drop_int z
  | Some _ => false            (* a str or a list never equals 0 *)
  end.

Fixpoint kept_pairs (fs : list str) (vs : list (option dval)) : ddict :=
  match fs, vs with
  | f :: fs', v :: vs' =>
      match v with
      | Some x => if dropped v then kept_pairs fs' vs' else (f, x) :: kept_pairs fs' vs'
      | None => kept_pairs fs' vs'
      end
  | _, _ => []
  end.

Definition det_to_dict (x : det) : option ddict :=
  match kept_pairs (fields_of (det_kind x)) (det_vals x) with
  | [] => None
  | d => Some d
  end.

Section WithValidators.
(* Labels._set_fields runs the regular-expression / lambda validators of the field (the subject of C16);
   here they are a parameter: the verdict (None = accepted, Some cls = exception class raised) for a
   field name and a value.  Every theorem holds for ANY validator; the correspondence instantiates it
   with the verdicts recorded from the implementation. *)
Variable lab_check : str -> dval -> option exn.

(* one iteration of the `for k, v in kwargs.items()` loop of _set_fields (non-forgiving):
   None = the field is set, Some cls = raises.
   Capacities: `assert v >= 0` (TypeError for a str/list), `assert isinstance(v, int)`, unknown field ->
   CapacityException.  Labels: `assert isinstance(v, str) or isinstance(v, list)`, unknown field ->
   LabelException, validators. *)
Definition check_item (ty : dtype) (kv : str * dval) : option exn :=
  match ty with
  | TCap => match snd kv with
            | DInt z => if (z <? 0)%Z then Some EAssertion
                        else if is_field TCap (fst kv) then None else Some ECapacity
            | _ => Some EType
            end
  | TLab => match snd kv with
            | DInt _ => Some EAssertion
            | v => if is_field TLab (fst kv) then lab_check (fst kv) v else Some ELabel
            end
  end.

Fixpoint first_error (ty : dtype) (d : ddict) : option exn :=
  match d with
  | [] => None
  | kv :: r => match check_item ty kv with Some e => Some e | None => first_error ty r end
  end.

(* Capacities(kwargs d) / Labels(kwargs d): every field holds the value given for it, else its default
   (keys of a dict are unique, so "the" value is the first = last one) *)
Definition obj_of_dict (ty : dtype) (d : ddict) : res det :=
  match first_error ty d with
  | Some e => Err e
  | None => Ok (mkDet ty (map (fun f => match lookup f d with Some v => Some v | None => default_of ty end)
                               (fields_of ty)))
  end.

(* ---------------------------------------------------------------------------------------------- *)
(* Delegation                                                                                       *)
(* ---------------------------------------------------------------------------------------------- *)
Record deleg := mkD { d_type : dtype; d_id : str; d_fmt : dformat; d_pool : option str;
                      d_details : option det }.

(* Delegation.__init__ (atype and delegation_id are not None in this model): a single-pool delegation keeps
   no pool name; the other formats need one (assert), and a definition may not use the reserved
   SINGLE_POOL_NAME (DelegationException) *)
Definition new_deleg (ty : dtype) (id : str) (fmt : dformat) (pool : option str) : res deleg :=
  match fmt, pool with
  | FSingle, _ => Ok (mkD ty id FSingle None None)
  | _, None => Err EAssertion                      (* assert pool_id is not None *)
  | FDef, Some p => if str_eqb p single_pool_name then Err EDelegation else Ok (mkD ty id FDef (Some p) None)
  | FRef, Some p => Ok (mkD ty id FRef (Some p) None)
  end.

(* Delegation.set_details (lines 90-104) *)
Definition set_details (d : deleg) (x : det) : res deleg :=
  match d_fmt d with
  | FRef => Err EDelegation
  | _ => if dtype_eqb (det_kind x) (d_type d)
         then Ok (mkD (d_type d) (d_id d) (d_fmt d) (d_pool d) (Some x))
         else Err EDelegation
  end.

Definition details_as_dict (d : deleg) : option ddict :=
  match d_details d with None => None | Some x => det_to_dict x end.

(* ---------------------------------------------------------------------------------------------- *)
(* Delegations                                                                                      *)
(* ---------------------------------------------------------------------------------------------- *)
(* the dict `delegations` : id -> Delegation; every entry is stored under its own delegation_id
   (add_delegations is the only writer), so the list of values in insertion order is the dict *)
Record delegations := mkDs { ds_type : dtype; ds_items : list deleg }.

Definition has_id (id : str) (items : list deleg) : bool := existsb (fun d => str_eqb (d_id d) id) items.

(* add_delegations with one argument (lines 148-158) *)
Definition add_delegation (ds : delegations) (d : deleg) : res delegations :=
  if negb (dtype_eqb (d_type d) (ds_type ds)) then Err EAssertion
  else if has_id (d_id d) (ds_items ds) then Err EDelegation
  else Ok (mkDs (ds_type ds) (ds_items ds ++ [d])).

(* ---------------------------------------------------------------------------------------------- *)
(* JSON, value level                                                                                *)
(* ---------------------------------------------------------------------------------------------- *)
(* one inner dictionary: presence and value of the four keys the code looks at
   (FIELD_POOL_ID, FIELD_POOL, FIELD_CAPACITIES, FIELD_LABELS); other keys are never read *)
Record jentry := mkJ { j_pool_id : option str; j_pool : option str;
                       j_caps : option ddict; j_labs : option ddict }.
Definition jdoc := list (str * jentry).               (* delegation id -> inner dict *)

Definition with_details (ty : dtype) (pool_id : str) (dd : ddict) : jentry :=
  match ty with
  | TCap => mkJ (Some pool_id) None (Some dd) None
  | TLab => mkJ (Some pool_id) None None (Some dd)
  end.

(* body of the loop of Delegations.to_json (lines 233-253); ty = self.type *)
Definition entry_to_json (ty : dtype) (d : deleg) : res jentry :=
  match d_fmt d with
  | FSingle => match details_as_dict d with
               | None => Err EAssertion
               | Some dd => Ok (with_details ty single_pool_name dd)
               end
  | FDef => match d_pool d with
            | None => Err EAssertion
            | Some p => match details_as_dict d with
                        | None => Err EAssertion
                        | Some dd => Ok (with_details ty p dd)
                        end
            end
  | FRef => match d_pool d with
            | None => Err EAssertion
            | Some p => Ok (mkJ None (Some p) None None)
            end
  end.

Fixpoint to_json_items (ty : dtype) (items : list deleg) : res jdoc :=
  match items with
  | [] => Ok []
  | d :: r => bind (entry_to_json ty d) (fun j =>
              bind (to_json_items ty r) (fun doc => Ok ((d_id d, j) :: doc)))
  end.

Definition to_json (ds : delegations) : res jdoc := to_json_items (ds_type ds) (ds_items ds).

(* body of the loop of Delegations.from_json up to the Delegation object: a definition / single-pool entry
   must not carry the content of the other type, a reference must not carry any content
   (DelegationException in both cases) *)
Definition entry_of_json (ty : dtype) (id : str) (j : jentry) : res deleg :=
  match j_pool_id j with
  | Some pid =>
      let fmt := if str_eqb pid single_pool_name then FSingle else FDef in
      let pool := if str_eqb pid single_pool_name then None else Some pid in
      match (match ty with TCap => j_labs j | TLab => j_caps j end) with
      | Some _ => Err EDelegation                   (* carries the other type's content *)
      | None =>
          match (match ty with TCap => j_caps j | TLab => j_labs j end) with
          | None => Err EKey
          | Some dd => bind (obj_of_dict ty dd) (fun x =>
                       bind (new_deleg ty id fmt pool) (fun d => set_details d x))
          end
      end
  | None =>
      match j_pool j with
      | Some p => match j_caps j, j_labs j with
                  | None, None => new_deleg ty id FRef (Some p)
                  | _, _ => Err EDelegation         (* a reference carries capacities or labels *)
                  end
      | None => Err EDelegation
      end
  end.

Fixpoint from_json_items (ty : dtype) (doc : jdoc) (ds : delegations) : res delegations :=
  match doc with
  | [] => Ok ds
  | (k, j) :: r => bind (entry_of_json ty k j) (fun d =>
                   bind (add_delegation ds d) (fun ds' => from_json_items ty r ds'))
  end.

Definition from_json (ty : dtype) (doc : jdoc) : res delegations := from_json_items ty doc (mkDs ty []).

End WithValidators.

(* ---------------------------------------------------------------------------------------------- *)
(* well-formedness (boolean), mirroring the asserts / raises of the code                             *)
(* ---------------------------------------------------------------------------------------------- *)
Fixpoint str_mem (k : str) (l : list str) : bool :=
  match l with [] => false | x :: r => str_eqb x k || str_mem k r end.

Fixpoint str_nodup (l : list str) : bool :=
  match l with [] => true | x :: r => negb (str_mem x r) && str_nodup r end.

(* a value the constructor of the class accepts for field f: Capacities: a non-negative int
   (None-valued capacity fields are outside the domain, as in C15); Labels: unset, or a str / list the
   validators accept *)
Definition val_ok (lab_check : str -> dval -> option exn) (ty : dtype) (f : str) (v : option dval) : bool :=
  match ty, v with
  | TCap, Some (DInt z) => (0 <=? z)%Z
  | TCap, _ => false
  | TLab, None => true
  | TLab, Some (DInt _) => false
  | TLab, Some x => match lab_check f x with None => true | Some _ => false end
  end.

Fixpoint vals_ok (lab_check : str -> dval -> option exn) (ty : dtype) (fs : list str) (vs : list (option dval)) : bool :=
  match fs, vs with
  | [], [] => true
  | f :: fs', v :: vs' => val_ok lab_check ty f v && vals_ok lab_check ty fs' vs'
  | _, _ => false                                   (* one value per field *)
  end.

(* an object of the class as its constructor builds it *)
Definition det_ok (lab_check : str -> dval -> option exn) (x : det) : bool :=
  vals_ok lab_check (det_kind x) (fields_of (det_kind x)) (det_vals x).

(* ... that has at least one field to show (to_json: `assert v.get_details_as_dict() is not None`) *)
Definition det_nonempty (x : det) : bool :=
  match det_to_dict x with None => false | Some _ => true end.

Definition str_neqb (a b : str) : bool := negb (str_eqb a b).

(* a delegation that to_json accepts and whose meaning is expressible in the JSON:
   Single: no pool name (the format has none), details present, of the delegation's type, non-empty;
   Def:    a pool name other than the reserved SINGLE_POOL_NAME, details as above;
   Ref:    a pool name, no details (set_details refuses them). *)
Definition deleg_ok (lab_check : str -> dval -> option exn) (ty : dtype) (d : deleg) : bool :=
  dtype_eqb (d_type d) ty &&
  match d_fmt d, d_pool d, d_details d with
  | FSingle, None, Some x => dtype_eqb (det_kind x) ty && det_ok lab_check x && det_nonempty x
  | FDef, Some p, Some x => str_neqb p single_pool_name && dtype_eqb (det_kind x) ty && det_ok lab_check x && det_nonempty x
  | FRef, Some p, None => true
  | _, _, _ => false
  end.

Definition ds_wf (lab_check : str -> dval -> option exn) (ds : delegations) : bool :=
  forallb (deleg_ok lab_check (ds_type ds)) (ds_items ds) && str_nodup (map d_id (ds_items ds)).

(* an inner dictionary of one of the three shapes the format knows: definition / single-pool entry with this
   type's content only, or a bare reference *)
Definition entry_clean (ty : dtype) (j : jentry) : bool :=
  match j_pool_id j with
  | Some _ => match ty with
              | TCap => match j_caps j, j_labs j with Some _, None => true | _, _ => false end
              | TLab => match j_labs j, j_caps j with Some _, None => true | _, _ => false end
              end
  | None => match j_pool j, j_caps j, j_labs j with Some _, None, None => true | _, _, _ => false end
  end.

(* the pool name the constructor leaves on a delegation of each format *)
Definition ctor_shape (d : deleg) : bool :=
  match d_fmt d, d_pool d with
  | FSingle, None => true
  | FDef, Some p => str_neqb p single_pool_name
  | FRef, Some _ => true
  | _, _ => false
  end.

(* the wire names must be pairwise different for the four-field reading of an inner dict to be the
   reading the code performs (`FIELD_POOL_ID in v.keys()` ... `elif FIELD_POOL in v.keys()`) *)
Definition wire_names_distinct : bool :=
  str_nodup [field_pool_id; field_pool; field_capacities; field_labels].

(* ---------------------------------------------------------------------------------------------- *)
(* observation encoders (model value -> Corr.val) used by the correspondence                        *)
(* ---------------------------------------------------------------------------------------------- *)
Definition exn_name (e : exn) : str :=
  match e with
  | EDelegation => S"DelegationException" | EPool => S"PoolException" | EAssertion => S"AssertionError"
  | EKey => S"KeyError" | EType => S"TypeError" | ELabel => S"LabelException"
  | ECapacity => S"CapacityException" | EQuery => S"PropertyGraphQueryException"
  | EUnmodelled => S"<unmodelled>" | EOther c => c
  end.

Definition v_res {A} (f : A -> val) (r : res A) : val :=
  match r with Ok a => VL [f a] | Err e => VErr (exn_name e) end.
Definition v_unit (r : res unit) : val := v_res (fun _ => VNone) r.
Definition v_dtype (t : dtype) : val := VZ (match t with TCap => 1 | TLab => 2 end).
Definition v_fmt (f : dformat) : val := VZ (match f with FDef => 1 | FRef => 2 | FSingle => 3 end).
Definition v_dval (v : dval) : val :=
  match v with DInt z => VZ z | DStr s => VS s | DList l => VL (map VS l) end.
Definition v_ddict (d : ddict) : val := VL (map (fun kv => VL [VS (fst kv); v_dval (snd kv)]) d).
Definition v_det (x : det) : val := VL [v_dtype (det_kind x); VL (map (VOpt v_dval) (det_vals x))].
Definition v_deleg (d : deleg) : val :=
  VL [v_dtype (d_type d); VS (d_id d); v_fmt (d_fmt d); VOpt VS (d_pool d); VOpt v_det (d_details d)].
Definition v_delegations (ds : delegations) : val := VL [v_dtype (ds_type ds); VL (map v_deleg (ds_items ds))].
Definition v_jentry (j : jentry) : val :=
  VL [VOpt VS (j_pool_id j); VOpt VS (j_pool j); VOpt v_ddict (j_caps j); VOpt v_ddict (j_labs j)].
Definition v_jdoc (doc : jdoc) : val := VL (map (fun kj => VL [VS (fst kj); v_jentry (snd kj)]) doc).

(* the validator verdicts recorded from the implementation: (field, value, class name) triples; a pair
   not listed was accepted *)
Definition dval_eqb (a b : dval) : bool :=
  match a, b with
  | DInt x, DInt y => Z.eqb x y
  | DStr x, DStr y => str_eqb x y
  | DList x, DList y => list_eqb str_eqb x y
  | _, _ => false
  end.
Definition verdicts := list (str * dval * str).
Fixpoint check_of (t : verdicts) (f : str) (v : dval) : option exn :=
  match t with
  | [] => None
  | (f', v', c) :: r => if str_eqb f' f && dval_eqb v' v
                        then Some (if str_eqb c (S"LabelException") then ELabel else EOther c)
                        else check_of r f v
  end.

(* ---- stream "ops": build a Delegations object through the API, then encode / decode ---- *)
(* one delegation to build: Delegation(atype, id, fmt, pool); optionally Kind(kwargs dd) and set_details;
   then add_delegations.  A failing step is recorded and the remaining steps of this spec still run
   exactly as the harness runs them. *)
Record spec := mkSpec { s_type : dtype; s_id : str; s_fmt : dformat; s_pool : option str;
                        s_details : option (dtype * ddict) }.

Definition v_step {A} (r : res A) : val := match r with Ok _ => VB true | Err e => VErr (exn_name e) end.

Definition run_spec (lc : str -> dval -> option exn) (ds : delegations) (s : spec) : delegations * val :=
  match new_deleg (s_type s) (s_id s) (s_fmt s) (s_pool s) with
  | Err e => (ds, VL [VErr (exn_name e)])
  | Ok d0 =>
      let '(d1, steps) :=
        match s_details s with
        | None => (d0, [])
        | Some (k, dd) =>
            match obj_of_dict lc k dd with
            | Err e => (d0, [VErr (exn_name e)])
            | Ok x => match set_details d0 x with
                      | Ok d1 => (d1, [VB true; VB true])
                      | Err e => (d0, [VB true; VErr (exn_name e)])
                      end
            end
        end in
      match add_delegation ds d1 with
      | Ok ds' => (ds', VL (VB true :: steps ++ [VB true]))
      | Err e => (ds, VL (VB true :: steps ++ [VErr (exn_name e)]))
      end
  end.

Fixpoint run_specs (lc : str -> dval -> option exn) (ds : delegations) (l : list spec) : delegations * list val :=
  match l with
  | [] => (ds, [])
  | s :: r => let '(ds1, o) := run_spec lc ds s in
              let '(ds2, os) := run_specs lc ds1 r in (ds2, o :: os)
  end.

(* Delegation(...), optionally Kind(kwargs dd) and set_details: the delegation (None when the constructor
   refused) and the outcome of every step that ran *)
Definition build_spec (lc : str -> dval -> option exn) (s : spec) : option deleg * val :=
  match new_deleg (s_type s) (s_id s) (s_fmt s) (s_pool s) with
  | Err e => (None, VL [VErr (exn_name e)])
  | Ok d0 =>
      match s_details s with
      | None => (Some d0, VL [VB true])
      | Some (k, dd) =>
          match obj_of_dict lc k dd with
          | Err e => (Some d0, VL [VB true; VErr (exn_name e)])
          | Ok x => match set_details d0 x with
                    | Ok d1 => (Some d1, VL [VB true; VB true; VB true])
                    | Err e => (Some d0, VL [VB true; VB true; VErr (exn_name e)])
                    end
          end
      end
  end.

(* add_delegations with several arguments (lines 148-158): they are added one after the other; the first
   refusal raises and what was added before it stays in the container *)
Fixpoint add_delegations (ds : delegations) (l : list deleg) : delegations * option exn :=
  match l with
  | [] => (ds, None)
  | d :: r => match add_delegation ds d with
              | Ok ds' => add_delegations ds' r
              | Err e => (ds, Some e)
              end
  end.

(* batches of specs: every batch is built, then handed to ONE add_delegations call *)
Fixpoint run_batches (lc : str -> dval -> option exn) (ds : delegations) (bs : list (list spec)) : delegations * list val :=
  match bs with
  | [] => (ds, [])
  | b :: r =>
      let built := map (build_spec lc) b in
      let args := flat_map (fun x => match fst x with Some d => [d] | None => [] end) built in
      let '(ds1, oe) := add_delegations ds args in
      let o := VL [ VL (map snd built);
                    match oe with None => VB true | Some e => VErr (exn_name e) end;
                    VL (map (fun d => VS (d_id d)) (ds_items ds1)) ] in
      let '(ds2, os) := run_batches lc ds1 r in (ds2, o :: os)
  end.

Definition observe_ops (t : verdicts) (ty : dtype) (bs : list (list spec)) : val :=
  let lc := check_of t in
  let '(ds, outs) := run_batches lc (mkDs ty []) bs in
  let enc := to_json ds in
  VL [ VL outs; v_delegations ds; v_res v_jdoc enc;
       match enc with Ok doc => v_res v_delegations (from_json lc ty doc) | Err _ => VNone end ].

Definition check_ops (c : (verdicts * dtype * list (list spec)) * val) : bool :=
  let '((t, ty, l), o) := c in val_eqb (observe_ops t ty l) o.

(* ---- stream "json": decode a hand-made document, re-encode what was decoded ---- *)
Definition observe_json (t : verdicts) (ty : dtype) (doc : jdoc) : val :=
  let lc := check_of t in
  let dec := from_json lc ty doc in
  VL [ v_res v_delegations dec;
       match dec with Ok ds => v_res v_jdoc (to_json ds) | Err _ => VNone end ].

Definition check_json (c : (verdicts * dtype * jdoc) * val) : bool :=
  let '((t, ty, doc), o) := c in val_eqb (observe_json t ty doc) o.

(* C08 model, part 2: transcriptions of the removal code.
   Graph level (fim/graph/abc_property_graph.py:1086-1202): remove_cp_and_links, remove_ns_with_cps_and_links,
   remove_component_with_nss_cps_and_links, remove_network_node_with_components_nss_cps_and_links,
   remove_network_link.
   API level: Topology.remove_node / remove_facility / remove_switch / remove_link / remove_network_service
   (fim/user/topology.py:214-391), Node.remove_component / remove_network_service (node.py:342-374),
   NetworkService.disconnect_interface / remove_interface / unpeer (network_service.py:352-441),
   Interface.remove_child_interface (interface.py:144), ExperimentTopology.prune (topology.py:972-1060),
   with the handle caches (_interfaces) updated exactly where the code updates them.
   Definitions only. *)
From Coq Require Import List NArith Bool.
From FIM Require Import Model.T8Graph.
Import ListNotations.

(* ------------------------------------------------------------------------------------------ *)
(* graph level                                                                                 *)
(* ------------------------------------------------------------------------------------------ *)

(* the ids remove_cp_and_links deletes, all computed on the graph as it is when the call starts *)
Definition cp_family (g : graph) (n : N) (dp : bool) : list N :=
  let parents := first_neighbor g n RConnects CCP in
  dedup (n :: filter (fun p => Nat.eqb (length (first_neighbor g p RConnects CCP)) 1 && dp) parents).
Definition cp_links (g : graph) (fam : list N) : list N :=
  dedup (flat_map (fun i => filter (fun l => Nat.eqb (length (first_neighbor g l RConnects CCP)) 2)
                                   (first_neighbor g i RConnects CLink)) fam).
Definition cp_del_list (g : graph) (n : N) (dp : bool) : list N :=
  let fam := cp_family g n dp in dedup (fam ++ cp_links g fam).

Definition remove_cp_and_links (n : N) (dp : bool) : M unit :=
  m_nonempty ;;;
  _ <- need_node n ;;
  l <- m_get (fun g => cp_del_list g n dp) ;;
  for_each_set m_delete l.

Definition need_class (n : N) (c : cls) : M unit :=
  x <- need_node n ;; guard (cls_eqb (ncls x) c) EQuery.

Definition remove_ns (n : N) : M unit :=
  need_class n CNS ;;;
  ifs <- m_get (fun g => first_neighbor g n RConnects CCP) ;;
  m_delete n ;;;
  for_each_set (fun i => remove_cp_and_links i true) ifs.

Definition remove_component (n : N) : M unit :=
  need_class n CComp ;;;
  nss <- m_get (fun g => first_neighbor g n RHas CNS) ;;
  m_delete n ;;;
  for_each_set remove_ns nss.

Definition remove_node_graph (n : N) : M unit :=
  need_class n CNode ;;;
  comps <- m_get (fun g => first_neighbor g n RHas CComp) ;;
  for_each_set remove_component comps ;;;
  nss <- m_get (fun g => first_neighbor g n RHas CNS) ;;
  m_delete n ;;;
  for_each_set remove_ns nss.

Definition remove_link_graph (n : N) : M unit :=
  need_class n CLink ;;; m_delete n.

(* ------------------------------------------------------------------------------------------ *)
(* API level helpers                                                                           *)
(* ------------------------------------------------------------------------------------------ *)

(* find_peer_connection_points: over every Link the interface connects to, the other
   ConnectionPoints of that link; None when there is none *)
Definition peer_cps (g : graph) (i : N) : list N :=
  flat_map (fun l => removeN i (nbrs_cls g l CCP)) (first_neighbor g i RConnects CLink).
Definition get_peers (g : graph) (i : N) : option (list N) :=
  match peer_cps g i with [] => None | l => Some l end.
Definition get_peers_typed (g : graph) (i : N) (t : N) : option (list N) :=
  match get_peers g i with
  | None => None
  | Some l => Some (filter (fun p => N.eqb (type_of g p) t) l)
  end.

(* get_all_node_or_component_connection_points(parent) *)
Definition owner_cps (g : graph) (p : N) : list N :=
  flat_map (fun s => removeN p (nbrs_cls g s CCP)) (first_neighbor g p RHas CNS).
(* Component.interface_list *)
Definition comp_interface_list (g : graph) (c : N) : list N := owner_cps g c.
(* Node.interface_list: direct interfaces, then those of every component *)
Definition node_interface_list (g : graph) (n : N) : list N :=
  owner_cps g n ++ flat_map (comp_interface_list g) (first_neighbor g n RHas CComp).

(* NetworkService.disconnect_interface(i): only a ServicePort peer is removed (fix 13b815d);
   returns the removed service port, if any *)
Definition disconnect_interface (i : N) : M (option N) :=
  _ <- need_node i ;;
  p <- m_get (fun g => get_peers_typed g i T_ServicePort) ;;
  match p with
  | None | Some [] => ret None
  | Some [x] => remove_cp_and_links x true ;;; ret (Some x)
  | Some _ => fail ETopology
  end.

(* the loop "for i in <element>.interface_list: disconnect if connected to a network service" *)
Definition disconnect_peers_of (i : N) : M unit :=
  _ <- need_node i ;;
  p <- m_get (fun g => get_peers_typed g i T_ServicePort) ;;
  match p with
  | None | Some [] => ret tt
  | Some [x] =>
      par <- m_get (fun g => first_neighbor g x RConnects CNS) ;;   (* get_parent_element(peer) *)
      match par with
      | [_] => disconnect_interface i ;;; ret tt
      | _ => fail ETopology
      end
  | Some _ => fail ETopology
  end.

(* Topology._disconnect_from_services(interfaces): each interface and, through the Interface handle built
   before the loop, the sub-interfaces of a DedicatedPort (fix edd75a8) *)
Definition with_children (g : graph) (i : N) : list N :=
  i :: (if N.eqb (type_of g i) T_DedicatedPort then first_neighbor g i RConnects CCP else []).
Definition disc_list (g : graph) (ifs : list N) : list N := flat_map (with_children g) ifs.

(* one iteration of Topology._disconnect_from_services (fix 5286851): an interface that is no longer in the graph as a
   ConnectionPoint (node_exists) - a service port of the element's own services, removed when its peer was
   disconnected - is skipped *)
Definition disconnect_step (ii : N) : M unit :=
  there <- m_get (fun g => has_node g ii && cls_eqb (class_of g ii) CCP) ;;
  if there then disconnect_peers_of ii else ret tt.

Definition uniq (l : list N) (none many : exn) : M N :=
  match l with
  | [x] => ret x
  | [] => fail none
  | _ => fail many
  end.
(* lookup of a child by name among a neighbour list: the first match in iteration order; two
   matches would make the result depend on that order *)
Definition child_by_name (g : graph) (cands : list N) (name : N) : list N :=
  filter (fun c => N.eqb (name_of g c) name) cands.

(* ------------------------------------------------------------------------------------------ *)
(* API level operations.  Caches are lists of interface ids (handle._interfaces).              *)
(* ------------------------------------------------------------------------------------------ *)

Definition topo_nodes (g : graph) (name : N) : list N :=   (* Topology.nodes: Facility nodes excluded *)
  filter (fun n => negb (N.eqb (type_of g n) T_Facility)) (by_name g CNode name).

Definition api_remove_node (name : N) : M unit :=
  cands <- m_get (fun g => topo_nodes g name) ;;
  n <- uniq cands ETopology EAmbig ;;
  ifs <- m_get (fun g => disc_list g (node_interface_list g n)) ;;
  for_each_set disconnect_step ifs ;;;
  all <- m_get (fun g => by_name g CNode name) ;;
  n' <- uniq all EQuery EQuery ;;
  remove_node_graph n'.

Definition api_remove_facility (name : N) : M unit :=
  all <- m_get (fun g => by_name g CNode name) ;;
  n <- uniq all EQuery EQuery ;;
  t <- m_get (fun g => type_of g n) ;;
  guard (N.eqb t T_Facility) ETopology ;;;
  ifs <- m_get (fun g => disc_list g (node_interface_list g n)) ;;
  for_each_set disconnect_step ifs ;;;
  all' <- m_get (fun g => by_name g CNode name) ;;
  n' <- uniq all' EQuery EQuery ;;
  remove_node_graph n'.

Definition api_remove_switch (name : N) : M unit :=
  all <- m_get (fun g => by_name g CNode name) ;;
  n <- uniq all EQuery EQuery ;;
  t <- m_get (fun g => type_of g n) ;;
  guard (N.eqb t T_Switch) ETopology ;;;
  api_remove_node name.

(* Topology.remove_link (fix 65db950): a link one of whose ends is a ServicePort was made by connect_interface / peer
   together with that port and is refused *)
Definition link_has_service_port (g : graph) (l : N) : bool :=
  existsb (fun i => N.eqb (type_of g i) T_ServicePort) (first_neighbor g l RConnects CCP).
Definition api_remove_link (name : N) : M unit :=
  all <- m_get (fun g => by_name g CLink name) ;;
  n <- uniq all EQuery EQuery ;;
  sp <- m_get (fun g => link_has_service_port g n) ;;
  guard (negb sp) ETopology ;;;
  remove_link_graph n.

(* Topology.remove_network_service (fix 18b6247): the service's own ports (and the sub-interfaces of dedicated
   ports) are first disconnected from the services they are connected to / peered with *)
Definition remove_ns_disconnecting (s : N) : M unit :=
  ifs <- m_get (fun g => disc_list g (first_neighbor g s RConnects CCP)) ;;
  for_each_set disconnect_step ifs ;;;
  remove_ns s.

Definition api_remove_ns_topo (name : N) : M unit :=
  all <- m_get (fun g => by_name g CNS name) ;;
  n <- uniq all EQuery EQuery ;;
  remove_ns_disconnecting n.

(* Node.remove_component(name) on the node handle n *)
Definition api_remove_component (n : N) (cname : N) : M unit :=
  need_class n CNode ;;;
  cs <- m_get (fun g => child_by_name g (first_neighbor g n RHas CComp) cname) ;;
  c <- uniq cs EQuery EAmbig ;;
  ifs <- m_get (fun g => disc_list g (comp_interface_list g c)) ;;
  for_each_set disconnect_step ifs ;;;
  remove_component c.

(* Node.remove_network_service(name) *)
Definition api_node_remove_ns (n : N) (sname : N) : M unit :=
  x <- need_node n ;;
  guard (cls_eqb (ncls x) CNode || cls_eqb (ncls x) CComp) EQuery ;;;
  ss <- m_get (fun g => child_by_name g (first_neighbor g n RHas CNS) sname) ;;
  s <- uniq ss EQuery EAmbig ;;
  remove_ns_disconnecting s.

(* NetworkService.disconnect_interface(i) through a handle with cache c *)
Definition api_disconnect (i : N) (c : list N) : M (list N) :=
  r <- disconnect_interface i ;;
  match r with
  | None => ret c
  | Some x => ret (removeN x c)
  end.

(* NetworkService.remove_interface(name=) : substrate topologies only; the cache drops the interface (fix 4c6e5fb) *)
Definition api_remove_interface (experiment : bool) (s : N) (iname : N) (c : list N) : M (list N) :=
  guard (negb experiment) ETopology ;;;
  x <- need_node s ;;
  guard (cls_eqb (ncls x) CNS || cls_eqb (ncls x) CLink) EQuery ;;;
  is_ <- m_get (fun g => child_by_name g (first_neighbor g s RConnects CCP) iname) ;;
  i <- uniq is_ EQuery EAmbig ;;
  remove_cp_and_links i true ;;;
  ret (removeN i c).

(* Interface.remove_child_interface(name=) through a port handle p with cache c: the child is first disconnected
   from the service it is connected to (fix edd75a8), the cache drops it (fix 4c6e5fb) *)
Definition api_remove_child (p : N) (iname : N) (c : list N) : M (list N) :=
  x <- need_node p ;;
  guard (N.eqb (ntyp x) T_DedicatedPort) EAssert ;;;
  guard (cls_eqb (ncls x) CCP) EQuery ;;;
  is_ <- m_get (fun g => child_by_name g (first_neighbor g p RConnects CCP) iname) ;;
  i <- uniq is_ EQuery EAmbig ;;
  disconnect_peers_of i ;;;
  remove_cp_and_links i false ;;;
  ret (removeN i c).

(* ---- unpeer (fix 13b815d): nx.shortest_path over the `connects` edges only; the services peer iff that
   path has exactly 5 nodes (service - port - link - port - service); then sp[1] and sp[-2] are removed.
   "The shortest path has 5 nodes" = the ends differ, there is no chain of 1, 2 or 3 connects edges, and
   there is one of 4; every 4-chain is then a shortest path, so the candidates for (sp[1], sp[-2]) are the
   (first, last) inner nodes of the 4-chains. ---- *)
Definition cn (g : graph) (n : N) : list N :=
  dedup (map fst (filter (fun p => rel_eqb (snd p) RConnects) (nbrs g n))).
Definition reach1 (g : graph) (a b : N) : bool := memN b (cn g a).
Definition reach2 (g : graph) (a b : N) : bool := existsb (fun x => reach1 g x b) (cn g a).
Definition reach3 (g : graph) (a b : N) : bool := existsb (fun x => reach2 g x b) (cn g a).
Definition chains4 (g : graph) (a b : N) : list (N * N) :=
  flat_map (fun x => flat_map (fun m => flat_map (fun y => if reach1 g y b then [(x, y)] else []) (cn g m)) (cn g x))
           (cn g a).
Definition pair_eqb (p q : N * N) : bool := N.eqb (fst p) (fst q) && N.eqb (snd p) (snd q).
Fixpoint dedup_pairs (l : list (N * N)) : list (N * N) :=
  match l with
  | [] => []
  | x :: r => if existsb (pair_eqb x) r then dedup_pairs r else x :: dedup_pairs r
  end.
(* None = "do not peer" (TopologyException) *)
Definition unpeer_ends (g : graph) (a b : N) : option (list (N * N)) :=
  if N.eqb a b || reach1 g a b || reach2 g a b || reach3 g a b then None
  else match dedup_pairs (chains4 g a b) with [] => None | l => Some l end.

Definition api_unpeer_with (xy : N * N) (ca cb : list N) : M (list N * list N) :=
  remove_cp_and_links (fst xy) true ;;;
  remove_cp_and_links (snd xy) true ;;;
  ret (removeN (fst xy) ca, removeN (snd xy) cb).

(* fix 0d94156: both ends of the path networkx picked must be ServicePorts, else "do not peer" *)
Definition both_sp (g : graph) (xy : N * N) : bool :=
  N.eqb (type_of g (fst xy)) T_ServicePort && N.eqb (type_of g (snd xy)) T_ServicePort.
Definition api_unpeer_checked (xy : N * N) (ca cb : list N) : M (list N * list N) :=
  ok <- m_get (fun g => both_sp g xy) ;;
  guard ok ETopology ;;;
  api_unpeer_with xy ca cb.

Definition api_unpeer (a b : N) (ca cb : list N) : M (list N * list N) :=
  _ <- need_node a ;; _ <- need_node b ;;
  e <- m_get (fun g => unpeer_ends g a b) ;;
  match e with
  | None | Some [] => fail ETopology               (* "do not peer" *)
  | Some [xy] => api_unpeer_checked xy ca cb
  | Some l =>                                      (* several 5-node paths: networkx picks one *)
      some <- m_get (fun g => existsb (both_sp g) l) ;;
      if some then fail EAmbig else fail ETopology
  end.

(* ---- unpeer as rewritten by proposed_fixes/C08-6 (no path search): the peerings are the pairs (x, y) where x is a
   ServicePort of a, y a ServicePort across one of x's links, and b is the one service y is connected to; ALL such
   pairs are removed (each end once, skipping what is already gone); none: "do not peer".  The harness selects this
   operation instead of OUnpeer when the running library's unpeer no longer calls get_nodes_on_shortest_path. ---- *)
Definition unpeer_pairs (g : graph) (a b : N) : list (N * N) :=
  flat_map (fun x =>
    if N.eqb (type_of g x) T_ServicePort
    then flat_map (fun y => if N.eqb (type_of g y) T_ServicePort &&
                               list_eqb8 N.eqb (first_neighbor g y RConnects CNS) [b]
                            then [(x, y)] else []) (peer_cps g x)
    else []) (first_neighbor g a RConnects CCP).
Definition remove_if_there (c : N) : M unit :=
  there <- m_get (fun g => has_node g c && cls_eqb (class_of g c) CCP) ;;
  if there then remove_cp_and_links c true else ret tt.
Definition unpeer6_ends (ps : list (N * N)) : list N := dedup (map fst ps ++ map snd ps).
Definition api_unpeer6 (a b : N) (ca cb : list N) : M (list N * list N) :=
  x <- need_node a ;;
  guard (cls_eqb (ncls x) CNS || cls_eqb (ncls x) CLink) EQuery ;;;
  ps <- m_get (fun g => unpeer_pairs g a b) ;;
  match ps with
  | [] => fail ETopology
  | _ => for_each_set remove_if_there (unpeer6_ends ps) ;;;
         ret (filter (fun i => negb (memN i (map fst ps))) ca, filter (fun i => negb (memN i (map snd ps))) cb)
  end.

(* ---- prune(reservation_state): nmark says "this element's reservation state matches" ---- *)
Definition ns_interfaces (g : graph) (s : N) : list N := first_neighbor g s RConnects CCP.
Definition marked (g : graph) (n : N) : bool :=
  match find_node g n with Some x => nmark x | None => false end.

Definition prune_nodes (g : graph) : list N :=       (* self.nodes.values(): no Facility *)
  filter (fun n => negb (N.eqb (type_of g n) T_Facility)) (all_of_class g CNode).
Definition prune_comps (g : graph) : list (N * N) :=
  flat_map (fun n => map (fun c => (c, n)) (first_neighbor g n RHas CComp)) (prune_nodes g).
Definition prune_seen_nss (g : graph) : list N :=
  flat_map (fun cn => first_neighbor g (fst cn) RHas CNS) (prune_comps g).
Definition prune_other_nss (g : graph) : list N :=
  filter (fun s => negb (memN s (prune_seen_nss g))) (all_of_class g CNS).
Definition prune_all_nss (g : graph) : list N := prune_seen_nss g ++ prune_other_nss g.

(* the handles collected by the first phase carry their names (ModelElement.name) and ids *)
Definition api_prune : M unit :=
  ns_ <- m_get (fun g => map (name_of g) (filter (marked g) (prune_nodes g))) ;;
  cs <- m_get (fun g => map (fun cn => (name_of g (fst cn), snd cn))
                           (filter (fun cn => marked g (fst cn)) (prune_comps g))) ;;
  ss <- m_get (fun g => dedup (filter (marked g) (prune_all_nss g))) ;;
  is_ <- m_get (fun g => dedup (filter (marked g) (flat_map (ns_interfaces g) (prune_all_nss g)))) ;;
  for_each_set api_remove_node ns_ ;;;
  for_each_set (fun cn => api_remove_component (snd cn) (fst cn)) cs ;;;
  for_each_set remove_ns ss ;;;
  for_each_set (fun i => remove_cp_and_links i true) is_.

(* ---- prune as repaired by proposed_fixes/C08-7: every removal step first checks (node_exists) that its element is
   still there - skipping what an earlier step already removed - and services / interfaces are disconnected before the
   graph-level removal, like the other removals.  Selected by the harness when the running library's _prune_ns
   contains the node_exists guard. ---- *)
Definition exists_as (c : cls) (n : N) : M bool := m_get (fun g => has_node g n && cls_eqb (class_of g n) c).
Definition prune_node7 (nn : N * N) : M unit :=                  (* (name, id) of the Node handle *)
  b <- exists_as CNode (snd nn) ;; if b then api_remove_node (fst nn) else ret tt.
Definition prune_comp7 (cn : N * (N * N)) : M unit :=            (* (component name, (component id, parent id)) *)
  b <- exists_as CComp (fst (snd cn)) ;; if b then api_remove_component (snd (snd cn)) (fst cn) else ret tt.
Definition prune_ns7 (s : N) : M unit :=
  b <- exists_as CNS s ;; if b then remove_ns_disconnecting s else ret tt.
Definition prune_if7 (i : N) : M unit :=
  b <- exists_as CCP i ;;
  if b then (ifs <- m_get (fun g => disc_list g [i]) ;;
             for_each_set disconnect_step ifs ;;;
             remove_cp_and_links i true)
  else ret tt.

Definition api_prune7 : M unit :=
  ns_ <- m_get (fun g => map (fun n => (name_of g n, n)) (filter (marked g) (prune_nodes g))) ;;
  cs <- m_get (fun g => map (fun cn => (name_of g (fst cn), cn))
                           (filter (fun cn => marked g (fst cn)) (prune_comps g))) ;;
  ss <- m_get (fun g => dedup (filter (marked g) (prune_all_nss g))) ;;
  is_ <- m_get (fun g => dedup (filter (marked g) (flat_map (ns_interfaces g) (prune_all_nss g)))) ;;
  for_each_set prune_node7 ns_ ;;;
  for_each_set prune_comp7 cs ;;;
  for_each_set prune_ns7 ss ;;;
  for_each_set prune_if7 is_.

(* ---- prune as extended by proposed_fixes/C08-8: the collection phase also visits the sub-interfaces of the service
   ports (Interface.interface_list: the children of a DedicatedPort), and a SubInterface is removed WITHOUT the port
   above it (delete_parent=False), after being disconnected.  Selected when the running library's _prune_interface
   mentions delete_parent. ---- *)
Definition prune_if8 (i : N) : M unit :=
  b <- exists_as CCP i ;;
  if b then (ifs <- m_get (fun g => disc_list g [i]) ;;
             for_each_set disconnect_step ifs ;;;
             dp <- m_get (fun g => negb (N.eqb (type_of g i) T_SubInterface)) ;;
             remove_cp_and_links i dp)
  else ret tt.

Definition api_prune8 : M unit :=
  ns_ <- m_get (fun g => map (fun n => (name_of g n, n)) (filter (marked g) (prune_nodes g))) ;;
  cs <- m_get (fun g => map (fun cn => (name_of g (fst cn), cn))
                           (filter (fun cn => marked g (fst cn)) (prune_comps g))) ;;
  ss <- m_get (fun g => dedup (filter (marked g) (prune_all_nss g))) ;;
  is_ <- m_get (fun g => dedup (filter (marked g)
                           (flat_map (with_children g) (flat_map (ns_interfaces g) (prune_all_nss g))))) ;;
  for_each_set prune_node7 ns_ ;;;
  for_each_set prune_comp7 cs ;;;
  for_each_set prune_ns7 ss ;;;
  for_each_set prune_if8 is_.

(* ---- prune as extended by proposed_fixes/C08-9: the collection phase also visits the Facility nodes (which
   Topology.nodes leaves out; their services and interfaces were already visited through topology.network_services),
   and a Facility node is removed with remove_facility.  Selected when the running library's prune mentions
   facilities and _prune_node mentions remove_facility. ---- *)
Definition prune_node9 (nn : N * N) : M unit :=                  (* (name, id) of the Node handle *)
  b <- exists_as CNode (snd nn) ;;
  if b then (t <- m_get (fun g => type_of g (snd nn)) ;;
             if N.eqb t T_Facility then api_remove_facility (fst nn) else api_remove_node (fst nn))
  else ret tt.

Definition api_prune9 : M unit :=
  ns_ <- m_get (fun g => map (fun n => (name_of g n, n)) (filter (marked g) (all_of_class g CNode))) ;;
  cs <- m_get (fun g => map (fun cn => (name_of g (fst cn), cn))
                           (filter (fun cn => marked g (fst cn)) (prune_comps g))) ;;
  ss <- m_get (fun g => dedup (filter (marked g) (prune_all_nss g))) ;;
  is_ <- m_get (fun g => dedup (filter (marked g)
                           (flat_map (with_children g) (flat_map (ns_interfaces g) (prune_all_nss g))))) ;;
  for_each_set prune_node9 ns_ ;;;
  for_each_set prune_comp7 cs ;;;
  for_each_set prune_ns7 ss ;;;
  for_each_set prune_if8 is_.

(* ------------------------------------------------------------------------------------------ *)
(* one operation of the interface, and its execution from a snapshot                           *)
(* ------------------------------------------------------------------------------------------ *)
Inductive op :=
| ORemoveNode (name : N)
| ORemoveFacility (name : N)
| ORemoveSwitch (name : N)
| ORemoveLink (name : N)
| ORemoveNsTopo (name : N)
| ORemoveComponent (n : N) (cname : N)
| ONodeRemoveNs (n : N) (sname : N)
| ODisconnect (s : N) (i : N)
| OUnpeer (a b : N)
| OUnpeer6 (a b : N)
| ORemoveInterface (s : N) (iname : N)
| ORemoveChild (p : N) (iname : N)
| OPrune
| OPrune7
| OPrune8
| OPrune9.

(* caches: the _interfaces lists of the handles the operation goes through (0, 1 or 2 of them) *)
Definition exec (experiment : bool) (o : op) (caches : list (list N)) : M (list (list N)) :=
  let c1 := nth 0 caches [] in
  let c2 := nth 1 caches [] in
  match o with
  | ORemoveNode nm => api_remove_node nm ;;; ret caches
  | ORemoveFacility nm => api_remove_facility nm ;;; ret caches
  | ORemoveSwitch nm => api_remove_switch nm ;;; ret caches
  | ORemoveLink nm => api_remove_link nm ;;; ret caches
  | ORemoveNsTopo nm => api_remove_ns_topo nm ;;; ret caches
  | ORemoveComponent n c => api_remove_component n c ;;; ret caches
  | ONodeRemoveNs n s => api_node_remove_ns n s ;;; ret caches
  | ODisconnect s i => c <- api_disconnect i c1 ;; ret [c]
  | OUnpeer a b => cc <- api_unpeer a b c1 c2 ;; ret [fst cc; snd cc]
  | OUnpeer6 a b => cc <- api_unpeer6 a b c1 c2 ;; ret [fst cc; snd cc]
  | ORemoveInterface s i => c <- api_remove_interface experiment s i c1 ;; ret [c]
  | ORemoveChild p i => c <- api_remove_child p i c1 ;; ret [c]
  | OPrune => api_prune ;;; ret caches
  | OPrune7 => api_prune7 ;;; ret caches
  | OPrune8 => api_prune8 ;;; ret caches
  | OPrune9 => api_prune9 ;;; ret caches
  end.

(* ---- correspondence: the recorded implementation observation vs the model's prediction ---- *)
Record obs := mkObs {
  o_experiment : bool;
  o_pre : graph;
  o_op : op;
  o_caches : list (list N);       (* handle caches before the call *)
  o_outcome : N;                  (* 0 = returned; 1 TopologyException; 2 PropertyGraphQueryException;
                                     3 AssertionError; 4 IndexError; 9 anything else *)
  o_post : graph;
  o_caches_after : list (list N)  (* handle.interface_list after the call (ids, sorted) *)
}.

Definition exn_code (e : exn) : N :=
  match e with ETopology => 1 | EQuery => 2 | EAssert => 3 | EIndex => 4 | EAmbig => 99 | EType => 9 end%N.

Fixpoint insertN (x : N) (l : list N) : list N :=
  match l with
  | [] => [x]
  | y :: r => if N.leb x y then x :: l else y :: insertN x r
  end.
Definition sortN (l : list N) : list N := fold_right insertN [] l.
Definition caches_eqb (a b : list (list N)) : bool :=
  list_eqb8 (fun x y => list_eqb8 N.eqb (sortN x) (sortN y)) a b.

Definition agrees (o : obs) (r : (list (list N) + exn) * st) : bool :=
  match r with
  | (inr EAmbig, _) => negb (N.eqb (o_outcome o) 0)     (* order-dependent partial effects: only "it raised" is predicted *)
  | (inr e, (g', _)) => N.eqb (o_outcome o) (exn_code e) && graph_eqb g' (o_post o)
  | (inl cs, (g', _)) => N.eqb (o_outcome o) 0 && graph_eqb g' (o_post o) && caches_eqb cs (o_caches_after o)
  end.

Definition check8 (o : obs) : bool :=
  let c1 := nth 0 (o_caches o) [] in
  let c2 := nth 1 (o_caches o) [] in
  match o_op o with
  | OUnpeer a b =>
      match unpeer_ends (o_pre o) a b with
      | Some ((_ :: _ :: _) as cands) =>
          (* several shortest paths: the implementation must agree with one of the choices *)
          existsb (fun xy => agrees o (run (cc <- api_unpeer_checked xy c1 c2 ;; ret [fst cc; snd cc]) (o_pre o))) cands
      | _ => agrees o (run (exec (o_experiment o) (o_op o) (o_caches o)) (o_pre o))
      end
  | _ => agrees o (run (exec (o_experiment o) (o_op o) (o_caches o)) (o_pre o))
  end.

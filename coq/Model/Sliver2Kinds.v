(* C02 - vocabulary shared by the regenerated tables (Gen/PropMap.v) and the sliver conversion model.
   Definitions only.  Nothing here depends on generated files. *)
From Coq Require Import List String NArith Bool.
From FIM Require Import Base.Str.
Import ListNotations.

(* the five sliver classes of the property *)
Inductive kind := KNode | KComponent | KService | KInterface | KLink.

Definition kind_eqb (a b : kind) : bool :=
  match a, b with
  | KNode, KNode | KComponent, KComponent | KService, KService
  | KInterface, KInterface | KLink, KLink => true
  | _, _ => false
  end.

(* How a `*_sliver_to_graph_properties_dict` statement turns the attribute into the graph value *)
Inductive enc :=
| EPlain                         (* prop_dict[P] = sliver.X *)
| EStr                           (* prop_dict[P] = str(sliver.X) *)
| EToJson                        (* prop_dict[P] = sliver.X.to_json() *)
| EDataJson                      (* prop_dict[P] = sliver.X.json *)
| EJsonDumps                     (* prop_dict[P] = json.dumps(sliver.X) *)
| EJsonDumpsAlways               (* the same without the `is not None` guard (stitch_node) *)
| EImagePair (partner : string). (* sliver.X + ',' + str(sliver.<partner>), both must be set *)

(* what Cls.from_json returns for None / '' *)
Inductive nonek := NKNone | NKWrap.

(* How a `*_sliver_from_graph_properties_dict` keyword argument is computed from d.get(P) *)
Inductive dec :=
| DGet                                   (* d.get(P, None) *)
| DFromJson (cls : string) (nk : nonek)  (* Cls.from_json(d.get(P, None)) *)
| DEnumFromString (enum : string)        (* Enum.from_string(d.get(P)) *)
| DTypeFromStr                           (* sliver.type_from_str(d.get(P, None)) : the class's type enum *)
| DJsonLoads (default_false : bool)      (* json.loads(d[P]) if d.get(P) is not None else None/False *)
| DCtor (cls : string)                   (* Cls(d[P]) if d.get(P) is not None else None *)
| DSplitComma (idx : nat)                (* the idx-th of the two parts of d[P].split(',') *)
| DRSplitComma (idx : nat).              (* the idx-th of the two parts of d[P].rsplit(',', 1) *)

(* What the setter set_<kw> does with its argument *)
Inductive setk :=
| SPlain (asserted : option string)  (* [assert arg is None or isinstance(arg, Cls)]; self.A = arg *)
| SName                              (* set_name: regex check, raises on None *)
| SIp                                (* ipaddress.ip_address(arg) unless None *)
| STuple                             (* tuple(arg) unless None; asserts list/tuple *)
| SFinalize (asserted : option string). (* arg.finalize() if arg; self.A = arg *)

(* What the getter get_<kw> returns *)
Inductive getk := GPlain | GTuple.

Definition to_entry := (string * string * enc)%type.        (* attribute, graph property, encoder *)
Definition from_entry := (string * string * dec)%type.      (* setter keyword, graph property, decoder *)
Definition setter_entry := (string * string * setk)%type.   (* setter keyword, attribute, kind *)
Definition getter_entry := (string * string * getk)%type.   (* getter keyword, attribute, kind *)

(* exceptions: only the fact that one was raised is compared with the implementation *)
Inductive exn := ExType | ExValue | ExAssertion | ExAttribute | ExQuery | ExOther.
Inductive res (A : Type) := Ok (a : A) | Err (e : exn).
Arguments Ok {A} a.
Arguments Err {A} e.

Definition bind {A B} (r : res A) (f : A -> res B) : res B :=
  match r with Ok a => f a | Err e => Err e end.

Definition is_ok {A} (r : res A) : bool := match r with Ok _ => true | Err _ => false end.

(* Field values.  Where a value has its own codec (C03's business) it is an opaque token carrying
   the canonical text the implementation produced for it; the tie checks that the token is stable. *)
Inductive fval :=
| FStr (s : str)                           (* a Python str *)
| FEnum (enum : string) (member : str)     (* an enum member, by name *)
| FObj (cls : string) (canon : option str) (* object with to_json()/from_json(); canon = to_json() text,
                                              None when to_json() returns None (the empty Gateway) *)
| FData (cls : string) (json : str)        (* JSONData blob (MeasurementData/UserData/LayoutData): its .json *)
| FJson (text : str)                       (* a JSON-able value (node_map tuple), by its json.dumps text *)
| FBool (b : bool)
| FIp (canon : str).                       (* ipaddress object, by its canonical text *)

(* graph property values: Python str or (rarely) Python None *)
Definition pval := option str.
Definition props := list (string * pval).
Definition attrs := list (string * option fval).   (* the sliver's __dict__, data attributes only *)

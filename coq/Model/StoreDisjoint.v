(* One-nx.Graph-per-graph-id storage: executable model (definitions only).
   Mirrors fim/graph/networkx_property_graph_disjoint.py: __NetworkXGraphStorage (graphs =
   defaultdict(nx.Graph), graph_node_ids = defaultdict(lambda: 1)) and NetworkXPropertyGraphDisjoint
   (inherits every method of NetworkXPropertyGraph, i.e. the pg_* functions of Model/Store.v applied
   to storage.get_graph(graph_id); merge_nodes raises RuntimeError).

   Looking a graph id up autovivifies an empty nx.Graph; an empty entry and an absent entry are
   not distinguished by any method of the current code, so [dget] returns the empty graph for both.
   The per-graph id counters survive del_graph (clear()) and are reset only by add_graph /
   add_graph_direct. *)
From Coq Require Import List NArith Bool.
From FIM Require Import Base.Assoc Model.Store.
Import ListNotations.
Open Scope N_scope.

Record dstore := mkD { dgs : assoc nxg; dctr : assoc N }.
Definition init_dstore : dstore := mkD [] [].

Definition dget (d : dstore) (g : N) : nxg :=
  match aget g (dgs d) with Some G => G | None => empty_nxg end.
Definition dcounter (d : dstore) (g : N) : N :=
  match aget g (dctr d) with Some c => c | None => 1 end.
Definition dput (d : dstore) (g : N) (G : nxg) : dstore := mkD (aset g G (dgs d)) (dctr d).
Definition dput_ctr (d : dstore) (g : N) (c : N) : dstore := mkD (dgs d) (aset g c (dctr d)).

(* add_graph: an id that currently has nodes is skipped (warning only); otherwise relabel from 1,
   refuse a node without NodeID (nothing stored), stamp, store, counter := len + 1 *)
Definition d_add_graph (d : dstore) (g : N) (ig : igraph) : dstore * res :=
  match gn (dget d g) with
  | _ :: _ => (d, Ok RUnit)
  | [] =>
      let t := relabel ig 1 in
      if existsb node_id_missing (inodes t) then (d, Err EImport)
      else (dput_ctr (dput d g (nx_add_all empty_nxg (stamp g (inodes t)) (iedges t)))
                     g (N.of_nat (length (inodes t)) + 1), Ok RUnit)
  end.

(* add_graph_direct: always replaces; no stamping, no NodeID check *)
Definition d_add_graph_direct (d : dstore) (g : N) (ig : igraph) : dstore * res :=
  let t := relabel ig 1 in
  (dput_ctr (dput d g (nx_add_all empty_nxg (inodes t) (iedges t)))
            g (N.of_nat (length (inodes t)) + 1), Ok RUnit).

(* del_graph: clear() *)
Definition d_del_graph (d : dstore) (g : N) : dstore :=
  match gn (dget d g) with
  | [] => d
  | _ => dput d g empty_nxg
  end.

(* extract_graph: a copy of the whole per-id graph (never None) *)
Definition d_extract (d : dstore) (g : N) : igraph := mkI (gn (dget d g)) (ge (dget d g)).

Definition d_clone (d : dstore) (g g2 : N) : dstore * res :=
  match gn (dget d g) with
  | [] => (d, Err EQuery)                    (* a graph without nodes cannot be cloned (fix fdc67eb) *)
  | _ => d_add_graph d g2 (d_extract d g)
  end.

(* find_matching_nodes: the other graph's node ids are collected from ALL nodes of its nx.Graph *)
Definition d_matching (d : dstore) (g g2 : N) : res :=
  match pg_list_ids (dget d g) g with
  | Err e => Err e
  | Ok (RVals mine) =>
      if negb (forallb hashable mine) then Err EType
      else matching_result mine (gn (dget d g2))
  | Ok _ => Err EOther
  end.

Definition dlift (d : dstore) (g : N) (x : nxg * res) : dstore * res := (dput d g (fst x), snd x).

Definition dstep (d : dstore) (o : op) : dstore * res :=
  match o with
  | OImport g ig => d_add_graph d g ig
  | OImportDirect g ig => d_add_graph_direct d g ig
  | ODelGraph g => (d_del_graph d g, Ok RUnit)
  | OClone g g2 => d_clone d g g2
  | OAddNode g n c ps =>
      let newid := dcounter d g in
      match pg_add_node (dget d g) g newid n c ps with
      | None => (d, Err EQuery)
      | Some G' => (dput_ctr (dput d g G') g (newid + 1), Ok RUnit)
      end
  | ODelNode g n => dlift d g (pg_delete_node (dget d g) g n)
  | OAddLink g a r b ps => dlift d g (pg_add_link (dget d g) g a r b ps)
  | OUpdNode g n p v => dlift d g (pg_update_node (dget d g) g n p v)
  | OUnsetNode g n p => dlift d g (pg_unset_node (dget d g) g n p)
  | OUpdNodes g p v => dlift d g (pg_update_nodes (dget d g) g p v)
  | OUpdNodeProps g n ps => dlift d g (pg_update_node_props (dget d g) g n ps)
  | OUpdLink g a b k p v => dlift d g (pg_update_link (dget d g) g a b k p v)
  | OUnsetLink g a b k p => dlift d g (pg_unset_link (dget d g) g a b k p)
  | OUpdLinkProps g a b k ps => dlift d g (pg_update_link_props (dget d g) g a b k ps)
  | OGetNode g n => (d, pg_get_node (dget d g) g n)
  | OGetLink g a b => (d, pg_get_link (dget d g) g a b)
  | OByClass g c => (d, pg_by_class (dget d g) g c)
  | OByClassType g c t => (d, pg_by_class_type (dget d g) g c t)
  | OListIds g => (d, pg_list_ids (dget d g) g)
  | ONodeExists g n c => (d, pg_node_exists (dget d g) g n c)
  | OUnique g c name => (d, pg_unique (dget d g) g c name)
  | OGraphExists g => (d, Ok (RBool (pg_graph_exists (dget d g) g)))
  | OMatching g g2 => (d, d_matching d g g2)
  | OMerge _ _ _ _ => (d, Err ERuntime)
  end.

Definition drun (ops : list op) (d : dstore) : dstore := fold_left (fun d o => fst (dstep d o)) ops d.

(* ---------- observation ---------- *)
(* the implementation's snapshot: one entry per graph id that has at least one node *)
Definition dsnap := list (N * nxg).
Definition dstep_obs := (op * res * option dsnap)%type.

Definition dsnap_eqb (d : dstore) (snap : dsnap) : bool :=
  forallb (fun e => nxg_eqb (dget d (fst e)) (snd e)) snap &&
  forallb (fun e => match gn (snd e) with
                    | [] => true
                    | _ => existsb (fun x => N.eqb (fst x) (fst e)) snap
                    end) (dgs d).

Fixpoint check_disjoint_from (d : dstore) (last : dsnap) (l : list dstep_obs) : bool :=
  match l with
  | [] => true
  | (o, r, snap) :: rest =>
      let '(d', r') := dstep d o in
      let cur := match snap with Some x => x | None => last end in
      res_eqb r' r && dsnap_eqb d' cur && check_disjoint_from d' cur rest
  end.
Definition check_disjoint (l : list dstep_obs) : bool := check_disjoint_from init_dstore [] l.

Fixpoint first_bad_disjoint (d : dstore) (last : dsnap) (i : N) (l : list dstep_obs) : option (N * res * dstore) :=
  match l with
  | [] => None
  | (o, r, snap) :: rest =>
      let '(d', r') := dstep d o in
      let cur := match snap with Some x => x | None => last end in
      if res_eqb r' r && dsnap_eqb d' cur then first_bad_disjoint d' cur (N.succ i) rest
      else Some (i, r', d')
  end.

(* ---------- C04's correspondence (see Model/Store.v): state injection, isolation-relevant observables ---------- *)
Definition diso_obs := (op * res * option dsnap * list (N * N))%type.     (* ..., graph_node_ids after the step *)

Definition snap_get (sn : dsnap) (g : N) : nxg := match aget g sn with Some G => G | None => empty_nxg end.
Definition ctr_get (c : list (N * N)) (g : N) : N := match aget g c with Some x => x | None => 1 end.

Definition dalloc_ok (cur : dsnap) (cc : list (N * N)) : bool :=
  forallb (fun e => let ids := map fst (gn (snd e)) in
                    forallb (fun i => N.ltb i (ctr_get cc (fst e))) ids && nodupN_b ids) cur.

Fixpoint check_iso_disjoint_from (prev : dsnap) (pc : list (N * N)) (l : list diso_obs) : bool :=
  match l with
  | [] => true
  | (o, r, snap, cc) :: rest =>
      let cur := match snap with Some x => x | None => prev end in
      let '(d', r') := dstep (mkD prev pc) o in
      let gids := map fst prev ++ map fst cur ++ map fst (dgs d') in
      dalloc_ok cur cc &&
      (if storage_op o
       then forallb (fun g => nxg_eqb (dget d' g) (snap_get cur g) &&
                                              (match gn (snap_get cur g) with [] => true | _ => N.eqb (dcounter d' g) (ctr_get cc g) end)) gids
       else forallb (fun g => writes_gid o g || nxg_eqb (dget d' g) (snap_get cur g)) gids) &&
      check_iso_disjoint_from cur cc rest
  end.
Definition check_iso_disjoint (l : list diso_obs) : bool := check_iso_disjoint_from [] [] l.

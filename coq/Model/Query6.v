(* C06 model: neighbour and path queries of the in-memory property graph
   (fim/graph/networkx_property_graph.py:395-545, fim/graph/networkx_mixin.py:44-145,
   fim/graph/abc_property_graph.py:1303-1418).  Definitions only; proofs are in Proofs/Query6*.v.

   A store holds several graphs in ONE node/edge collection (NetworkXGraphStorage.graphs); every node
   carries the internal integer key networkx knows it by, its GraphID, NodeID and Class; every edge joins
   two internal keys and carries its Class (the relation).  All identifiers are opaque and interned to N
   by the harness.  `Err` stands for "the call raised" (the class of the exception is not compared). *)
From Coq Require Import List NArith ZArith Bool.
Import ListNotations.
Open Scope N_scope.

Inductive res (A : Type) := Ok (a : A) | Err.
Arguments Ok {A} a.
Arguments Err {A}.

Record node := mkNode { n_int : N; n_gid : N; n_id : N; n_cls : N }.
Definition edge := (N * N * N)%type.                 (* internal key, internal key, relation *)
Record store := mkStore { s_nodes : list node; s_edges : list edge }.

(* ---------- the networkx Graph: simple, undirected; add_edge on an existing pair overwrites ---------- *)
Definition same_pair (a b x y : N) : bool := ((a =? x) && (b =? y)) || ((a =? y) && (b =? x)).

Fixpoint edge_rel (es : list edge) (a b : N) : option N :=      (* the last entry for {a,b} wins *)
  match es with
  | [] => None
  | (x, y, r) :: t => match edge_rel t a b with
                      | Some r' => Some r'
                      | None => if same_pair a b x y then Some r else None
                      end
  end.

Definition mem (x : N) (l : list N) : bool := existsb (N.eqb x) l.

(* ---------- extract_graph: the sub-graph on the nodes whose GraphID is gid (None when there are none) ---------- *)
Record graph := mkGraph { g_nodes : list node; g_rel : N -> N -> option N }.

Definition ints (G : graph) : list N := map n_int (g_nodes G).
Definition graph_nodes (s : store) (gid : N) : list node := filter (fun n => n_gid n =? gid) (s_nodes s).

Definition extract (s : store) (gid : N) : res graph :=
  match graph_nodes s gid with
  | [] => Err
  | ns => let keys := map n_int ns in
          Ok (mkGraph ns (fun a b => if mem a keys && mem b keys then edge_rel (s_edges s) a b else None))
  end.

(* _find_node: exactly one node of this graph with this NodeID, else the call raises *)
Definition find_node (s : store) (gid id : N) : res node :=
  match filter (fun n => (n_id n =? id) && (n_gid n =? gid)) (s_nodes s) with
  | [n] => Ok n
  | _ => Err
  end.

Definition bind {A B} (r : res A) (f : A -> res B) : res B := match r with Ok a => f a | Err => Err end.

(* ---------- helpers of NetworkXMixin ---------- *)
Definition adjb (G : graph) (a b : N) : bool := match g_rel G a b with Some _ => true | None => false end.
Definition rel_is (G : graph) (a b rel : N) : bool := match g_rel G a b with Some r => r =? rel | None => false end.
Definition neighbors (G : graph) (a : N) : list node := filter (fun m => adjb G a (n_int m)) (g_nodes G).
Definition memn (n : node) (l : list node) : bool := existsb (fun m => n_int m =? n_int n) l.
Definition difference (l d : list node) : list node := filter (fun n => negb (memn n d)) l.   (* set.difference *)

(* _get_first_neighbors_via: neighbours, minus the drop list of those joined by another relation *)
Definition first_neighbors_via (G : graph) (a rel : N) : list node :=
  let fn := neighbors G a in
  difference fn (filter (fun n => negb (rel_is G a (n_int n) rel)) fn).

(* _filter_nodes_by_label *)
Definition filter_by_label (l : list node) (cls : N) : list node :=
  difference l (filter (fun n => negb (n_cls n =? cls)) l).

(* ---------- get_first_neighbor ---------- *)
Definition first_neighbor (s : store) (gid id rel cls : N) : res (list N) :=
  bind (extract s gid) (fun G =>
  bind (find_node s gid id) (fun n =>
  Ok (map n_id (filter_by_label (first_neighbors_via G (n_int n) rel) cls)))).

(* ---------- get_first_and_second_neighbor, AS CODED: the second drop list receives the first-hop node n
   once per offending edge instead of the offending neighbour k (networkx_property_graph.py:529) ---------- *)
Definition second_of (G : graph) (a : N) (n : node) (rel2 c2 : N) : list node :=
  let sn := neighbors G (n_int n) in
  let drop := map (fun _ => n) (filter (fun k => negb (rel_is G (n_int n) (n_int k) rel2)) sn) in
  let sn2 := filter_by_label (difference sn drop) c2 in
  match sn2 with
  | [] => []
  | _ => filter (fun k => negb (n_int k =? a)) sn2           (* "remove self in case they are there" *)
  end.

Definition fsn_nodes (G : graph) (a rel1 c1 rel2 c2 : N) : list (node * node) :=
  let fn := neighbors G a in
  let fn1 := difference fn (filter (fun n => negb (rel_is G a (n_int n) rel1)) fn) in
  match fn1 with
  | [] => []
  | _ => flat_map (fun n => map (fun k => (n, k)) (second_of G a n rel2 c2)) (filter_by_label fn1 c1)
  end.

Definition first_and_second_neighbor (s : store) (gid id rel1 c1 rel2 c2 : N) : res (list (N * N)) :=
  bind (extract s gid) (fun G =>
  bind (find_node s gid id) (fun n =>
  Ok (map (fun p => (n_id (fst p), n_id (snd p))) (fsn_nodes G (n_int n) rel1 c1 rel2 c2)))).

(* what the same function would return if the drop list received k (the contract); used only in statements
   and by the harness to recognise the known finding *)
Definition second_of_spec (G : graph) (a : N) (n : node) (rel2 c2 : N) : list node :=
  filter (fun k => rel_is G (n_int n) (n_int k) rel2 && (n_cls k =? c2) && negb (n_int k =? a)) (g_nodes G).

(* ---------- paths over internal keys ---------- *)
Fixpoint pathf (adj : N -> N -> bool) (x : N) (rest : list N) (z : N) : bool :=
  match rest with
  | [] => x =? z
  | y :: r => adj x y && pathf adj y r z
  end.

(* p is a path from a to z in G: non-empty, starts at a, ends at z, consecutive nodes adjacent, all nodes of G *)
Definition is_path (G : graph) (p : list N) (a z : N) : bool :=
  match p with
  | [] => false
  | x :: r => (x =? a) && pathf (adjb G) x r z && forallb (fun y => mem y (ints G)) p
  end.

(* _drop_edges_not_of_type *)
Definition drop_edges_not_of_type (G : graph) (rel : N) : graph :=
  mkGraph (g_nodes G) (fun a b => match g_rel G a b with
                                  | Some r => if r =? rel then Some r else None
                                  | None => None
                                  end).

(* model of nx.shortest_path (unweighted): breadth-first reach sets.  step adds the nodes of G adjacent to
   the set; reachS k S = nodes within k edges of S. *)
Definition step (G : graph) (S : list N) : list N :=
  S ++ filter (fun y => negb (mem y S) && existsb (fun x => adjb G x y) S) (ints G).

Fixpoint reachS (G : graph) (k : nat) (S : list N) : list N :=
  match k with
  | O => S
  | S k' => reachS G k' (step G S)
  end.

Fixpoint least (f : nat -> bool) (k fuel : nat) : option nat :=
  if f k then Some k else match fuel with O => None | S fu => least f (S k) fu end.

(* a path of at most k edges from x to z, walking forward through nodes from which z is still in range *)
Fixpoint build (G : graph) (k : nat) (x z : N) : option (list N) :=
  if x =? z then Some [x] else
  match k with
  | O => None
  | S k' => match find (fun w => adjb G x w && mem z (reachS G k' [w])) (ints G) with
            | Some w => option_map (cons x) (build G k' w z)
            | None => None
            end
  end.

(* None = NetworkXNoPath *)
Definition sp_int (G : graph) (a z : N) : option (list N) :=
  match least (fun k => mem z (reachS G k [a])) 0 (length (g_nodes G)) with
  | None => None
  | Some k => build G k a z
  end.

Definition id_of (G : graph) (x : N) : N :=
  match find (fun n => n_int n =? x) (g_nodes G) with Some n => n_id n | None => 0 end.
Definition ids_of (G : graph) (p : list N) : list N := map (id_of G) p.     (* _get_node_ids_for_list *)

(* get_nodes_on_shortest_path *)
Definition shortest_path (s : store) (gid a z : N) (rel : option N) : res (list N) :=
  bind (extract s gid) (fun G0 =>
  let G := match rel with Some r => drop_edges_not_of_type G0 r | None => G0 end in
  bind (find_node s gid a) (fun na =>
  bind (find_node s gid z) (fun nz =>
  Ok (match sp_int G (n_int na) (n_int nz) with
      | Some p => ids_of G p
      | None => []
      end)))).

(* model of nx.all_simple_paths(G, x, z, cutoff=k): simple paths of at most k edges that stop at z *)
Fixpoint simple_paths (G : graph) (k : nat) (x z : N) (visited : list N) : list (list N) :=
  if x =? z then [[x]] else
  match k with
  | O => []
  | S k' => flat_map (fun w => if adjb G x w && negb (mem w (x :: visited))
                              then map (cons x) (simple_paths G k' w z (x :: visited)) else [])
                     (ints G)
  end.

(* model of `len(nx.cycle_basis(graph.subgraph(path))) == 0` for a simple path: the induced sub-graph has
   no self-loop and no edge between two nodes that are not consecutive on the path *)
Fixpoint chordless (G : graph) (p : list N) : bool :=
  match p with
  | [] => true
  | x :: t => negb (adjb G x x)
              && match t with [] => true | _ :: t2 => forallb (fun y => negb (adjb G x y || adjb G y x)) t2 end
              && chordless G t
  end.

(* the result-update loop: keep the first path that is strictly shorter than the current result *)
Definition pick_shortest (l : list (list N)) : list N :=
  fold_left (fun result p => match result with
                             | [] => p
                             | _ => if (length p <? length result)%nat then p else result
                             end) l [].

Definition qualifies (G : graph) (hops : list N) (p : list N) : bool :=
  chordless G p && forallb (fun h => mem h (ids_of G p)) hops.

Definition pwh_int (G : graph) (a z : N) (hops : list N) (cutoff : Z) : list N :=
  if (cutoff <? 0)%Z then []
  else let k := Nat.min (Z.to_nat cutoff) (length (g_nodes G)) in
       pick_shortest (filter (qualifies G hops) (simple_paths G k a z [])).

(* get_nodes_on_path_with_hops *)
Definition path_with_hops (s : store) (gid a z : N) (hops : list N) (cutoff : Z) : res (list N) :=
  bind (extract s gid) (fun G =>
  bind (find_node s gid a) (fun na =>
  bind (find_node s gid z) (fun nz =>
  Ok (ids_of G (pwh_int G (n_int na) (n_int nz) hops cutoff))))).

(* ---------- derived helpers of ABCPropertyGraph ---------- *)
(* get_parent: the id of the single first neighbour, else (None, None) *)
Definition get_parent (s : store) (gid id rel parent : N) : res (option N) :=
  bind (first_neighbor s gid id rel parent) (fun l => match l with [p] => Ok (Some p) | _ => Ok None end).

(* the interned vocabulary the two helpers below are written with *)
Record vocab := mkVocab { v_has : N; v_connects : N; v_NetworkNode : N; v_Component : N; v_CompositeNode : N;
                          v_NetworkService : N; v_ConnectionPoint : N; v_Link : N }.

(* the interning used by harness/c06.py and translator/gen_query6.py: relations has=1 connects=2; classes
   NetworkNode=1 Component=2 CompositeNode=3 NetworkService=4 ConnectionPoint=5 Link=6 *)
Definition std_vocab : vocab := mkVocab 1 2 1 2 3 4 5 6.

(* find_peer_connection_points: None when there is no candidate *)
Definition find_peer_connection_points (V : vocab) (s : store) (gid id : N) : res (option (list N)) :=
  bind (first_and_second_neighbor s gid id (v_connects V) (v_Link V) (v_connects V) (v_ConnectionPoint V))
       (fun l => match l with [] => Ok None | _ => Ok (Some (map snd l)) end).

(* get_all_node_or_component_connection_points: raises unless the node is a NetworkNode, Component or CompositeNode *)
Definition get_all_node_or_component_connection_points (V : vocab) (s : store) (gid id : N) : res (list N) :=
  bind (find_node s gid id) (fun n =>
  if (n_cls n =? v_NetworkNode V) || (n_cls n =? v_Component V) || (n_cls n =? v_CompositeNode V)
  then bind (first_and_second_neighbor s gid id (v_has V) (v_NetworkService V) (v_connects V) (v_ConnectionPoint V))
            (fun l => Ok (map snd l))
  else Err).

(* ---------- well-formedness of a store (what networkx and add_node guarantee) ---------- *)
Fixpoint nodupb (l : list N) : bool := match l with [] => true | x :: t => negb (mem x t) && nodupb t end.
Fixpoint nodupb2 (l : list (N * N)) : bool :=
  match l with [] => true | (a, b) :: t => negb (existsb (fun q => (fst q =? a) && (snd q =? b)) t) && nodupb2 t end.
(* internal keys are distinct (dictionary keys of the networkx graph); (GraphID, NodeID) pairs are distinct
   (add_node refuses an existing NodeID) *)
Definition keys_distinct (s : store) : bool := nodupb (map n_int (s_nodes s)).
Definition ids_distinct (s : store) : bool := nodupb2 (map (fun n => (n_gid n, n_id n)) (s_nodes s)).
Definition wf_store (s : store) : bool := keys_distinct s && ids_distinct s.

(* ---------- vocabulary of the statements (Properties/C06.v) ---------- *)
Definition in_graph (s : store) (gid : N) (m : node) : Prop := In m (s_nodes s) /\ n_gid m = gid.
Definition joined (s : store) (n m : node) (rel : N) : Prop := edge_rel (s_edges s) (n_int n) (n_int m) = Some rel.

(* the contract of the two-hop query for the pair of NodeIDs (b, c), start node n *)
Definition second_spec (s : store) (gid : N) (n : node) (rel1 c1 rel2 c2 b c : N) : Prop :=
  exists m k, in_graph s gid m /\ in_graph s gid k /\ n_id m = b /\ n_id k = c /\
              joined s n m rel1 /\ n_cls m = c1 /\ joined s m k rel2 /\ n_cls k = c2 /\ n_int k <> n_int n.

(* what the code returns instead: the second relation is not looked at, except that a first-hop node with a
   self-loop is dropped from its own second neighbours as soon as one of its edges is not of rel2 *)
Definition second_coded (s : store) (gid : N) (n : node) (rel1 c1 rel2 c2 b c : N) : Prop :=
  exists m k, in_graph s gid m /\ in_graph s gid k /\ n_id m = b /\ n_id k = c /\
              joined s n m rel1 /\ n_cls m = c1 /\ (exists r, joined s m k r) /\ n_cls k = c2 /\ n_int k <> n_int n /\
              (n_int k = n_int m -> forall k' r, in_graph s gid k' -> joined s m k' r -> r = rel2).

(* the signature of the defect is absent: no qualifying first-hop node has a self-loop, and each of its edges
   to a node of class c2 other than the start node is of rel2 *)
Definition rel2_uniformb (s : store) (gid id rel1 c1 rel2 c2 : N) : bool :=
  match extract s gid, find_node s gid id with
  | Ok G, Ok n =>
      forallb (fun m => if rel_is G (n_int n) (n_int m) rel1 && (n_cls m =? c1)
                        then negb (adjb G (n_int m) (n_int m))
                             && forallb (fun k => if adjb G (n_int m) (n_int k) && (n_cls k =? c2) && negb (n_int k =? n_int n)
                                                  then rel_is G (n_int m) (n_int k) rel2 else true) (g_nodes G)
                        else true) (g_nodes G)
  | _, _ => true
  end.

(* the graph a path query works on: the extracted graph, restricted to one relation when one is given *)
Definition graph_for (s : store) (gid : N) (rel : option N) : res graph :=
  bind (extract s gid) (fun G0 => Ok (match rel with Some r => drop_edges_not_of_type G0 r | None => G0 end)).

(* a qualifying path of get_nodes_on_path_with_hops *)
Definition hop_path (G : graph) (a z : N) (hops : list N) (cutoff : Z) (q : list N) : Prop :=
  is_path G q a z = true /\ NoDup q /\ qualifies G hops q = true /\ (Z.of_nat (length q) <= cutoff + 1)%Z.

(* ---------- the store used by the non-vacuity Examples of Properties/C06.v ---------- *)
(* two graphs in one store; graph 1: a(1) -has- b(2), b -connects- c(3), b -has- d(4), c -connects- e(5),
   d -connects- e;  graph 2 reuses the NodeIDs 1 and 2.  classes: 1 NetworkNode, 4 NetworkService,
   5 ConnectionPoint; relations: 1 has, 2 connects *)
Definition ex_store : store :=
  mkStore [mkNode 10 1 1 1; mkNode 11 2 1 5; mkNode 12 1 2 4; mkNode 13 2 2 5; mkNode 14 1 3 5; mkNode 15 1 4 5;
           mkNode 16 1 5 5]
          [(10, 12, 1); (11, 13, 2); (12, 14, 2); (12, 15, 1); (14, 16, 2); (15, 16, 2)].

(* a store with a cross-graph edge, as left by merge_nodes before the other graph's nodes are re-homed: graph 1 =
   NetworkService 2 -connects- ConnectionPoint 1; graph 2 = Link 5 -connects- ConnectionPoint 6; and the edge
   ConnectionPoint 1 (graph 1) -connects- Link 5 (graph 2) *)
Definition cross_store : store :=
  mkStore [mkNode 10 1 1 5; mkNode 11 1 2 4; mkNode 21 2 5 6; mkNode 22 2 6 5]
          [(11, 10, 2); (10, 21, 2); (21, 22, 2)].

(* C16 specification: the documented domains, stated without reference to the matcher.
     in_domain k s   : s is in the language (Base/Regex.v `lang`, whole string) of field k's regenerated
                       pattern, and satisfies k's regenerated range predicate
   and, pinned by hand (these do NOT come from the translator): the length ranges / character sets of tags and
   of the names of each sliver class, the size limits of the opaque data blobs and of the boot script.
   Definitions only. *)
From Coq Require Import List ZArith NArith Bool String.
From FIM Require Import Base.Str Base.Regex Model.Labels16Types Gen.UnicodeClasses Gen.LabelValidators Model.Labels16.
Import ListNotations.

Definition range_spec (rk : rangek) (s : str) : Prop :=
  match rk with
  | RInt b => exists z, py_int s = Some z /\ in_bounds b z = true
  | RSplit sep b0 b1 c =>
      exists p0 p1 rest x y, split_on sep s = p0 :: p1 :: rest /\ py_int p0 = Some x /\ py_int p1 = Some y /\
                             in_bounds b0 x = true /\ in_bounds b1 y = true /\ cmpb c x y = true
  end.

Definition in_domain (k : str) (s : str) : Prop :=
  (forall r, lookup k label_validators = Some r -> re_lang r s) /\
  (forall rk, lookup k label_lambdas = Some rk -> range_spec rk s).

Definition is_strs (v : lval) : bool := match v with LStr _ | LList _ => true | _ => false end.

Definition val_ok (k : str) (ov : option lval) : Prop :=
  match ov with
  | None => True
  | Some v => is_strs v = true /\ Forall (in_domain k) (elems v)
  end.

(* every field of a Labels object holds None or documented values *)
Definition labels_inv (st : lobj) : Prop := Forall (fun kv => val_ok (fst kv) (snd kv)) st.
Definition labels_wf (st : lobj) : Prop := map fst st = label_fields.

Definition tag_in_domain (t : tagv) : Prop :=
  match t with TStr s => re_lang tag_re s | TNonStr => False end.

(* ---- pinned documented formats (hand-written) ---- *)
Definition chr_in (l : list N) (c : N) : bool := existsb (N.eqb c) l.

(* tags: 1..255 characters, each a word character or '-' *)
Definition tag_char (c : N) : bool := is_re_word c || chr_in [45%N] c.

(* names: per sliver class (min length, max length, characters allowed besides word characters) *)
Definition name_doc : list (str * (nat * nat * list N)) :=
  [ (S"NodeSliver",           (2, 255, [45; 46]%N));                       (* - . *)
    (S"NetworkServiceSliver", (2, 255, [45; 95; 46]%N));                   (* - _ . *)
    (S"NetworkLinkSliver",    (2, 255, [45; 43; 95; 47; 46; 32; 58]%N));   (* - + _ / . space : *)
    (S"InterfaceSliver",      (1, 255, [45; 43; 95; 47; 46; 32; 58]%N));
    (S"ComponentSliver",      (2, 255, [45; 95; 46; 32]%N)) ].             (* - _ . space *)
Definition name_char (extra : list N) (c : N) : bool := is_re_word c || chr_in extra c.

(* opaque JSON blobs: maximal length of the JSON text *)
Definition jd_doc : list (str * nat) :=
  [ (S"MeasurementData", 4096); (S"UserData", 2048); (S"LayoutData", 1024) ].

(* boot script: strictly fewer than 1024 characters *)
Definition boot_doc_limit : nat := 1024.

(* capacities: every field None or a non-negative int (bool is an int in Python) *)
Definition cval_ok (v : cval) : Prop :=
  match v with
  | CV_none => True
  | CV_int z => (0 <= z)%Z
  | CV_bool _ => True
  | _ => False
  end.
Definition caps_inv (st : cobj) : Prop := Forall (fun kv => cval_ok (snd kv)) st.

(* documented boundary values of the range predicates, as (field, value, accepted?) *)
Definition boundary_table : list (str * str * bool) :=
  [ (S"vlan", S"0", true); (S"vlan", S"4096", true); (S"vlan", S"4097", false); (S"vlan", S"-1", false);
    (S"vlan", S"12345", false); (S"vlan", S"", false); (S"vlan", S"04096", false); (S"vlan", S"00000", false);
    (S"vlan", S" 1", false); (S"vlan", S"1 ", false); (S"vlan", S"+1", false); (S"vlan", S"1_0", false);
    (S"numa", S" 7", true); (S"numa", S"+7", true); (S"numa", S"0_7", true); (S"numa", S"_7", false); (S"numa", S"", false);
    (S"numa", S"1.0", false);
    (S"inner_vlan", S"4096", true); (S"inner_vlan", S"4097", false);
    (S"asn", S"0", false); (S"asn", S"1", true); (S"asn", S"4294967295", true); (S"asn", S"4294967296", false);
    (S"numa", S"-1", true); (S"numa", S"0", true); (S"numa", S"7", true); (S"numa", S"8", false); (S"numa", S"-2", false);
    (S"vlan_range", S"0-4096", true); (S"vlan_range", S"5-5", true); (S"vlan_range", S"6-5", false);
    (S"vlan_range", S"0-4097", false); (S"vlan_range", S"100", false);
    (S"mac", S"00:11:22:33:44:55", true); (S"mac", S"00:11:22:33:44", false); (S"mac", S"00:11:22:33:44:5g", false);
    (S"ipv4", S"192.168.1.1", true); (S"ipv4", S"256.1.1.1", false); (S"ipv4", S"1.1.1", false);
    (S"ipv4_subnet", S"192.168.1.0/24", true); (S"ipv4_range", S"192.168.1.1-192.168.1.10", true);
    (S"ipv6", S"2001:0db8:85a3:0000:0000:8a2e:0370:7334", true); (S"ipv6", S"2001:0db8:85a3:0000:0000:8a2e:0370:7334:1", false);
    (S"ipv6_subnet", S"2001:0db8:85a3:0000:0000/48", true);
    (S"bdf", S"0000:00:00.0", true); (S"bdf", S"0000:00:00", false);
    (S"usb_id", S"1234:abcd", true); (S"usb_id", S"1234:ABCD", false);
    (S"bgp_key", S"abcde", false); (S"bgp_key", S"abcdef", true);
    (S"region", S"us-central1", true); (S"account_id", S"ab", false) ].

Definition scalar_accepted (k s : str) : bool :=
  match snd (set_one false labels_init (k, LStr s)) with None => true | Some _ => false end.
Definition list_accepted (k s : str) : bool :=
  match snd (set_one false labels_init (k, LList [s])) with None => true | Some _ => false end.

(* ---- the integer literals int() accepts, declaratively ---- *)
(* digits with single underscores between digits; yields the digit values, most significant first *)
Inductive digit_groups : str -> list N -> Prop :=
| DG_one c d : digit_val c = Some d -> digit_groups [c] [d]
| DG_more c d s ds : digit_val c = Some d -> digit_groups s ds -> digit_groups (c :: s) (d :: ds)
| DG_us c d s ds : digit_val c = Some d -> digit_groups s ds -> digit_groups (c :: 95%N :: s) (d :: ds).

Definition int_literal (s : str) (z : Z) : Prop :=
  exists ws1 sign body ws2 ds,
    s = ws1 ++ sign ++ body ++ ws2 /\
    forallb is_int_space ws1 = true /\ forallb is_int_space ws2 = true /\
    (sign = [] \/ sign = [43%N] \/ sign = [45%N]) /\
    digit_groups body ds /\
    (int_max_str_digits = 0%N \/ (N.of_nat (List.length ds) <= int_max_str_digits)%N) /\
    z = (if list_eqb N.eqb sign [45%N] then (- Z.of_N (dec_value ds))%Z else Z.of_N (dec_value ds)).

(* C06: query HISTORIES.  Several graph objects may exist for one graph id; queries and mutations are issued
   through any of them, in any order.  In the model the only state is the store: a mutation (whatever it is -
   add_node, add_link, delete_node, merge_nodes, a re-import, through whichever object) replaces the store
   content, a query is answered from the CURRENT store content and leaves no trace.  The correspondence
   (harness/c06.py, stream `history`) checks that the code behaves like that: every answer of an interleaved
   history, asked through either of two live objects, is compared with the model evaluated on the store as read
   back at that moment.  Definitions only; the statements are proved in Proofs/Query6Hist.v. *)
From Coq Require Import List NArith ZArith Bool.
From FIM Require Import Model.Query6 Model.Query6Check.
Import ListNotations.
Open Scope N_scope.

Inductive ask :=
| AFirst (gid id rel cls : N)
| ASecond (gid id rel1 c1 rel2 c2 : N)
| ASP (gid a z : N) (rel : option N)
| AHops (gid a z : N) (hops : list N) (cutoff : Z)
| AParent (gid id rel cls : N)
| APeers (gid id : N)
| ANodeCPs (gid id : N).

Inductive answer :=
| RIds (r : res (list N))
| RPairs (r : res (list (N * N)))
| ROpt (r : res (option N))
| ROptIds (r : res (option (list N))).

Definition answer_of (V : vocab) (s : store) (a : ask) : answer :=
  match a with
  | AFirst gid id rel cls => RIds (first_neighbor s gid id rel cls)
  | ASecond gid id r1 c1 r2 c2 => RPairs (first_and_second_neighbor s gid id r1 c1 r2 c2)
  | ASP gid a z rel => RIds (shortest_path s gid a z rel)
  | AHops gid a z hops cutoff => RIds (path_with_hops s gid a z hops cutoff)
  | AParent gid id rel cls => ROpt (get_parent s gid id rel cls)
  | APeers gid id => ROptIds (find_peer_connection_points V s gid id)
  | ANodeCPs gid id => RIds (get_all_node_or_component_connection_points V s gid id)
  end.

(* one step of a history: the store content becomes s' (any mutation through any object), or a question *)
Inductive hstep := HSet (s' : store) | HAsk (a : ask).

Definition is_set (h : hstep) : bool := match h with HSet _ => true | HAsk _ => false end.

(* the store content after the steps *)
Definition current (s : store) (steps : list hstep) : store :=
  fold_left (fun st h => match h with HSet s' => s' | HAsk _ => st end) steps s.

(* the answers of a history, in order *)
Fixpoint run (V : vocab) (s : store) (steps : list hstep) : list answer :=
  match steps with
  | [] => []
  | HSet s' :: t => run V s' t
  | HAsk a :: t => answer_of V s a :: run V s t
  end.

(* what the harness hands over: the history cut into segments (store content as read back, the questions asked
   while it was current, with the implementation's answers) *)
Definition check_history (h : list case) : bool := forallb check_case h.

(* C19 model: the statements the persistent (Neo4j) backend hands to the driver.

   A statement site of the code is a TEMPLATE: a list of fragments, literal text or a hole filled from a
   python expression (regenerated from the source by translator/gen_cypher.py into Gen/Cypher.v).
   `render` is what the f-string / concatenation computes.  `scan` is a one-pass scanner for the fragment
   of Cypher this backend uses; `wf_b text params` is "syntactically well-formed":
     - quotes closed, ( ) [ ] { } balanced and properly nested outside string literals,
     - no unexpanded template residue:  "{{"  (a map can not start with "{") and "{name}" (a map needs
       "key: value"; the old {param} syntax does not exist in Neo4j >= 4),
     - every $name it references is in `params`,
     - every variable it uses (RETURN n, n.prop, f(n), SET n..., DELETE n ...) has a binding occurrence
       (pattern variable "(n", "[r", "x IN" inside a comprehension, AS x, YIELD x, path "p = ").
   `tmpl_ok` is the checker run on a template (holes not expanded); Proofs/Cypher19Sound.v shows it sound
   for every environment.  Definitions only. *)
From Coq Require Import List NArith Bool String.
Import ListNotations.
From FIM Require Import Base.Str.
Open Scope N_scope.

(* ------------------------------------------------------------------------------------------- *)
(* templates                                                                                    *)
(* ------------------------------------------------------------------------------------------- *)
(* HIdent: an identifier-class argument (class label, relation type, property name), pasted as is.
   HValue: a stored value pasted as is - never accepted.
   HEsc d: a stored value passed d >= 1 times through the escaping helper (backslash and both quote characters get a backslash)
           before it is pasted - accepted only inside a quoted literal. *)
Inductive hkind := HIdent | HValue | HEsc (d : nat).
Inductive frag := Lit (s : str) | Hole (v : N) (k : hkind).

(* the escaping helper (Neo4jPropertyGraph._cypher_escape; the translator checks its body literally), and what
   the lexer of the database makes of the content of a quoted literal *)
Fixpoint esc_q (v : str) : str :=
  match v with
  | [] => []
  | c :: r => if (c =? 92) || (c =? 39) || (c =? 34) then 92 :: c :: esc_q r else c :: esc_q r
  end.
Fixpoint esc_n (d : nat) (v : str) : str :=
  match d with O => v | Datatypes.S d' => esc_q (esc_n d' v) end.
Fixpoint unesc (v : str) : str :=
  match v with
  | [] => []
  | c :: r => if c =? 92 then match r with c2 :: r2 => c2 :: unesc r2 | [] => [c] end else c :: unesc r
  end.

Record tmpl := mk_tmpl {
  t_id : N;
  t_op : str;                 (* Class.method *)
  t_frags : list frag;
  t_params : list str;        (* keyword names passed to session.run *)
  t_params_known : bool       (* false: **kwargs / positional dict - the set is not known statically *)
}.

Definition env := N -> str.

Fixpoint render (fs : list frag) (e : env) : str :=
  match fs with
  | [] => []
  | Lit s :: r => s ++ render r e
  | Hole v (HEsc d) :: r => esc_n d (e v) ++ render r e
  | Hole v _ :: r => e v ++ render r e
  end.

Definition env_of_list (l : list str) : env := fun v => nth (N.to_nat v) l [].

Fixpoint ident_vars (fs : list frag) : list N :=
  match fs with
  | [] => []
  | Hole v HIdent :: r => v :: ident_vars r
  | _ :: r => ident_vars r
  end.

Fixpoint has_value_hole (fs : list frag) : bool :=
  match fs with
  | [] => false
  | Hole _ HValue :: _ => true
  | _ :: r => has_value_hole r
  end.

Fixpoint has_esc_hole (fs : list frag) : bool :=
  match fs with
  | [] => false
  | Hole _ (HEsc _) :: _ => true
  | _ :: r => has_esc_hole r
  end.

(* _cypher_escape applied to a whole sub-template: the escape of a concatenation is the concatenation of the
   escapes; an identifier has nothing to escape *)
Definition esc_frag (f : frag) : frag :=
  match f with
  | Lit s => Lit (esc_q s)
  | Hole v HIdent => Hole v HIdent
  | Hole v HValue => Hole v (HEsc 1)
  | Hole v (HEsc d) => Hole v (HEsc (Datatypes.S d))
  end.
Definition esc_frags (fs : list frag) : list frag := map esc_frag fs.

(* ------------------------------------------------------------------------------------------- *)
(* characters                                                                                   *)
(* ------------------------------------------------------------------------------------------- *)
Definition is_upper (c : N) : bool := (65 <=? c) && (c <=? 90).
Definition is_lower (c : N) : bool := (97 <=? c) && (c <=? 122).
Definition is_digit (c : N) : bool := (48 <=? c) && (c <=? 57).
Definition is_idstart (c : N) : bool := is_upper c || is_lower c || (c =? 95).
Definition is_idchar (c : N) : bool := is_idstart c || is_digit c.
Definition is_space (c : N) : bool := (c =? 32) || (c =? 9) || (c =? 10) || (c =? 13).

(* the identifier grammar [A-Za-z_][A-Za-z0-9_]* of class labels, relation types and property names *)
Definition ident_okb (s : str) : bool :=
  match s with
  | [] => false
  | c :: r => is_idstart c && forallb is_idchar r
  end.

Definition lower (c : N) : N := if is_upper c then c + 32 else c.

Definition keywords : list str := map of_string
  ["match"; "optional"; "return"; "with"; "where"; "and"; "or"; "xor"; "not"; "in"; "is"; "null"; "as";
   "set"; "remove"; "delete"; "detach"; "call"; "yield"; "unwind"; "union"; "distinct"; "create"; "index";
   "if"; "exists"; "for"; "on"; "all"; "any"; "none"; "single"; "true"; "false"; "merge"; "order"; "by";
   "limit"; "skip"; "desc"; "asc"; "case"; "when"; "then"; "else"; "end"; "starts"; "ends";
   "contains"]%string.

Definition mem (x : str) (l : list str) : bool := existsb (str_eqb x) l.
Definition subset (a b : list str) : bool := forallb (fun x => mem x b) a.

(* ------------------------------------------------------------------------------------------- *)
(* scanner state                                                                                *)
(* ------------------------------------------------------------------------------------------- *)
Inductive mode := MNorm | MIdent | MSkip | MNum | MParam | MSq | MSqE | MDq | MDqE | MBt.

(* what the last significant token was (between tokens, mode MNorm) *)
Inductive prev :=
| POther
| PLabel       (* ':' outside a map: a label / relationship type follows *)
| PDot         (* '.': a property or namespace part follows *)
| PKeyOpen     (* '{' just seen: a map key or '}' follows *)
| PKeyComma    (* ',' inside a map: a map key follows *)
| PAfterKey    (* a map key was read: ':' must follow *)
| PPatOpen     (* '(' that is not a function call: a pattern variable may follow *)
| PBrack       (* '[' *)
| PKwAs | PKwMatch | PKwIndex
| PComma.

Inductive br := BParen | BBrack | BBrace.
Inductive pctx := CBind | CUse | CUseEq.   (* CUseEq: a use, unless '=' follows (path variable) *)

Record sstate := mkS {
  s_mode : mode;
  s_pv : prev;
  s_cur : str;                       (* reversed text of the identifier / parameter name being read *)
  s_stack : list br;
  s_pend : option (str * pctx);      (* last identifier, not yet classified (lookahead for '(' '.' '=') *)
  s_yield : bool;                    (* inside a YIELD list *)
  s_params : list str;
  s_uses : list str;
  s_binds : list str
}.

Definition init : sstate := mkS MNorm POther [] [] None false [] [] [].

Definition set_mode (m : mode) (s : sstate) : sstate :=
  mkS m (s_pv s) (s_cur s) (s_stack s) (s_pend s) (s_yield s) (s_params s) (s_uses s) (s_binds s).
Definition set_pv (p : prev) (s : sstate) : sstate :=
  mkS (s_mode s) p (s_cur s) (s_stack s) (s_pend s) (s_yield s) (s_params s) (s_uses s) (s_binds s).
Definition set_cur (c : str) (s : sstate) : sstate :=
  mkS (s_mode s) (s_pv s) c (s_stack s) (s_pend s) (s_yield s) (s_params s) (s_uses s) (s_binds s).
Definition set_stack (k : list br) (s : sstate) : sstate :=
  mkS (s_mode s) (s_pv s) (s_cur s) k (s_pend s) (s_yield s) (s_params s) (s_uses s) (s_binds s).
Definition set_pend (p : option (str * pctx)) (s : sstate) : sstate :=
  mkS (s_mode s) (s_pv s) (s_cur s) (s_stack s) p (s_yield s) (s_params s) (s_uses s) (s_binds s).
Definition set_yield (y : bool) (s : sstate) : sstate :=
  mkS (s_mode s) (s_pv s) (s_cur s) (s_stack s) (s_pend s) y (s_params s) (s_uses s) (s_binds s).
Definition add_param (p : str) (s : sstate) : sstate :=
  mkS (s_mode s) (s_pv s) (s_cur s) (s_stack s) (s_pend s) (s_yield s) (p :: s_params s) (s_uses s) (s_binds s).
Definition add_use (p : str) (s : sstate) : sstate :=
  mkS (s_mode s) (s_pv s) (s_cur s) (s_stack s) (s_pend s) (s_yield s) (s_params s) (p :: s_uses s) (s_binds s).
Definition add_bind (p : str) (s : sstate) : sstate :=
  mkS (s_mode s) (s_pv s) (s_cur s) (s_stack s) (s_pend s) (s_yield s) (s_params s) (s_uses s) (p :: s_binds s).

Definition is_skipctx (p : prev) : bool :=
  match p with PLabel | PDot | PKeyOpen | PKeyComma => true | _ => false end.
Definition is_keyctx (p : prev) : bool :=
  match p with PKeyOpen | PKeyComma | PAfterKey => true | _ => false end.
Definition is_keypos (p : prev) : bool :=
  match p with PKeyOpen | PKeyComma => true | _ => false end.

(* classify the pending identifier *)
Definition resolve (s : sstate) : sstate :=
  match s_pend s with
  | None => s
  | Some (w, CBind) => set_pend None (add_bind w s)
  | Some (w, _) => set_pend None (add_use w s)
  end.

Definition top_is_brace (s : sstate) : bool :=
  match s_stack s with BBrace :: _ => true | _ => false end.

Definition pop (b : br) (s : sstate) : option sstate :=
  match s_stack s, b with
  | BParen :: k, BParen => Some (set_stack k s)
  | BBrack :: k, BBrack => Some (set_stack k s)
  | BBrace :: k, BBrace => Some (set_stack k s)
  | _, _ => None
  end.

(* an identifier in variable / keyword / function position has been read completely *)
Definition end_ident (s : sstate) : sstate :=
  let w := rev (s_cur s) in
  let lw := map lower w in
  let s0 := set_cur [] (set_mode MNorm s) in
  if mem lw keywords then
    let y := if str_eqb lw (S"yield") then true else if str_eqb lw (S"as") then s_yield s else false in
    let p := if str_eqb lw (S"as") then PKwAs else if str_eqb lw (S"match") then PKwMatch
             else if str_eqb lw (S"index") then PKwIndex else POther in
    set_pv p (set_yield y s0)
  else
    match s_pv s with
    | PKwIndex => set_pv POther s0                                   (* CREATE INDEX <name> *)
    | PPatOpen | PBrack | PKwAs | PKwMatch => set_pv POther (set_pend (Some (w, CBind)) s0)
    | PComma => set_pv POther (set_pend (Some (w, if s_yield s then CBind else CUseEq)) s0)
    | _ => set_pv POther (set_pend (Some (w, if s_yield s then CBind else CUse)) s0)
    end.

(* an identifier whose text does not matter (label, property, map key) has been read completely *)
Definition end_skip (s : sstate) : sstate :=
  set_mode MNorm (set_pv (if is_keypos (s_pv s) then PAfterKey else POther) s).

(* one character between tokens *)
Definition step_norm (s : sstate) (c : N) : option sstate :=
  let p := s_pv s in
  if is_space c then Some s
  else if is_idstart c then
    if is_skipctx p then Some (set_mode MSkip s)
    else match p with
         | PAfterKey => None
         | _ => Some (set_cur [c] (set_mode MIdent (resolve s)))
         end
  else if is_keyctx p && negb ((c =? 125) || (c =? 58) || (c =? 96)) then None   (* only  }  :  `  may follow here *)
  else if is_digit c then Some (set_mode MNum (resolve s))
  else if c =? 39 then Some (set_mode MSq (resolve s))
  else if c =? 34 then Some (set_mode MDq (resolve s))
  else if c =? 96 then
    match p with
    | PAfterKey => None
    | _ => if is_skipctx p then Some (set_mode MBt s) else Some (set_mode MBt (resolve s))
    end
  else if c =? 36 then Some (set_cur [] (set_mode MParam (resolve s)))
  else if c =? 40 then
    match s_pend s with
    | Some _ => Some (set_pv POther (set_stack (BParen :: s_stack s) (set_pend None s)))      (* f( *)
    | None => Some (set_pv PPatOpen (set_stack (BParen :: s_stack s) s))
    end
  else if c =? 41 then option_map (set_pv POther) (pop BParen (resolve s))
  else if c =? 91 then let s1 := resolve s in Some (set_pv PBrack (set_stack (BBrack :: s_stack s1) s1))
  else if c =? 93 then option_map (set_pv POther) (pop BBrack (resolve s))
  else if c =? 123 then let s1 := resolve s in Some (set_pv PKeyOpen (set_stack (BBrace :: s_stack s1) s1))
  else if c =? 125 then
    match p with
    | PAfterKey | PKeyComma => None                                   (* "{name}" residue / trailing comma *)
    | _ => option_map (set_pv POther) (pop BBrace (resolve s))
    end
  else if c =? 58 then
    match p with
    | PAfterKey => Some (set_pv POther s)
    | PKeyOpen | PKeyComma => None
    | _ => let s1 := resolve s in Some (set_pv (if top_is_brace s1 then POther else PLabel) s1)
    end
  else if c =? 44 then let s1 := resolve s in Some (set_pv (if top_is_brace s1 then PKeyComma else PComma) s1)
  else if c =? 46 then
    Some (set_pv PDot (set_pend (match s_pend s with Some (w, CUseEq) => Some (w, CUse) | x => x end) s))
  else if c =? 61 then
    match s_pend s with
    | Some (w, CUseEq) => Some (set_pv POther (set_pend None (add_bind w s)))
    | _ => Some (set_pv POther (resolve s))
    end
  else Some (set_pv POther (resolve s)).

Definition step (s : sstate) (c : N) : option sstate :=
  match s_mode s with
  | MNorm => step_norm s c
  | MIdent => if is_idchar c then Some (set_cur (c :: s_cur s) s) else step_norm (end_ident s) c
  | MSkip => if is_idchar c then Some s else step_norm (end_skip s) c
  | MNum => if is_idchar c then Some s else step_norm (set_pv POther (set_mode MNorm s)) c
  | MParam => if is_idchar c then Some (set_cur (c :: s_cur s) s)
              else match s_cur s with
                   | [] => None
                   | _ => step_norm (set_pv POther (set_cur [] (set_mode MNorm (add_param (rev (s_cur s)) s)))) c
                   end
  | MSq => if c =? 92 then Some (set_mode MSqE s) else if c =? 39 then Some (set_pv POther (set_mode MNorm s)) else Some s
  | MSqE => Some (set_mode MSq s)
  | MDq => if c =? 92 then Some (set_mode MDqE s) else if c =? 34 then Some (set_pv POther (set_mode MNorm s)) else Some s
  | MDqE => Some (set_mode MDq s)
  | MBt => if c =? 96 then Some (set_mode MSkip s) else Some s
  end.

Fixpoint scan (s : sstate) (t : str) : option sstate :=
  match t with
  | [] => Some s
  | c :: r => match step s c with Some s' => scan s' r | None => None end
  end.

(* end of text: a virtual blank terminates the last token *)
Definition accept (s : sstate) (params : list str) : bool :=
  match step s 32 with
  | None => false
  | Some s1 =>
      let s2 := resolve s1 in
      match s_mode s2, s_stack s2 with
      | MNorm, [] => subset (s_params s2) params && subset (s_uses s2) (s_binds s2)
      | _, _ => false
      end
  end.

Definition wf_b (text : str) (params : list str) : bool :=
  match scan init text with
  | Some s => accept s params
  | None => false
  end.

(* the components of the verdict, for the correspondence with the independent checker *)
Definition structure_b (text : str) : bool :=          (* quotes, brackets, residue only *)
  match scan init text with
  | Some s => match step s 32 with
              | Some s1 => match s_mode s1, s_stack s1 with MNorm, [] => true | _, _ => false end
              | None => false
              end
  | None => false
  end.

Definition final_state (text : str) : option sstate :=
  match scan init text with
  | Some s => match step s 32 with Some s1 => Some (resolve s1) | None => None end
  | None => None
  end.

(* ------------------------------------------------------------------------------------------- *)
(* the checker on templates                                                                     *)
(* ------------------------------------------------------------------------------------------- *)
Definition hole_ok (s : sstate) : bool :=
  match s_mode s with
  | MSkip => true
  | MNorm => is_skipctx (s_pv s)
  | _ => false
  end.

Definition hole_next (s : sstate) : sstate := set_mode MSkip s.

Fixpoint tscan (s : sstate) (fs : list frag) : option sstate :=
  match fs with
  | [] => Some s
  | Lit t :: r => match scan s t with Some s' => tscan s' r | None => None end
  | Hole _ HIdent :: r => if hole_ok s then tscan (hole_next s) r else None
  | Hole _ HValue :: _ => None
  | Hole _ (HEsc d) :: r =>               (* escaped at least once, and inside a quoted literal *)
      match d, s_mode s with
      | Datatypes.S _, MSq => tscan s r
      | Datatypes.S _, MDq => tscan s r
      | _, _ => None
      end
  end.

Definition tmpl_ok (t : tmpl) : bool :=
  t_params_known t &&
  match tscan init (t_frags t) with
  | Some s => accept s (t_params t)
  | None => false
  end.

(* identifier-class holes are filled with identifiers *)
Definition idents_ok (fs : list frag) (e : env) : Prop :=
  forall v, In v (ident_vars fs) -> ident_okb (e v) = true.
Definition idents_okb (fs : list frag) (e : env) : bool :=
  forallb (fun v => ident_okb (e v)) (ident_vars fs).
Definition agree_on (vs : list N) (e e' : env) : Prop := forall v, In v vs -> e v = e' v.

(* ------------------------------------------------------------------------------------------- *)
(* the alternative the property allows: a value rendered as a correctly escaped quoted literal  *)
(* ------------------------------------------------------------------------------------------- *)
Definition quoted_literal (v : str) : str := 39 :: esc_q v ++ [39].

(* a template inside an escaped literal of another one (items of the two fragment lists, literal text exploded
   into characters so that the merging of adjacent literal pieces does not matter) *)
Inductive item := IChar (c : N) | IHole (v : N) (k : hkind).
Fixpoint items (fs : list frag) : list item :=
  match fs with
  | [] => []
  | Lit s :: r => map IChar s ++ items r
  | Hole v k :: r => IHole v k :: items r
  end.
Definition hkind_eqb (a b : hkind) : bool :=
  match a, b with
  | HIdent, HIdent => true
  | HValue, HValue => true
  | HEsc x, HEsc y => Nat.eqb x y
  | _, _ => false
  end.
Definition item_eqb (a b : item) : bool :=
  match a, b with
  | IChar x, IChar y => x =? y
  | IHole v k, IHole w l => (v =? w) && hkind_eqb k l
  | _, _ => false
  end.
Fixpoint prefixb (a b : list item) : bool :=
  match a, b with
  | [], _ => true
  | x :: a', y :: b' => item_eqb x y && prefixb a' b'
  | _ :: _, [] => false
  end.
Fixpoint infixb (a b : list item) : bool :=
  prefixb a b || match b with [] => false | _ :: b' => infixb a b' end.
(* the parent's fragments contain the escaped fragments of the nested template *)
Definition nested_in (nested parent : list frag) : bool := infixb (items (esc_frags nested)) (items parent).

(* known findings (operations whose statement still interpolates a value; see known_findings.d/C19.json) *)
Definition known_ops : list str := map of_string
  ["Neo4jPropertyGraph.serialize_graph";
   "Neo4jCBMGraph.get_matching_nodes_with_components"]%string.
Definition excused (t : tmpl) : bool := mem (t_op t) known_ops && has_value_hole (t_frags t).

(* ------------------------------------------------------------------------------------------- *)
(* the property, per template                                                                    *)
(* ------------------------------------------------------------------------------------------- *)
(* for every filling of the identifier holes with identifiers and every two assignments of stored values:
   the statement is well-formed for both; the scanner ends in the same state (the texts can differ inside
   correctly escaped literals only); and without escaped literals the texts are equal *)
Definition conforms (t : tmpl) : Prop :=
  forall e e', idents_ok (t_frags t) e -> agree_on (ident_vars (t_frags t)) e e' ->
  (has_esc_hole (t_frags t) = false -> render (t_frags t) e = render (t_frags t) e') /\
  scan init (render (t_frags t) e) = scan init (render (t_frags t) e') /\
  wf_b (render (t_frags t) e) (t_params t) = true /\ wf_b (render (t_frags t) e') (t_params t) = true.

Definition refuted_by_value (t : tmpl) : Prop :=
  exists e e', idents_ok (t_frags t) e /\ agree_on (ident_vars (t_frags t)) e e' /\
               render (t_frags t) e <> render (t_frags t) e' /\
               wf_b (render (t_frags t) e') (t_params t) = false.

Definition find_by_id (ts : list tmpl) (i : N) : option tmpl := find (fun t => t_id t =? i) ts.

(* a statement inside an escaped literal of another statement: it is a template of its own (checked like any
   other, with no parameters: the server side runs it by itself) and the parent really contains its escape *)
Definition nested_pair_ok (ts : list tmpl) (p : N * N) : bool :=
  match find_by_id ts (fst p), find_by_id ts (snd p) with
  | Some tn, Some tp => nested_in (t_frags tn) (t_frags tp)
  | _, _ => false
  end.

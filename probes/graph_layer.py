"""Replays of defects found in the in-memory graph layer (each prints VIOLATES/ok)."""
import sys, logging
logging.disable(logging.CRITICAL)
import networkx as nx
from fim.graph.networkx_property_graph import NetworkXGraphImporter, NetworkXPropertyGraph
from fim.graph.networkx_property_graph_disjoint import NetworkXGraphImporterDisjoint, NetworkXPropertyGraphDisjoint


def mk(imp, cls, gid):
    imp.delete_all_graphs()
    return cls(graph_id=gid, importer=imp)


def c06_rel2():
    g = mk(NetworkXGraphImporter(), NetworkXPropertyGraph, 'g')
    for n, c in (('a', 'N'), ('b', 'NS'), ('c', 'CP'), ('d', 'CP')):
        g.add_node(node_id=n, label=c)
    g.add_link(node_a='a', rel='has', node_b='b')
    g.add_link(node_a='b', rel='connects', node_b='c')
    g.add_link(node_a='b', rel='has', node_b='d')
    r = g.get_first_and_second_neighbor(node_id='a', rel1='has', node1_label='NS', rel2='connects', node2_label='CP')
    return sorted(map(tuple, r)) != [('b', 'c')], r


def c06_shortest():
    g = mk(NetworkXGraphImporter(), NetworkXPropertyGraph, 'g')
    for n in 'abc':
        g.add_node(node_id=n, label='N')
    g.add_link(node_a='a', rel='has', node_b='b')
    g.add_link(node_a='b', rel='connects', node_b='c')
    try:
        r = g.get_nodes_on_shortest_path(node_a='a', node_z='b', rel='has')
        return r != ['a', 'b'], r
    except Exception as e:
        return True, repr(e)


def c05_dup_nodeid():
    out = []
    for imp, cls in ((NetworkXGraphImporter(), NetworkXPropertyGraph), (NetworkXGraphImporterDisjoint(), NetworkXPropertyGraphDisjoint)):
        g = mk(imp, cls, 'g')
        g.add_node(node_id='a', label='N')
        try:
            g.add_node(node_id='a', label='M')
            out.append('accepted')
        except Exception as e:
            out.append(type(e).__name__)
    return 'accepted' in out, out


def c20_double_release():
    imp = NetworkXGraphImporterDisjoint()
    imp.delete_all_graphs()
    G = nx.Graph(); G.add_node(1, NodeID='a', Class='N')
    out = []
    try:
        imp.storage.add_graph('g', G)
        imp.storage.add_graph('g', G)
        out.append('ok')
    except RuntimeError as e:
        out.append(repr(e))
    out.append('locked' if imp.storage.lock.locked() else 'free')
    # delete then re-import must bring the graph back
    imp.delete_all_graphs()
    try:
        imp.storage.add_graph('h', G); imp.storage.del_graph('h'); imp.storage.add_graph('h', G)
        out.append(len(imp.storage.get_graph('h').nodes))
    except RuntimeError as e:
        out.append(repr(e))
    return out != ['ok', 'free', 1], out


if __name__ == '__main__':
    for f in (c06_rel2, c06_shortest, c05_dup_nodeid, c20_double_release):
        v, d = f()
        print('%-22s %s %s' % (f.__name__, 'VIOLATES' if v else 'ok', d))

"""Small helpers shared by the translators: locating classes/methods in the repository's source and
translating rigid Python expression shapes to Gallina text (shallow embedding).  Fail-closed: anything
unrecognised raises Untranslatable, which the caller turns into `gen_ok := false`."""
import ast, os


class Untranslatable(Exception):
    pass


def parse_file(repo, rel):
    with open(os.path.join(repo, rel)) as f:
        src = f.read()
    return ast.parse(src, filename=rel), src


def find_class(mod, name):
    for n in mod.body:
        if isinstance(n, ast.ClassDef) and n.name == name:
            return n
    raise Untranslatable('class %s not found' % name)


def find_method(cls, name, required=True):
    for n in cls.body:
        if isinstance(n, (ast.FunctionDef,)) and n.name == name:
            return n
    if required:
        raise Untranslatable('method %s.%s not found' % (cls.name, name))
    return None


def find_assign(cls_or_mod, name):
    for n in cls_or_mod.body:
        if isinstance(n, ast.Assign) and len(n.targets) == 1 and isinstance(n.targets[0], ast.Name) \
                and n.targets[0].id == name:
            return n.value
        if isinstance(n, ast.AnnAssign) and isinstance(n.target, ast.Name) and n.target.id == name:
            return n.value
    raise Untranslatable('assignment %s not found' % name)


def body_nodoc(fn):
    b = fn.body
    if b and isinstance(b[0], ast.Expr) and isinstance(getattr(b[0], 'value', None), ast.Constant) \
            and isinstance(b[0].value.value, str):
        b = b[1:]
    return b


def src(node):
    return ast.unparse(node)


def coq_string(s):
    assert all(32 <= ord(c) < 127 for c in s), s
    return '"' + s.replace('"', '""') + '"%string'


def coq_codepoints(s):
    return '[' + ';'.join(str(ord(c)) for c in s) + ']%N'


def coq_list(items):
    return '[' + '; '.join(items) + ']'


def zexpr(node, env):
    """Python int expression -> Gallina Z expression.  env: unparsed-python-text -> Gallina variable."""
    t = src(node)
    if t in env:
        return env[t]
    if isinstance(node, ast.Constant) and isinstance(node.value, int) and not isinstance(node.value, bool):
        return '(%d)' % node.value
    if isinstance(node, ast.BinOp):
        ops = {ast.Add: '+', ast.Sub: '-', ast.Mult: '*'}
        if type(node.op) in ops:
            return '(%s %s %s)' % (zexpr(node.left, env), ops[type(node.op)], zexpr(node.right, env))
        if isinstance(node.op, ast.Pow) and isinstance(node.right, ast.Constant) and isinstance(node.left, ast.Constant):
            return '(%d)' % (node.left.value ** node.right.value)
    if isinstance(node, ast.UnaryOp) and isinstance(node.op, ast.USub):
        return '(- %s)' % zexpr(node.operand, env)
    raise Untranslatable('int expression ' + t)


CMP = {ast.Lt: '<?', ast.LtE: '<=?', ast.Gt: '>?', ast.GtE: '>=?', ast.Eq: '=?'}


def bexpr(node, env):
    """Python boolean expression over ints -> Gallina bool expression"""
    if isinstance(node, ast.Constant) and isinstance(node.value, bool):
        return 'true' if node.value else 'false'
    if isinstance(node, ast.Compare):
        parts = []
        left = node.left
        for op, right in zip(node.ops, node.comparators):
            l, r = zexpr(left, env), zexpr(right, env)
            if type(op) in CMP:
                parts.append('(%s %s %s)' % (l, CMP[type(op)], r))
            elif isinstance(op, ast.NotEq):
                parts.append('(negb (%s =? %s))' % (l, r))
            else:
                raise Untranslatable('comparison ' + src(node))
            left = right
        return '(' + ' && '.join(parts) + ')'
    if isinstance(node, ast.BoolOp):
        op = ' && ' if isinstance(node.op, ast.And) else ' || '
        return '(' + op.join(bexpr(v, env) for v in node.values) + ')'
    if isinstance(node, ast.UnaryOp) and isinstance(node.op, ast.Not):
        return '(negb %s)' % bexpr(node.operand, env)
    if isinstance(node, ast.IfExp):
        return '(if %s then %s else %s)' % (bexpr(node.test, env), bexpr(node.body, env), bexpr(node.orelse, env))
    raise Untranslatable('bool expression ' + src(node))


def expect(cond, what):
    if not cond:
        raise Untranslatable(what)

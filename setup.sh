#!/bin/bash
# Build the whole Coq development from files on disk (offline). Regenerates coq/Gen from /repo first.
cd "$(dirname "$0")"
export PYTHONHASHSEED=0 PYTHONPATH="${VERIF_REPO:-/repo}" PYTHONDONTWRITEBYTECODE=1
/venv/bin/python -W ignore -m harness.setup_all 2> >(grep -v conda >&2)

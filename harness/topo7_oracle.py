"""C07 independent oracle: the published graph rules (fim/graph/data/graph_validation_rules.json) and the
containment structure named by the property statement, transliterated to Python over the canonical
snapshot of storage.extract_graph -- no reference to the Coq model.  Also the expected contents of the
read-only views computed from the snapshot's class listings."""
import json, os, re
from collections import defaultdict

NODE, COMP, NS, CP, LINK, CNODE = 'NetworkNode', 'Component', 'NetworkService', 'ConnectionPoint', 'Link', 'CompositeNode'


def load_vocab(repo):
    """class list and per-class type vocabulary from the IN [...] lists of the rules file"""
    with open(os.path.join(repo, 'fim/graph/data/graph_validation_rules.json')) as f:
        rules = json.load(f)
    classes, types = None, {}
    for r in rules:
        q = r['rule']
        m = re.search(r'r\.Class IN \[(.*?)\]', q)
        if m:
            classes = re.findall(r'"([^"]+)"', m.group(1))
        m = re.search(r'MATCH \(n:(\w+) \{GraphID: \$graphId\}\) RETURN ALL\(r IN collect\(n\) WHERE r\.Type IN \[(.*?)\]\)', q)
        if m:
            types[m.group(1)] = re.findall(r'"([^"]+)"', m.group(2))
    return classes, types


class G:
    def __init__(self, snap):
        self.nodes = snap['nodes']
        self.edges = snap['edges']
        self.by_id = defaultdict(list)
        for n in self.nodes:
            self.by_id[n[0]].append(n)
        self.adj = defaultdict(list)
        for a, b, r in self.edges:
            self.adj[a].append((b, r))
            if a != b:
                self.adj[b].append((a, r))

    def cls(self, i):
        return self.by_id[i][0][1] if self.by_id.get(i) else None

    def typ(self, i):
        return self.by_id[i][0][2] if self.by_id.get(i) else None

    def name(self, i):
        return self.by_id[i][0][3] if self.by_id.get(i) else None

    def nb(self, i, rel, cls):
        return [j for (j, r) in self.adj.get(i, []) if r == rel and self.cls(j) == cls]

    def ids(self, cls):
        return [n[0] for n in self.nodes if n[1] == cls]

    def cp_owners(self, i):
        own = self.nb(i, 'connects', NS)
        if self.typ(i) == 'SubInterface':
            own = own + [j for j in self.nb(i, 'connects', CP) if self.typ(j) != 'SubInterface']
        return own

    def has_owner(self, i):
        return [j for (j, r) in self.adj.get(i, []) if r == 'has' and (
            (self.cls(i) == COMP and self.cls(j) in (NODE, CNODE)) or
            (self.cls(i) == NS and self.cls(j) in (NODE, CNODE, COMP)))]

    def peers(self, i):
        out = []
        for l in self.nb(i, 'connects', LINK):
            out += [(l, y) for y in self.nb(l, 'connects', CP) if y != i]
        return out

    def scope(self, i):
        c = self.cls(i)
        if c in (NODE, LINK, CNODE):
            return (c, None)
        if c in (COMP, NS):
            o = self.has_owner(i)
            return (c, tuple(sorted(o)) if o else None)
        if c == CP:
            return (c, tuple(sorted(self.cp_owners(i))))
        return (c, None)


def rule_violations(snap, vocab):
    """list of (tag, text); tag is stable, used in known-finding signatures"""
    classes, types = vocab
    g = G(snap)
    out = []
    for n in g.nodes:
        if any(x is None for x in n[:4]):
            out.append(('R1:missing-field', 'node %r lacks id/class/type/name' % (n,)))
    for n in g.nodes:
        if n[1] not in classes:
            out.append(('R2:class-vocab', 'node %s has class %r' % (n[0], n[1])))
        elif n[1] in types and n[2] is not None and n[2] not in types[n[1]]:
            out.append(('R2:type-vocab:%s:%s' % (n[1], n[2]), 'node %s of class %s has type %r outside the published vocabulary' % (n[0], n[1], n[2])))
    for i, l in g.by_id.items():
        if len(l) > 1:
            out.append(('R3:duplicate-id', 'id %s used by %d nodes' % (i, len(l))))
    for (a, b, r) in g.edges:
        if not g.by_id.get(a) or not g.by_id.get(b):
            out.append(('R0:dangling-edge', 'edge %r' % ((a, b, r),)))
    for i in g.ids(COMP):
        o = g.has_owner(i)
        if len(o) != 1:
            out.append(('R4:component-owner', 'component %s has %d owning nodes' % (i, len(o))))
    for i in g.ids(CP):
        o = g.cp_owners(i)
        if len(o) != 1:
            out.append(('R5:interface-owner', 'interface %s (%s) has %d owners' % (i, g.typ(i), len(o))))
        for j in g.nb(i, 'connects', CP):
            if (g.typ(i) == 'SubInterface') == (g.typ(j) == 'SubInterface'):
                out.append(('R5:subinterface-shape', 'interfaces %s and %s joined directly' % (i, j)))
    for i in g.ids(LINK):
        for (j, r) in g.adj.get(i, []):
            if g.cls(j) != CP or r != 'connects':
                out.append(('R6:link-end', 'link %s joins %s of class %s via %s' % (i, j, g.cls(j), r)))
    for i in g.ids(CP):
        if g.typ(i) == 'ServicePort':
            p = g.peers(i)
            if len(p) != 1:
                out.append(('R7:serviceport-peers', 'service port %s has %d peers' % (i, len(p))))
    seen = {}
    for n in g.nodes:
        if n[3] is None:
            continue
        k = (g.scope(n[0]), n[3])
        if k in seen and seen[k] != n[0]:
            out.append(('R8:name-not-unique:%s' % n[1], 'name %r used by %s and %s in scope %r' % (n[3], seen[k], n[0], k[0])))
        seen[k] = n[0]
    return out


def expected_views(snap):
    g = G(snap)
    nodes = sorted(i for i in g.ids(NODE) if g.typ(i) != 'Facility')
    facs = sorted(i for i in g.ids(NODE) if g.typ(i) == 'Facility')

    def node_ifs(n):
        out = []
        for s in g.nb(n, 'has', NS):
            out += g.nb(s, 'connects', CP)
        for c in g.nb(n, 'has', COMP):
            for s in g.nb(c, 'has', NS):
                out += g.nb(s, 'connects', CP)
        return sorted(out)
    il = []
    for n in nodes:
        il += node_ifs(n)
    per = sorted([n, sorted(g.nb(n, 'has', COMP)), sorted(g.nb(n, 'has', NS)), node_ifs(n)] for n in nodes + facs)
    return {'nodes': nodes, 'facilities': facs, 'links': sorted(g.ids(LINK)),
            'network_services': sorted(g.ids(NS)), 'interface_list': sorted(il), 'per_node': per}


def view_violations(snap, views):
    if 'error' in views:
        return [('V:view-raises', 'a view raised %s' % views['error'])]
    exp = expected_views(snap)
    out = []
    for k in ('nodes', 'facilities', 'links', 'network_services', 'interface_list', 'per_node'):
        if views.get(k) != exp[k]:
            out.append(('V:%s' % k, 'view %s lists %r, the model holds %r' % (k, views.get(k), exp[k])))
    return out


# ------------------------------------------------------------------------------------------------
# which recorded defect (if any) a call can trigger, decided from the state BEFORE the call
# ------------------------------------------------------------------------------------------------

def defect_classes(pre, op):
    g = G(pre)
    kind, a = op[1], op[2:]
    out = []

    def sub_peered_under(ifs):
        for i in ifs:
            for ch in g.nb(i, 'connects', CP):
                if g.typ(ch) == 'SubInterface' and g.peers(ch):
                    return True
        return False

    def ifs_of_ns(s):
        return g.nb(s, 'connects', CP)

    def ifs_of_node(n):
        r = []
        for s in g.nb(n, 'has', NS):
            r += ifs_of_ns(s)
        for c in g.nb(n, 'has', COMP):
            for s in g.nb(c, 'has', NS):
                r += ifs_of_ns(s)
        return r
    if kind == 'rename' or (kind == 'set_prop' and a[1] == 'name'):
        new = a[1] if kind == 'rename' else a[2]
        if any(n[3] == new and n[0] != a[0][1] for n in g.nodes):
            out.append('name-collision')
    if kind == 'set_prop' and a[1] == 'names':
        # set_properties(name=...) does not run the uniqueness check of set_property / rename
        if any(n[3] == a[2] and n[0] != a[0][1] for n in g.nodes):
            out.append('props-name-collision')
    if kind == 'remove_link':
        for l in g.ids(LINK):
            if g.name(l) == a[0] and any(g.typ(c) == 'ServicePort' for c in g.nb(l, 'connects', CP)):
                out.append('strands')
    if kind in ('remove_node', 'remove_facility', 'remove_switch', 'remove_component'):
        # a service OWNED by the removed node / component carries service ports (peer() or connect_interface on a
        # node- or component-level service): the disconnect loop walks them as if they were node interfaces
        owned = []
        if kind == 'remove_component':
            for c in g.nb(a[0], 'has', COMP):
                if g.name(c) == a[1]:
                    for sv in g.nb(c, 'has', NS):
                        owned += ifs_of_ns(sv)
        else:
            for n in g.ids(NODE):
                if g.name(n) == a[0]:
                    owned += ifs_of_node(n)
        if any(g.typ(i) == 'ServicePort' for i in owned):
            out.append('owned-serviceport')
    if kind == 'add_link' and any(g.cls(i) is not None and g.cls(i) != CP for i in a[3]):
        out.append('link-non-interface')       # add_link handed an element that is not an interface
    if kind == 'disconnect' and g.typ(a[1]) == 'ServicePort' and any(g.typ(y) == 'ServicePort' for (_, y) in g.peers(a[1])):
        out.append('peering-port')             # disconnect_interface handed a peering port
    if kind == 'stale_add_iface':
        out.append('stale-handle')             # add_interface through the handle of a removed service
    if kind == 'peer':
        # peer checks neither that the two services differ nor that the derived link name <a>-<b>-link is free
        if a[0] == a[1]:
            out.append('self-peer')
        na, nb = g.name(a[0]), g.name(a[1])
        if na is not None and nb is not None and (na + '-' + nb + '-link') in [g.name(l) for l in g.ids(LINK)]:
            out.append('peer-link-name')
    if kind in ('connect', 'add_ns', 'add_pm'):
        # connect_interface derives the names of the service port and of the link from <owner node>-<interface>
        def owner_name(i):
            seen = 0
            while g.typ(i) == 'SubInterface' and seen < 4:
                ps = [j for j in g.nb(i, 'connects', CP) if g.typ(j) != 'SubInterface']
                if len(ps) != 1:
                    return None
                i, seen = ps[0], seen + 1
            ss = g.nb(i, 'connects', NS)
            if len(ss) != 1:
                return None
            o = g.has_owner(ss[0])
            if len(o) != 1:
                return None
            if g.cls(o[0]) == COMP:
                o = g.has_owner(o[0])
                if len(o) != 1:
                    return None
            return g.name(o[0])
        if kind == 'connect':
            svc, ifs = a[0], [a[1]]
            have = [g.name(c) for c in g.nb(svc, 'connects', CP)]
        elif kind == 'add_ns':
            ifs, have = a[3], []
        else:
            ifs, have = [a[3]], []
        links = [g.name(l) for l in g.ids(LINK)]
        for i in ifs:
            on = owner_name(i)
            if on is None or g.name(i) is None:
                continue
            pn = on + '-' + g.name(i)
            if pn in have or (pn + '-link') in links:
                out.append('derived-name')
            have.append(pn)
            links.append(pn + '-link')
    return out


def post_classes(post):
    """properties of the state AFTER the call that explain a view finding"""
    g = G(post)
    seen = {}
    for s in g.ids(NS):
        nm = g.name(s)
        if nm in seen and seen[nm] != tuple(g.has_owner(s)):
            return ['cross-scope-names']
        seen.setdefault(nm, tuple(g.has_owner(s)))
    return []



"""C01 - model serialization round trip is lossless and re-importable.

One case = a short history on a fresh in-memory store: load one or two graphs, serialize one of them
(GraphML or node-link JSON), import the text through one of the four entry points, read every graph
of interest back and serialize the imported copy again.  The Coq model (Model/Serial1*.v) predicts all
observations; the oracle below restates the property over the implementation's observations only.
"""
import sys, os, json, copy, tempfile, itertools
import xml.etree.ElementTree as ET
from . import common
from .common import *

NS = '{http://graphml.graphdrawing.org/xmlns}'
JSON_TEXT_LIMIT = 40000
RESERVED = {'GraphID': 0, 'NodeID': 1, 'Class': 2, 'id': 3, 'source': 4, 'target': 5}
TYPES = {'string': 'TString', 'long': 'TLong', 'boolean': 'TBoolean'}
EPS = ['EString', 'EStringDirect', 'EFile', 'EFileDirect']
FMTS = ['GraphMLFmt', 'JsonFmt']


# ------------------------------------------------------------------------------------------------
# interning of property names, Coq printers
# ------------------------------------------------------------------------------------------------
class Names:
    def __init__(self):
        self.t = dict(RESERVED)

    def __call__(self, name):
        if name not in self.t:
            self.t[name] = 10 + len(self.t) - len(RESERVED)
        return cN(self.t[name])

    def table(self):
        """the interning table as a Coq term: list (pname * str)"""
        return clist(['(%s, %s)' % (cN(v), cstr(k)) for k, v in self.t.items()])


def c_pval(v):
    if isinstance(v, bool):
        return 'PBool ' + cbool(v)
    if isinstance(v, int):
        return 'PInt ' + cZ(v)
    if isinstance(v, str):
        return 'PStr ' + cstr(v)
    raise TypeError('value outside the modelled domain: %r' % (v,))


def c_props(d, nm):
    return clist(['(%s, %s)' % (nm(k), c_pval(v)) for k, v in d.items()])


def c_graph(g, nm):
    ns = clist(['(%s, %s)' % (cN(k), c_props(d, nm)) for k, d in g['nodes']])
    es = clist(['(%s, %s, %s)' % (cN(u), cN(v), c_props(d, nm)) for u, v, d in g['edges']])
    return '{| g_nodes := %s; g_edges := %s |}' % (ns, es)


def c_ostr(s):
    return copt(s, cstr)


def c_opval(v):
    return 'None' if v is None else '(Some (%s))' % c_pval(v)


def c_res(r):
    if r is None:
        return 'None'
    if r[0] == 'ok':
        return '(ROk %s)' % cstr(r[1])
    if r[0] == 'import':
        return 'RErrImport'
    return 'RUnsupported'          # any other exception: the model never predicts it


def c_ser(o, nm):
    if o is None:
        return 'None'
    k = o['kind']
    if k == 'absent':
        return 'SAbsent'
    if k == 'err' or k == 'unparsable':
        return 'SErr'
    if k == 'json':
        return '(SJsonReal %s)' % cstr(o['text']) if o.get('text') is not None else 'SJsonText'
    d = o['doc']
    keys = clist(['(%s, %s, %s)' % (nm(n), TYPES.get(t, 'TOther'), 'ForNode' if f == 'node' else 'ForEdge')
                  for n, t, f in d['keys']])
    rd = lambda l: clist(['(%s, %s, %s)' % (nm(n), TYPES.get(t, 'TOther'), cstr(x)) for n, t, x in l])
    nodes = clist(['(%s, %s)' % (c_ostr(lab), rd(data)) for lab, data in d['nodes']])
    edges = clist(['(%s, %s, %s, %s)' % (c_ostr(a), c_ostr(b), c_ostr(lab), rd(data)) for a, b, lab, data in d['edges']])
    return '(SDoc {| r_keys := %s; r_nodes := %s; r_edges := %s |})' % (keys, nodes, edges)


def c_content(c, nm):
    if c is None:
        return 'None'
    ns = clist([c_props(d, nm) for d in c['nodes']])
    es = clist(['(%s, %s, %s)' % (c_opval(a), c_opval(b), c_props(d, nm)) for a, b, d in c['edges']])
    return '(Some (%s, %s))' % (ns, es)


# ------------------------------------------------------------------------------------------------
# independent reading of the serialized text
# ------------------------------------------------------------------------------------------------
def parse_graphml(text):
    """the real GraphML text -> {'keys': [(name,type,for)], 'nodes': [(labels, [(name,type,text)])],
    'edges': [(NodeID text of end, NodeID text of end, label, data)]}; raises on anything unexpected"""
    root = ET.fromstring(text)
    assert root.tag == NS + 'graphml', root.tag
    keys = {}
    for k in root.findall(NS + 'key'):
        assert k.get('id') not in keys
        keys[k.get('id')] = (k.get('attr.name'), k.get('attr.type'), k.get('for'))
    assert sorted(keys) == sorted('d%d' % i for i in range(len(keys))), sorted(keys)
    graphs = root.findall(NS + 'graph')
    assert len(graphs) == 1 and graphs[0].get('edgedefault') == 'undirected'
    gr = graphs[0]

    def data(el, scope):
        out = []
        for d in el.findall(NS + 'data'):
            n, t, f = keys[d.get('key')]
            assert f == scope, (f, scope)
            assert len(list(d)) == 0
            out.append((n, t, d.text or ''))
        return out
    nodes, byid = [], {}
    for n in gr.findall(NS + 'node'):
        assert set(n.keys()) <= {'id', 'labels'}, n.keys()
        dd = data(n, 'node')
        nid = [x for (nn, t, x) in dd if nn == 'NodeID']
        assert n.get('id') not in byid
        byid[n.get('id')] = nid[0] if nid else None
        nodes.append((n.get('labels'), dd))
    edges = []
    for e in gr.findall(NS + 'edge'):
        assert set(e.keys()) <= {'source', 'target', 'label'}, e.keys()
        edges.append((byid[e.get('source')], byid[e.get('target')], e.get('label'), data(e, 'edge')))
    return {'keys': [keys['d%d' % i] for i in range(len(keys))], 'nodes': nodes, 'edges': edges}


def parse_json(text):
    """node-link JSON text -> canonical content [(attrs)], [(NodeID, NodeID, attrs)]"""
    d = json.loads(text)
    assert d['directed'] is False and d['multigraph'] is False
    byid = {}
    nodes = []
    for n in d['nodes']:
        a = {k: v for k, v in n.items() if k != 'id'}
        byid[n['id']] = a.get('NodeID')
        nodes.append(a)
    edges = []
    for e in d['edges']:
        a = {k: v for k, v in e.items() if k not in ('source', 'target')}
        edges.append((byid[e['source']], byid[e['target']], a))
    return {'nodes': nodes, 'edges': edges}


def content_of(g):
    """nx graph -> canonical content (internal ids dropped)"""
    if g is None:
        return None
    nodes = [dict(d) for _, d in g.nodes(data=True)]
    edges = [(g.nodes[u].get('NodeID'), g.nodes[v].get('NodeID'), dict(d)) for u, v, d in g.edges(data=True)]
    return {'nodes': nodes, 'edges': edges}


def typed(v):
    """a value with its Python type made explicit (True == 1 in Python)"""
    return (type(v).__name__, v)


def canon_content(c, drop=()):
    """order-free, typed form of a content, optionally without some node properties"""
    if c is None:
        return None
    td = lambda d: tuple(sorted((k, typed(v)) for k, v in d.items() if k not in drop))
    nodes = sorted((td(d) for d in c['nodes']), key=repr)
    edges = sorted(((tuple(sorted([repr(typed(a)), repr(typed(b))])), tuple(sorted((k, typed(v)) for k, v in d.items())))
                    for a, b, d in c['edges']), key=repr)
    return (nodes, edges)


# ------------------------------------------------------------------------------------------------
# value / graph generators
# ------------------------------------------------------------------------------------------------
PIECES = ['', ' ', '  ', 'a', 'abc', 'x y', '"', "'", '<', '>', '&', '&amp;', '&lt;', '&#13;', '&#10;', '&#x41;', ']]>',
          '<!--', '-->', '<a b="c">', '\t', '\n', '\n\n', ' \n ', 'é', 'ß', ' ', ' ', '\u0085', ' ',
          '\U0001F600', '\U0010FFFF', '�', '퟿', '', '\U00010000', '\x7f', '\x20', '{"core": 4, "ram": 8}',
          '{"bdf": ["0000:41:00.0", "0000:41:00.1"]}', 'None', 'true', 'False', '0', '-1', ';', '#', '&#', '&;', '%', '\\',
          '\\n', '\\r', '/', '=', 'd0', 'key', ':GraphNode:', '中文', 'абв', '<graphml', '<?xml version="1.0"?>', '{"directed": false, "nodes": [']
CR_PIECES = ['\r', '\r\n', 'a\rb', '\n\r', '\r\r', ' \r']
ILLEGAL_PIECES = ['\x0b', '\x0c', '\x1c', '\x1e', '\x00', '\x01', '\x1f', '\x08', '\ud800', '\udfff', '￾', '￿']
INTS = [0, 1, -1, 7, 42, -7, 1000000, 10 ** 20, -(10 ** 19), 2 ** 63]
CLASSES_N = ['NetworkNode', 'Component', 'NetworkService', 'ConnectionPoint', 'Link', 'CompositeNode']
CLASSES_E = ['has', 'connects', 'depends', 'peers']
PNAMES = ['Name', 'Type', 'Model', 'Capacities', 'Labels', 'Site', 'StitchNode', 'Details', 'Layer', 'p', 'q', 'UserData']


def gen_string(rng, p_cr=0.0, p_bad=0.0):
    k = rng.choice([0, 1, 1, 2, 2, 3, 4])
    parts = [rng.choice(PIECES) for _ in range(k)]
    if rng.random() < p_cr:
        parts.insert(rng.randrange(len(parts) + 1), rng.choice(CR_PIECES))
    if rng.random() < p_bad:
        parts.insert(rng.randrange(len(parts) + 1), rng.choice(ILLEGAL_PIECES))
    return ''.join(parts)


def gen_value(rng, p_cr=0.0, p_bad=0.0):
    r = rng.random()
    if r < 0.72:
        return gen_string(rng, p_cr, p_bad)
    if r < 0.88:
        return rng.choice(INTS)
    return rng.random() < 0.5


def gen_props(rng, prof):
    d = {}
    for _ in range(rng.choice([0, 1, 2, 2, 3, 4, 6])):
        d[rng.choice(PNAMES)] = gen_value(rng, prof['cr'], prof['bad'])
    if rng.random() < prof['reserved']:
        d[rng.choice(['id', 'source', 'target', 'key'])] = gen_value(rng)
    return d


def gen_raw_graph(rng, gid, prof, key0=1):
    """a raw property graph as the library holds it: {'nodes': [[key, attrs]], 'edges': [[u, v, attrs]]}"""
    n = rng.choice([1, 1, 2, 2, 3, 3, 4, 5, 6, 8]) if not prof.get('empty') else 0
    keys = list(range(key0, key0 + n))
    if rng.random() < 0.3:
        rng.shuffle(keys)
        keys = [k * 3 + 1 for k in keys]
    nodes = []
    for i, k in enumerate(keys):
        d = {}
        order = ['GraphID', 'NodeID', 'Class', 'rest']
        if rng.random() < 0.4:
            rng.shuffle(order)
        rest = gen_props(rng, prof)
        for o in order:
            if o == 'GraphID':
                r = rng.random()
                if r < prof['gid_missing']:
                    pass
                elif r < prof['gid_missing'] + prof['gid_other']:
                    d['GraphID'] = rng.choice(['other-graph', gid + 'x', '', gid.upper()])
                else:
                    d['GraphID'] = gid
            elif o == 'NodeID':
                r = rng.random()
                if r < prof['nid_missing']:
                    if rng.random() < 0.5:
                        d['NodeID'] = rng.choice(['', 0, False])
                elif r < prof['nid_missing'] + prof['nid_adv']:
                    d['NodeID'] = 'n%d-' % i + gen_string(rng, prof['cr'], 0)
                else:
                    d['NodeID'] = 'node-%d' % i
            elif o == 'Class':
                r = rng.random()
                if r < prof['class_bad']:
                    c = rng.choice([None, '', 5, True, None])
                    if c is not None:
                        d['Class'] = c
                elif r < prof['class_bad'] + prof['class_adv']:
                    d['Class'] = 'C' + gen_string(rng, prof['cr'], 0)
                else:
                    d['Class'] = rng.choice(CLASSES_N)
            else:
                d.update(rest)
        nodes.append([k, d])
    edges = []
    pairs = [(a, b) for a in keys for b in keys if a < b]
    rng.shuffle(pairs)
    ne = rng.choice([0, 1, 1, 2, 3, 5]) if n > 1 else 0
    for (a, b) in pairs[:ne]:
        d = {}
        r = rng.random()
        if r < prof['class_bad']:
            c = rng.choice([None, '', 3])
            if c is not None:
                d['Class'] = c
        elif r < prof['class_bad'] + prof['class_adv']:
            d['Class'] = 'E' + gen_string(rng, prof['cr'], 0)
        else:
            d['Class'] = rng.choice(CLASSES_E)
        if rng.random() < 0.4:
            d.update(gen_props(rng, prof))
        if rng.random() < 0.5:
            a, b = b, a
        edges.append([a, b, d])
    if n and rng.random() < 0.04:
        edges.append([keys[0], keys[0], {'Class': 'has'}])       # self loop
    return {'nodes': nodes, 'edges': edges}


GOOD = dict(cr=0.0, bad=0.0, reserved=0.0, gid_missing=0.0, gid_other=0.0, nid_missing=0.0, nid_adv=0.3, class_bad=0.0,
            class_adv=0.2)
PROFILES = [
    ('good', 10, GOOD),
    ('cr', 2, dict(GOOD, cr=0.35)),
    ('reserved', 1, dict(GOOD, reserved=0.5)),
    ('illegal', 1, dict(GOOD, bad=0.3)),
    ('ids', 2, dict(GOOD, gid_missing=0.15, gid_other=0.2, nid_missing=0.25)),
    ('class', 1, dict(GOOD, class_bad=0.3)),
    ('mess', 1, dict(cr=0.1, bad=0.05, reserved=0.1, gid_missing=0.1, gid_other=0.1, nid_missing=0.1, nid_adv=0.3,
                     class_bad=0.1, class_adv=0.3)),
]


def pick_profile(rng):
    tot = sum(w for _, w, _ in PROFILES)
    r = rng.random() * tot
    for name, w, p in PROFILES:
        r -= w
        if r <= 0:
            return name, p
    return PROFILES[0][0], PROFILES[0][2]


def gen_cross_case(rng):
    """PRE-STATE with cross-graph links: one direct load puts the nodes of two graph ids into the shared store together
    with links inside each graph and links ACROSS them (what merge_nodes leaves before the other graph's nodes are
    re-homed); then the graph on either side is serialized and re-imported"""
    ga, gb = rng.sample(['g1', 'g2', 'slice one', 'G-1'], 2)
    na, nb = rng.choice([1, 2, 3]), rng.choice([1, 2, 3])
    nodes = []
    for i in range(na + nb):
        gid = ga if i < na else gb
        d = {'GraphID': gid, 'NodeID': 'node-%d' % i if rng.random() < 0.7 else 'n%d-' % i + gen_string(rng),
             'Class': rng.choice(CLASSES_N)}
        d.update(gen_props(rng, GOOD))
        nodes.append([i + 1, d])
    keys_a, keys_b = list(range(1, na + 1)), list(range(na + 1, na + nb + 1))
    edges = []
    def link(u, v):
        d = {'Class': rng.choice(CLASSES_E)}
        if rng.random() < 0.3:
            d.update(gen_props(rng, GOOD))
        edges.append([u, v, d] if rng.random() < 0.5 else [v, u, d])
    for ks in (keys_a, keys_b):
        pairs = [(a, b) for a in ks for b in ks if a < b]
        rng.shuffle(pairs)
        for a, b in pairs[:rng.choice([0, 1, 2])]:
            link(a, b)
    cross = [(a, b) for a in keys_a for b in keys_b]
    rng.shuffle(cross)
    for a, b in cross[:rng.choice([1, 1, 2, 3])]:
        link(a, b)
    pre = [[True, ga, {'nodes': nodes, 'edges': edges}]]
    if rng.random() < 0.3:
        pre.append([rng.random() < 0.5, 'g9', gen_raw_graph(rng, 'g9', GOOD, key0=100)])
    src = rng.choice([ga, gb])
    new = rng.choice([src, 'new-graph', 'new-graph', gb if src == ga else ga])
    watch = []
    for w in [ga, gb, new, 'g9']:
        if w not in watch:
            watch.append(w)
    return {'kind': 'raw', 'profile': 'cross', 'pre': pre, 'src': src, 'raw': {'nodes': [], 'edges': []},
            'fmt': rng.randrange(2), 'ep': rng.randrange(4), 'gid': new, 'watch': watch, 'topo': None,
            'peek': rng.random() < 0.3}


CONFUSE = ['<graphml', '<?xml version="1.0"?>', '<?xml', '<graphml xmlns="http://graphml.graphdrawing.org/xmlns">',
           '<?xml version=\'1.0\' encoding=\'utf-8\'?>\n<graphml>', '{"directed": false, "nodes": [', '{', '[', '{"directed": false, '
           '"multigraph": false, "graph": {}, "nodes": [], "edges": []}', '</graphml>', ' <graphml', '{"id": 0}']


def gen_confuse_case(rng, fmt=None, ep=None):
    """format-confusing values: the literal opening of the OTHER format (the GraphML root tag / XML declaration in a
    model serialized as JSON, the opening of a node-link JSON document in one serialized as GraphML) in properties of the
    FIRST node - placed first in its dict so that they land in the head of the text -, in node ids and graph ids"""
    gid = rng.choice(['g1', 'G-1', rng.choice(CONFUSE), rng.choice(CONFUSE) + 'x'])
    g = gen_raw_graph(rng, gid, GOOD)
    k0, d0 = g['nodes'][0]
    front = {}
    for name in rng.sample(['Name', 'BootScript', 'UserData', 'Details'], rng.choice([1, 2, 3])):
        v = rng.choice(CONFUSE)
        front[name] = v if rng.random() < 0.6 else v + gen_string(rng) if rng.random() < 0.5 else gen_string(rng) + v
    if rng.random() < 0.5:
        d0['NodeID'] = rng.choice(CONFUSE) + ('-0' if rng.random() < 0.5 else '')
    d0.pop('Name', None), d0.pop('Details', None)
    g['nodes'][0] = [k0, dict(front, **d0)]
    if g['edges'] and rng.random() < 0.3:
        g['edges'][0][2]['Name'] = rng.choice(CONFUSE)
    pre = [[rng.random() < 0.6, gid, g]]
    if not pre[0][0]:
        for _, d in g['nodes']:
            d['GraphID'] = gid
    new = rng.choice([gid, 'new-graph', rng.choice(CONFUSE)])
    watch = [gid] + ([new] if new != gid else [])
    return {'kind': 'raw', 'profile': 'confuse', 'pre': pre, 'src': gid, 'raw': {'nodes': [], 'edges': []},
            'fmt': rng.randrange(2) if fmt is None else fmt, 'ep': rng.randrange(4) if ep is None else ep, 'gid': new,
            'watch': watch, 'topo': None, 'peek': False}


def gen_refused_case(rng, fmt=None, ep=None):
    """a refused import (a node that is NOT the first one lacks NodeID; the nodes before it carry properties the next
    model does not have) under a fresh graph id, followed by the import of a serialized graph under another id"""
    src = rng.choice(['g1', 'G-1', 'slice one'])
    g = gen_raw_graph(rng, src, GOOD)
    k = rng.choice([1, 1, 2, 3])
    bad_nodes = []
    for i in range(k):
        bad_nodes.append([i + 1, {'NodeID': 'left-%d' % i, 'Class': rng.choice(CLASSES_N), 'Vendor': 'stray ' + gen_string(rng),
                                  'Stray%d' % i: rng.choice([1, True, 'x'])}])
    bad_nodes.append([k + 1, dict({'Class': 'NetworkNode'}, **({'NodeID': rng.choice(['', 0])} if rng.random() < 0.4 else {}))])
    if rng.random() < 0.5:
        bad_nodes.append([k + 2, {'NodeID': 'after', 'Class': 'Component'}])
    bad_edges = [[1, k + 1, {'Class': 'has'}]] if rng.random() < 0.5 else []
    pre = [[rng.random() < 0.5, src, g], [False, 'refused-id', {'nodes': bad_nodes, 'edges': bad_edges}]]
    if rng.random() < 0.25:
        pre.insert(0, [True, 'g9', gen_raw_graph(rng, 'g9', GOOD, key0=100)])
    new = rng.choice(['new-graph', 'new-graph', 'copy <2>', src])
    watch = []
    for w in [src, new, 'refused-id', 'g9']:
        if w not in watch:
            watch.append(w)
    return {'kind': 'raw', 'profile': 'refused', 'pre': pre, 'src': src, 'raw': {'nodes': [], 'edges': []},
            'fmt': rng.randrange(2) if fmt is None else fmt, 'ep': rng.randrange(4) if ep is None else ep, 'gid': new,
            'watch': watch, 'topo': None, 'peek': rng.random() < 0.3}


def gen_raw_case(rng):
    r = rng.random()
    if r < 0.12:
        return gen_cross_case(rng)
    if r < 0.18:
        return gen_refused_case(rng)
    if r < 0.25:
        return gen_confuse_case(rng)
    pname, prof = pick_profile(rng)
    gid = rng.choice(['g1', 'G-1', 'a0b1', 'slice one', 'id&<>"', 'über', 'x'])
    pre = []
    direct = rng.random() < 0.6
    g = gen_raw_graph(rng, gid, prof if direct else dict(prof, gid_other=0.0))
    pre.append([direct, gid, g])
    other = None
    if rng.random() < 0.45:
        other = rng.choice(['g2', 'other-graph', gid + 'x'])
        pre.append([True, other, gen_raw_graph(rng, other, GOOD, key0=100)])
    if rng.random() < 0.1:
        pre.reverse()
    r = rng.random()
    if r < 0.8:
        src, raw = gid, {'nodes': [], 'edges': []}
    elif r < 0.85:
        src, raw = 'absent-graph', {'nodes': [], 'edges': []}
    else:
        src = None
        raw = gen_raw_graph(rng, gid, dict(prof, gid_other=max(prof['gid_other'], 0.25), empty=rng.random() < 0.1))
    new = rng.choice([gid, gid, 'new-graph', 'new-graph', other or 'g3', 'Néw "id" <&>'])
    watch = []
    for w in [gid, new, other, 'other-graph', gid + 'x']:
        if w is not None and w not in watch:
            watch.append(w)
    return {'kind': 'raw', 'profile': pname, 'pre': pre, 'src': src, 'raw': raw, 'fmt': rng.randrange(2),
            'ep': rng.randrange(4), 'gid': new, 'watch': watch, 'topo': None, 'peek': rng.random() < 0.3}


# ------------------------------------------------------------------------------------------------
# models built through the topology API
# ------------------------------------------------------------------------------------------------
def nx_to_case_graph(g):
    nodes = [[int(k), dict(d)] for k, d in g.nodes(data=True)]
    edges = [[int(u), int(v), dict(d)] for u, v, d in g.edges(data=True)]
    for _, d in nodes:
        for v in d.values():
            if not isinstance(v, (str, int, bool)):
                raise TypeError('topology graph holds %r' % (v,))
    return {'nodes': nodes, 'edges': edges}


def build_site(rng, big=False):
    """a substrate site in the style of test/substrate_topology_test.py, with random sizes and texts"""
    import fim.user as f
    t = f.SubstrateTopology()
    site = rng.choice(['RENC', 'UKY', 'LBNL', 'STAR'])
    texts = ['100 Europa Dr., Chapel Hill, NC 27517', 'Lexington, KY "UK" <campus> & more', 'Zürich, 8° ☃',
             ' leading and trailing ', 'tab\tand\nnewline']
    loc = f.Location(postal=rng.choice(texts))
    workers = []
    nw = rng.choice([1, 2, 3]) if not big else rng.choice([3, 4, 5])
    for i in range(nw):
        w = t.add_node(name='%s-w%d' % (site.lower(), i + 1), model=rng.choice(['R7525', 'R7515']), site=site, location=loc,
                       node_id='HX%dVQ5%d' % (i, rng.randrange(10)), ntype=f.NodeType.Server,
                       capacities=f.Capacities(core=rng.choice([32, 64]), cpu=2, unit=1, ram=rng.choice([128, 512]),
                                               disk=rng.choice([4800, 100000])))
        workers.append(w)
        for j in range(rng.choice([0, 1, 2])):
            w.add_component(name='%s-nvme%d' % (w.name, j + 1), model='P4510', node_id='PHLJ%d%d' % (i, j),
                            ctype=f.ComponentType.NVME, capacities=f.Capacities(unit=1, disk=1000),
                            labels=f.Labels(bdf='0000:2%d:00.0' % j))
        if rng.random() < 0.5:
            w.add_component(name=w.name + '-gpu1', model=rng.choice(['RTX6000', 'Tesla T4']), node_id='GPU-%d' % i,
                            ctype=f.ComponentType.GPU, capacities=f.Capacities(unit=1), labels=f.Labels(bdf='0000:25:00.0'),
                            details=rng.choice(texts))
        vf = ['0000:e2:00.%d' % k for k in range(2, 2 + rng.choice([1, 2, 4]))]
        w.add_component(name=w.name + '-shnic', model='ConnectX-6', node_id=w.node_id + '-shnic',
                        network_service_node_id=w.node_id + '-shnic-sf', interface_node_ids=['mac-%d-sh' % i],
                        interface_labels=[f.Labels(bdf=vf, mac=['04:3F:72:B7:14:%02X' % k for k in range(len(vf))],
                                                   vlan=[str(1001 + k) for k in range(len(vf))])],
                        capacities=f.Capacities(unit=len(vf)), labels=f.Labels(bdf=vf), ctype=f.ComponentType.SharedNIC,
                        details='Shared NIC: Mellanox Technologies MT28908 Family [ConnectX-6]')
        if rng.random() < 0.6:
            w.add_component(name=w.name + '-nic1', model='ConnectX-6', node_id=w.node_id + '-nic1',
                            network_service_node_id=w.node_id + '-nic1-sf',
                            interface_node_ids=['mac-%d-a' % i, 'mac-%d-b' % i],
                            interface_labels=[f.Labels(mac='04:3F:72:B7:15:74', vlan_range='1-4096'),
                                              f.Labels(mac='04:3F:72:B7:15:75', vlan_range='1-4096')],
                            ctype=f.ComponentType.SmartNIC, capacities=f.Capacities(unit=1),
                            labels=f.Labels(bdf=['0000:41:00.0', '0000:41:00.1']),
                            details='Mellanox Technologies MT28908 Family [ConnectX-6]')
    if rng.random() < 0.6:
        t.add_node(name=site.lower() + '-nas', model='ME4084', site=site, ntype=f.NodeType.NAS, node_id='BDXTQ53',
                   capacities=f.Capacities(unit=1, disk=100000))
    sw = t.add_node(name=site.lower() + '-data-sw', node_id='sw-' + site, site=site, ntype=f.NodeType.Switch,
                    stitch_node=True)
    ns = sw.add_network_service(name=sw.name + '-ns', node_id=sw.node_id + '-ns', nstype=f.ServiceType.MPLS,
                                stitch_node=True)
    li = 1
    for w in workers:
        for iname, iff in list(w.interfaces.items()):
            if rng.random() < 0.8:
                sp = ns.add_interface(name='HundredGigE0/0/0/%d' % li, itype=f.InterfaceType.TrunkPort,
                                      node_id='port-%s-%d' % (site, li), stitch_node=True)
                t.add_link(name='l%d' % li, ltype=f.LinkType.Patch, interfaces=[iff, sp], node_id=sp.node_id + '-DAC')
                li += 1
    return t


def build_slice(rng, big=False):
    import fim.user as f
    t = f.ExperimentTopology()
    nn = rng.choice([1, 2, 3]) if not big else rng.choice([3, 5, 7])
    nodes = []
    nics = []
    for i in range(nn):
        n = t.add_node(name='node%d' % i, site=rng.choice(['RENC', 'UKY']))
        if rng.random() < 0.7:
            n.set_properties(capacities=f.Capacities(core=rng.choice([2, 4]), ram=rng.choice([8, 16]), disk=rng.choice([10, 100])),
                             image_ref='default_centos_8', image_type='qcow2')
        if rng.random() < 0.3:
            n.set_properties(boot_script=rng.choice(['#!/bin/bash\necho "a<b && c>d"\n', 'echo ü\t\'q\'',
                                                     '<?xml version="1.0"?>\n<graphml xmlns="x">', 'cat <<EOF\n{"directed": false, "nodes": [\nEOF']))
        nodes.append(n)
        for j in range(rng.choice([0, 1, 1, 2])):
            ct, model = rng.choice([(f.ComponentType.SharedNIC, 'ConnectX-6'), (f.ComponentType.SmartNIC, 'ConnectX-6'),
                                    (f.ComponentType.SmartNIC, 'ConnectX-5')])
            c = n.add_component(ctype=ct, model=model, name='nic%d_%d' % (i, j))
            nics.append((n, c))
        if rng.random() < 0.3:
            n.add_component(ctype=f.ComponentType.GPU, model='RTX6000', name='gpu%d' % i)
        if rng.random() < 0.2:
            n.add_component(ctype=f.ComponentType.NVME, model='P4510', name='nvme%d' % i)
    # services over the first interface of some NICs, one site at a time for the bridge
    bysite = {}
    for n, c in nics:
        bysite.setdefault(n.site, []).append(c)
    k = 0
    for site, cs in bysite.items():
        ifs = [c.interface_list[0] for c in cs[:3]]
        if len(ifs) >= 1 and rng.random() < 0.8:
            try:
                t.add_network_service(name='bridge%d' % k, nstype=f.ServiceType.L2Bridge, interfaces=ifs)
                k += 1
            except Exception:
                pass
    if rng.random() < 0.3:
        try:
            t.add_network_service(name='v4net', nstype=f.ServiceType.FABNetv4, interfaces=[])
        except Exception:
            pass
    return t


def gen_topo_case(rng, big=False, variant=None):
    """variant 'plain': a fresh topology loads the text; 'reload': the SAME long-lived topology takes a snapshot, is
    modified (a node removed through the API) and loads the snapshot back under its own id; 'presave': an earlier, larger
    state was saved to the same path before (a node is removed through the API in between), then the file is loaded"""
    kind = rng.choice(['site', 'slice'])
    t = build_site(rng, big) if kind == 'site' else build_slice(rng, big)
    gid = t.graph_model.graph_id
    gid2 = 'topo-' + kind          # stable graph id instead of the uuid

    def snap():
        gg = nx_to_case_graph(t.graph_model.storage.extract_graph(gid))
        for _, d in gg['nodes']:
            d['GraphID'] = gid2
        return gg
    g = snap()
    variant = variant or rng.choice(['plain', 'plain', 'reload', 'reload', 'presave'])
    names = sorted(t.nodes.keys())
    victim = rng.choice(names) if len(names) > 1 else None
    c = {'kind': 'topo', 'profile': kind + '/' + variant, 'pre': [[True, gid2, g]], 'src': gid2,
         'raw': {'nodes': [], 'edges': []}, 'fmt': rng.randrange(2), 'ep': rng.randrange(4), 'gid': rng.choice([gid2, 'reloaded']),
         'topo': kind, 'peek': False}
    if variant == 'reload':
        c['reload'] = True
        c['gid'] = gid2                                   # load(.., new_graph_id = the current id) / direct: id kept
        c['modify'] = victim if rng.random() < 0.75 else None
    elif variant == 'presave':
        c['ep'] = rng.choice([2, 3])
        ps_fmt = rng.randrange(2)
        smaller = None
        if victim is not None:
            try:
                t.remove_node(name=victim)
                smaller = snap()
            except Exception:
                smaller = None
        if smaller is not None and smaller['nodes']:
            c['pre'] = [[True, gid2, smaller]]            # the current state: one node (with its components) fewer
        else:
            ps_fmt, c['fmt'] = 0, 1                       # same state, GraphML first, the shorter JSON over it
        c['presave'] = {'graph': g, 'fmt': ps_fmt}
    t.graph_model.importer.delete_all_graphs()
    c['watch'] = [gid2, c['gid']] if c['gid'] != gid2 else [gid2]
    return c


# ------------------------------------------------------------------------------------------------
# running the implementation
# ------------------------------------------------------------------------------------------------
def to_nx(g):
    import networkx as nx
    G = nx.Graph()
    for k, d in g['nodes']:
        G.add_node(k, **copy.deepcopy(d))
    for u, v, d in g['edges']:
        G.add_edge(u, v, **copy.deepcopy(d))
    return G


def ser_obs(text, fmt):
    """what an independent reader sees in a serialized text"""
    if text is None:
        return {'kind': 'absent'}
    if isinstance(text, dict):
        return text
    try:
        if fmt == 0:
            return {'kind': 'doc', 'doc': parse_graphml(text)}
        o = {'kind': 'json', 'content': parse_json(text)}
        # the real text goes to Coq (Base/Json.v parses it) unless it is huge or holds a lone surrogate
        # (json.loads accepts those; Base/Json.v's round-trip domain str_ok excludes them)
        if len(text) <= JSON_TEXT_LIMIT and not re.search('[\ud800-\udfff]', json.dumps(json.loads(text), ensure_ascii=False)):
            o['text'] = text
        return o
    except Exception as e:
        return {'kind': 'unparsable', 'why': repr(e)[:200]}


def exc_class(e):
    from fim.graph.abc_property_graph import PropertyGraphImportException
    return 'import' if isinstance(e, PropertyGraphImportException) else type(e).__name__


class Run:
    importer_cls = None

    def importer(self):
        from fim.graph.networkx_property_graph import NetworkXGraphImporter
        return NetworkXGraphImporter()

    def graph_cls(self):
        from fim.graph.networkx_property_graph import NetworkXPropertyGraph
        return NetworkXPropertyGraph

    def run(self, case):
        from fim.graph.abc_property_graph import GraphFormat
        from fim.graph.graph_util import GraphML
        import networkx as nx
        imp = self.importer()
        imp.delete_all_graphs()
        PG = self.graph_cls()
        fmt = [GraphFormat.GRAPHML, GraphFormat.JSON_NODELINK][case['fmt']]
        out = {'loads': [], 'ser': None, 'res': None, 'graphs': [], 'reser': None, 'validate': None, 'topo': None,
               'ids': None, 'after_loads': {}}
        tmpfiles = []
        try:
            for direct, gid, g in case['pre']:
                try:
                    (imp.storage.add_graph_direct if direct else imp.storage.add_graph)(gid, to_nx(g))
                    out['loads'].append(['ok', gid])
                except Exception as e:
                    out['loads'].append([exc_class(e)])
            # the store right after the loads: every loaded / refused id, through the public graph_exists and extract
            out['after_loads'] = {}
            for gid in dict.fromkeys(g[1] for g in case['pre']):
                try:
                    out['after_loads'][gid] = {'exists': bool(PG(graph_id=gid, importer=imp).graph_exists()),
                                               'content': content_of(imp.storage.extract_graph(gid))}
                except Exception as e:
                    out['after_loads'][gid] = {'error': type(e).__name__}
            topo = None
            text = None
            names0 = None
            try:
                if case['src'] is None:
                    G = to_nx(case['raw'])
                    if case['fmt'] == 0:
                        # the calls serialize_graph makes on an extracted graph (writer helper of fix 10c1448 if present)
                        gen = getattr(GraphML, 'nx_generate_graphml', None)
                        text = GraphML.networkx_to_neo4j(gen(G) if gen else '\n'.join(nx.generate_graphml(G)))
                    else:
                        text = json.dumps(nx.readwrite.node_link_data(G))
                elif case.get('topo'):
                    import fim.user as f
                    from fim.graph.slices.networkx_asm import NetworkxASM
                    topo = f.SubstrateTopology() if case['topo'] == 'site' else f.ExperimentTopology()
                    topo.graph_model.importer.delete_graph(graph_id=topo.graph_model.graph_id)
                    topo.graph_model = NetworkxASM(graph_id=case['src'], importer=imp)
                    try:
                        names0 = sorted(topo.nodes.keys())
                    except Exception:
                        names0 = None
                    if case['ep'] >= 2:
                        fd, fn = tempfile.mkstemp(prefix='c01_', suffix='.txt')
                        os.close(fd)
                        tmpfiles.append(fn)
                        if case.get('presave'):
                            # an EARLIER, larger state of the same model was saved to the same path before: put that state
                            # into the store, save it, then put the current state back (the removal itself was done through
                            # the topology API when the case was generated)
                            ps = case['presave']
                            imp.storage.add_graph_direct(case['src'], to_nx(ps['graph']))
                            topo.serialize(file_name=fn, fmt=[GraphFormat.GRAPHML, GraphFormat.JSON_NODELINK][ps['fmt']])
                            out['presave_len'] = os.path.getsize(fn)
                            cur = [g for d, gid, g in case['pre'] if gid == case['src']][-1]
                            imp.storage.add_graph_direct(case['src'], to_nx(cur))
                        topo.serialize(file_name=fn, fmt=fmt)
                        with open(fn, 'r', newline='') as fh:
                            text = fh.read()
                    else:
                        text = topo.serialize(fmt=fmt)
                else:
                    text = PG(graph_id=case['src'], importer=imp).serialize_graph(format=fmt)
                out['ser'] = ser_obs(text, case['fmt'])
            except Exception as e:
                out['ser'] = {'kind': 'err', 'exc': type(e).__name__}
                text = None
            if text is not None and topo is not None and case.get('modify'):
                try:        # the model is changed after the snapshot was taken (through the topology API)
                    topo.remove_node(name=case['modify'])
                    out['modified'] = True
                except Exception as e:
                    out['modified'] = type(e).__name__
            if text is not None and case.get('peek'):
                for w in case['watch']:          # "is it there already?" - a lookup must not change what an import does
                    imp.storage.extract_graph(w)
            if text is not None:
                # the two file entry points read a file written the way Topology.serialize writes it
                fn = None
                if case['ep'] >= 2:
                    if tmpfiles:
                        fn = tmpfiles[0]
                    else:
                        fd, fn = tempfile.mkstemp(prefix='c01_', suffix='.txt')
                        os.close(fd)
                        tmpfiles.append(fn)
                        with open(fn, 'w') as fh:
                            fh.write(text)
                h = None
                try:
                    if topo is not None and case['ep'] != 2:
                        import fim.user as f
                        if case.get('reload'):
                            t2 = topo       # the long-lived topology loads its own snapshot back
                        else:
                            t2 = f.SubstrateTopology() if case['topo'] == 'site' else f.ExperimentTopology()
                            t2.graph_model.importer.delete_graph(graph_id=t2.graph_model.graph_id)
                        if case['ep'] == 0:
                            t2.load(graph_string=text, new_graph_id=case['gid'])
                        elif case['ep'] == 1:
                            t2.load(graph_string=text)
                        else:
                            t2.load(file_name=fn)
                        h = t2.graph_model
                        try:        # element listings need a complete topology (a shrunk case may not be one)
                            out['topo'] = {'nodes': sorted(t2.nodes.keys()), 'links': sorted(t2.links.keys()),
                                           'services': sorted(t2.network_services.keys()),
                                           'orig_nodes': names0}
                        except Exception as e:
                            out['topo'] = {'listing_failed': type(e).__name__}
                    elif case['ep'] == 0:
                        h = imp.import_graph_from_string(graph_string=text, graph_id=case['gid'])
                    elif case['ep'] == 1:
                        h = imp.import_graph_from_string_direct(graph_string=text)
                    elif case['ep'] == 2:
                        h = imp.import_graph_from_file(graph_file=fn, graph_id=case['gid'])
                    else:
                        h = imp.import_graph_from_file_direct(graph_file=fn)
                    out['res'] = ['ok', h.graph_id] if h is not None and isinstance(h.graph_id, str) else ['none']
                except Exception as e:
                    out['res'] = [exc_class(e)]
                if out['res'][0] == 'ok':
                    try:
                        if topo is not None and case['ep'] == 3 and fn is not None:
                            t2.serialize(file_name=fn, fmt=fmt)      # saved again over the same path
                            with open(fn, 'r', newline='') as fh:
                                out['reser'] = ser_obs(fh.read(), case['fmt'])
                        else:
                            out['reser'] = ser_obs(h.serialize_graph(format=fmt), case['fmt'])
                    except Exception as e:
                        out['reser'] = {'kind': 'err', 'exc': type(e).__name__}
                    try:
                        h.validate_graph()
                        out['validate'] = 'ok'
                    except Exception as e:
                        out['validate'] = type(e).__name__
                    try:
                        out['ids'] = sorted(map(repr, h.list_all_node_ids()))
                    except Exception as e:
                        out['ids'] = type(e).__name__
            for w in case['watch']:
                out['graphs'].append(content_of(imp.storage.extract_graph(w)))
        finally:
            for fn in tmpfiles:
                try:
                    os.remove(fn)
                except OSError:
                    pass
            imp.delete_all_graphs()
        return out


# ------------------------------------------------------------------------------------------------
# the property, restated over implementation observables
# ------------------------------------------------------------------------------------------------
def xml_legal(s):
    return all(c in '\t\n\r' or 0x20 <= ord(c) <= 0xD7FF or 0xE000 <= ord(c) <= 0xFFFD or 0x10000 <= ord(c) <= 0x10FFFF
               for c in s)


def in_domain(g, fmt, need_gid=None):
    """is this graph one the property quantifies over?  (str/int/bool values of XML-legal text, every node and
    edge with a non-empty string Class, every node with a non-empty NodeID; for JSON no structural names)"""
    if not g['nodes']:
        return False
    for _, d in g['nodes']:
        if not isinstance(d.get('Class'), str) or not d['Class']:
            return False
        if not d.get('NodeID'):
            return False
        if need_gid is not None and d.get('GraphID') != need_gid:
            return False
        if fmt == 1 and 'id' in d:
            return False
    for _, _, d in g['edges']:
        if not isinstance(d.get('Class'), str) or not d['Class']:
            return False
        if fmt == 1 and ('source' in d or 'target' in d):
            return False
    for d in [d for _, d in g['nodes']] + [d for _, _, d in g['edges']]:
        for v in d.values():
            if isinstance(v, str) and not xml_legal(v):
                return False
    return True


def has_cr(g):
    return any(isinstance(v, str) and '\r' in v
               for d in [d for _, d in g['nodes']] + [d for _, _, d in g['edges']] for v in d.values())


def source_graph(case, obs, flavour='shared'):
    """(the graph that gets serialized, the graphs the store holds by id); None where the history is not one the
    oracle can interpret.  For the shared store this is an independent shadow of the store: every node belongs to the
    graph its GraphID names, a graph's links are the links with BOTH ends in it - also when a load put nodes of
    several graph ids and links across them into the store (cross-graph links)."""
    if flavour == 'disjoint':
        store = {}
        for (direct, gid, g), l in zip(case['pre'], obs['loads']):
            if l[0] == 'import' and not direct and gid not in store:
                continue                   # a refused load under an id not in use: nothing may change
            if l[0] != 'ok' or gid in store:
                store = None               # a failed load; a second load of an id is skipped or replaces
                break
            gg = copy.deepcopy(g)
            if not direct:
                for _, d in gg['nodes']:
                    d['GraphID'] = gid
            store[gid] = gg
        if store is not None:
            for k, gg in store.items():    # a direct load of nodes carrying another graph's id: outside the oracle
                if any(d.get('GraphID') != k for _, d in gg['nodes']):
                    store = None
                    break
    else:
        nodes, edges = [], []
        store = {}
        for i, ((direct, gid, g), l) in enumerate(zip(case['pre'], obs['loads'])):
            if l[0] == 'import' and not direct and not any(d.get('GraphID') == gid for _, d in nodes):
                continue                   # a refused load under an id not in use: nothing may change
            if l[0] != 'ok':
                store = None               # a refused load onto an id in use has deleted that graph: left to the model
                break
            dead = {u for u, d in nodes if isinstance(d.get('GraphID'), str) and d['GraphID'] == gid}
            nodes = [[u, d] for u, d in nodes if u not in dead]
            edges = [e for e in edges if e[0] not in dead and e[1] not in dead]
            for k, d in g['nodes']:
                d = copy.deepcopy(d)
                if not direct:
                    d['GraphID'] = gid
                nodes.append([(i, k), d])
            for u, v, d in g['edges']:
                edges.append([(i, u), (i, v), copy.deepcopy(d)])
        if store is not None:
            for gid in {d['GraphID'] for _, d in nodes if isinstance(d.get('GraphID'), str)}:
                own = [[u, d] for u, d in nodes if d.get('GraphID') == gid]
                ids = {u for u, _ in own}
                store[gid] = {'nodes': own, 'edges': [e for e in edges if e[0] in ids and e[1] in ids]}
    if case['src'] is None:
        return case['raw'], store
    if store is None:
        return None, None
    return store.get(case['src']), store


def doc_values(d):
    """the attribute dicts a GraphML document spells, typed by the declared attr.type"""
    def val(t, x):
        return x if t == 'string' or x == '' else int(x) if t == 'long' else {'true': True, 'false': False}[x.lower()]
    tup = lambda data: tuple(sorted((n, typed(val(t, x))) for n, t, x in data))
    return (sorted((tup(data) for _, data in d['nodes']), key=repr), sorted((tup(data) for _, _, _, data in d['edges']), key=repr))


def case_content(g):
    byk = {k: d for k, d in g['nodes']}
    return {'nodes': [dict(d) for _, d in g['nodes']],
            'edges': [(byk[u].get('NodeID'), byk[v].get('NodeID'), dict(d)) for u, v, d in g['edges']]}


def oracle(case, obs, flavour='shared'):
    g, store = source_graph(case, obs, flavour)
    # a refused load / import (a node without NodeID) under a graph id not in use leaves the whole store as it was:
    # the refused id does not exist afterwards and every graph loaded so far is what it was
    if store is not None and flavour == 'shared':
        for (direct, gid, _), l in zip(case['pre'], obs['loads']):
            a = obs.get('after_loads', {}).get(gid)
            if a is None or 'error' in a:
                continue
            if l[0] == 'import' and gid not in store:
                if a['exists'] or a['content'] is not None:
                    return ('a refused import (node without NodeID) left %d node(s) in the store under the refused graph id %r '
                            '(graph_exists = %s)' % (len(a['content']['nodes']) if a['content'] else 0, gid, a['exists']))
            elif gid in store and store[gid]['nodes']:
                if not a['exists'] or canon_content(a['content']) != canon_content(case_content(store[gid])):
                    return 'graph %r is not what was loaded, after the loads %s' % (gid, [x[0] for x in obs['loads']])
    if g is None:
        return None
    # a text whose nodes carry more than one graph id cannot be imported "keeping the graph id": the direct entry
    # points must refuse it (ABCGraphImporter.get_graph_id) and leave the store alone
    if case['src'] is None and case['ep'] in (1, 3) and g['nodes'] and obs['ser'] and obs['ser']['kind'] in ('doc', 'json'):
        ids = [d.get('GraphID') for _, d in g['nodes']]
        if all(isinstance(i, str) and i and xml_legal(i) and '\r' not in i for i in ids) and len(set(ids)) > 1:
            if obs['res'] is None or obs['res'][0] != 'import':
                return ('%s entry point %s: a text with more than one graph id %r was imported (as %r) instead of being refused'
                        % ('GraphML' if case['fmt'] == 0 else 'JSON', EPS[case['ep']], sorted(set(ids)), obs['res']))
            return None
    fmt, ep = case['fmt'], case['ep']
    direct = ep in (1, 3)
    if not in_domain(g, fmt, need_gid=(g['nodes'][0][1].get('GraphID') if direct and g['nodes'] else None)):
        return None
    if direct and not isinstance(g['nodes'][0][1].get('GraphID'), str):
        return None
    if flavour == 'disjoint' and not direct and (store is None or (store.get(case['gid']) or {'nodes': []})['nodes']):
        # the disjoint store documents that add_graph onto an id already in use is skipped (with a warning): the call
        # returns normally and the graph under that id stays as it was
        if store is not None and obs['ser']['kind'] in ('doc', 'json'):
            if obs['res'] is None or obs['res'][0] != 'ok':
                return 'disjoint store, entry point %s: import onto a graph id in use failed with %s instead of being skipped' % (EPS[ep], obs['res'])
            try:
                got = obs['graphs'][case['watch'].index(case['gid'])]
            except ValueError:
                return None
            if canon_content(got) != canon_content(case_content(store[case['gid']])):
                return 'disjoint store, entry point %s: import onto a graph id in use changed that graph' % EPS[ep]
        return None
    tag = 'GraphML' if fmt == 0 else 'JSON'
    crs = ' [string value containing U+000D]' if has_cr(g) else ''
    if obs['ser']['kind'] in ('err', 'absent', 'unparsable'):
        where = ('the file written by Topology.serialize(file_name=...) is not a %s text' % tag
                 if case.get('topo') and ep >= 2 and obs['ser']['kind'] == 'unparsable' else 'serializing a well-formed graph failed')
        if case.get('presave') and obs['ser']['kind'] == 'unparsable':
            where += ' after a longer text (%s bytes) had been saved to the same path' % obs.get('presave_len')
        return '%s: %s (%s)%s' % (tag, where, obs['ser'].get('exc') or obs['ser'].get('why') or 'returned None', crs)
    # the text holds exactly the graph's own nodes and the links with both ends in it
    own = case_content(g)
    want = (sorted((tuple(sorted((k, typed(v)) for k, v in d.items())) for d in own['nodes']), key=repr),
            sorted((tuple(sorted((k, typed(v)) for k, v in d.items())) for _, _, d in own['edges']), key=repr))
    if fmt == 0:
        have_t = doc_values(obs['ser']['doc'])
    else:
        cj = obs['ser']['content']
        have_t = (sorted((tuple(sorted((k, typed(v)) for k, v in d.items())) for d in cj['nodes']), key=repr),
                  sorted((tuple(sorted((k, typed(v)) for k, v in d.items())) for _, _, d in cj['edges']), key=repr))
    if have_t != want:
        return ('%s: the serialized text does not hold exactly the graph\'s own %d nodes and %d links (text: %d nodes, %d links)%s'
                % (tag, len(want[0]), len(want[1]), len(have_t[0]), len(have_t[1]), crs))
    if obs['res'] is None or obs['res'][0] != 'ok':
        return '%s entry point %s: import of the library\'s own text failed: %s%s' % (tag, EPS[ep], obs['res'], crs)
    want_gid = g['nodes'][0][1]['GraphID'] if direct else case['gid']
    if obs['res'][1] != want_gid:
        return '%s entry point %s: graph id %r instead of %r' % (tag, EPS[ep], obs['res'][1], want_gid)
    # the imported copy
    try:
        got = obs['graphs'][case['watch'].index(want_gid)]
    except ValueError:
        return None
    src = case_content(g)
    exp = canon_content(src, drop=() if direct else ('GraphID',))
    if got is None:
        return '%s entry point %s: imported graph %r is not in the store' % (tag, EPS[ep], want_gid)
    if not direct and any(d.get('GraphID') != want_gid for d in got['nodes']):
        return '%s entry point %s: a node of the imported graph does not carry the new graph id' % (tag, EPS[ep])
    have = canon_content(got, drop=() if direct else ('GraphID',))
    known = None
    if have != exp:
        return '%s entry point %s: imported copy differs from the original (%s)%s' % (tag, EPS[ep], first_diff(exp, have), crs)
    # label markup in the real text
    if fmt == 0:
        d = obs['ser']['doc']
        for lab, data in d['nodes']:
            cls = [x for n, t, x in data if n == 'Class']
            if lab is None or len(cls) != 1 or lab != ':GraphNode:' + cls[0]:
                return 'GraphML: node without the labels markup of its Class (%r, %r)' % (lab, cls)
        for a, b, lab, data in d['edges']:
            cls = [x for n, t, x in data if n == 'Class']
            if lab is None or len(cls) != 1 or lab != cls[0]:
                return 'GraphML: edge without the label markup of its Class (%r, %r)' % (lab, cls)
    # serializing the copy again gives the same content
    r2 = obs['reser']
    if r2 is None or r2['kind'] in ('err', 'absent', 'unparsable'):
        return '%s: the imported copy cannot be serialized again%s' % (tag, crs)
    if fmt == 0:
        c1, c2 = doc_canon(obs['ser']['doc'], direct), doc_canon(r2['doc'], direct)
    else:
        c1 = canon_content(obs['ser']['content'], drop=() if direct else ('GraphID',))
        c2 = canon_content(r2['content'], drop=() if direct else ('GraphID',))
    if c1 != c2:
        return '%s entry point %s: second serialization differs from the first (%s)%s' % (tag, EPS[ep], first_diff(c1, c2), crs)
    # the imported graph validates (the store holds well-formed graphs only at this point)
    if obs['validate'] != 'ok' and store is not None and all(in_domain(x, 0) for x in store.values()) and json_props_fine(dict(store, _src={'nodes': g['nodes']})):
        return '%s: validate_graph rejects the imported copy: %s' % (tag, obs['validate'])
    if isinstance(obs['ids'], list) and obs['ids'] != sorted(repr(d['NodeID']) for _, d in g['nodes']):
        return '%s entry point %s: list_all_node_ids differs after import' % (tag, EPS[ep])
    # other graphs in the store are untouched
    for w, c in zip(case['watch'], obs['graphs']):
        if (store is not None and w != want_gid and w in store and store[w]['nodes']
                and canon_content(c) != canon_content(case_content(store[w]))):
            return '%s entry point %s: graph %r changed by the import of %r' % (tag, EPS[ep], w, want_gid)
    if obs.get('topo') and obs['topo'].get('orig_nodes') is not None and obs['topo']['nodes'] != obs['topo']['orig_nodes']:
        return '%s: topology node names differ after load' % tag
    return known


JSON_PROPS = None


def json_props_fine(store):
    """validate_graph's JSON check can only pass if the JSON-carrying properties hold JSON"""
    global JSON_PROPS
    if JSON_PROPS is None:
        from fim.graph.abc_property_graph import ABCPropertyGraphConstants
        JSON_PROPS = list(ABCPropertyGraphConstants.JSON_PROPERTY_NAMES)
    for g in store.values():
        for _, d in g['nodes']:
            for p in JSON_PROPS:
                v = d.get(p)
                if v is None:
                    continue
                if not isinstance(v, str):
                    return False
                if len(v) > 0 and v != 'None':
                    try:
                        json.loads(v)
                    except Exception:
                        return False
    return True


def doc_canon(d, keep_gid):
    nd = lambda data: tuple(sorted((n, t, x) for n, t, x in data if keep_gid or n != 'GraphID'))
    return (sorted((k for k in d['keys'] if keep_gid or k[0] != 'GraphID'), key=repr),
            sorted(((lab, nd(data)) for lab, data in d['nodes']), key=repr),
            sorted(((tuple(sorted([repr(a), repr(b)])), lab, nd(data)) for a, b, lab, data in d['edges']), key=repr))


def first_diff(a, b):
    ra, rb = repr(a), repr(b)
    i = 0
    while i < min(len(ra), len(rb)) and ra[i] == rb[i]:
        i += 1
    return 'expected ...%s, got ...%s' % (ra[max(0, i - 30):i + 40], rb[max(0, i - 30):i + 40])


# ------------------------------------------------------------------------------------------------
# the stream
# ------------------------------------------------------------------------------------------------
class RoundTrip(Stream, Run):
    name = 'roundtrip'
    header = ('From Coq Require Import List ZArith NArith.\nImport ListNotations.\n'
              'From FIM Require Import Base.Str Model.Serial1Text Model.Serial1Graph Model.Serial1Json Model.Serial1Corr.\n')
    case_type = 'case * obs'
    check_fn = 'check'
    shard = 60
    rule = ('histories load(1-2 graphs) / serialize (GraphML | node-link JSON; of a stored graph, of an absent one, or of a raw '
            'graph) / import through one of the 4 entry points / read back / serialize again; raw graphs of 1-8 nodes with '
            'adversarial strings (quotes, markup, references, non-ASCII incl. astral, blanks, empty, TAB/LF, CR, illegal '
            'characters), ints, bools, missing or foreign GraphID/NodeID/Class, structural JSON names; non-trivial = the '
            'import was attempted on a graph with at least 2 nodes and 1 edge; distinct by case value')

    def gen(self, rng, tier):
        n_raw = 340 if tier == 'quick' else 5000
        out = []
        # both formats x four entry points on every profile, systematically first
        for fmt in range(2):
            for ep in range(4):
                for _ in range(3 if tier == 'quick' else 20):
                    c = gen_raw_case(rng)
                    c['fmt'], c['ep'] = fmt, ep
                    out.append(c)
                out.append(gen_refused_case(rng, fmt, ep))     # refused import, then each entry point, both formats
                out.append(gen_confuse_case(rng, fmt, ep))     # the other format's opening in the head of the text
                out.append(gen_cross_case(rng))
                out[-1]['fmt'], out[-1]['ep'] = fmt, ep
        for _ in range(n_raw):
            out.append(gen_raw_case(rng))
        return out

    def corpus(self):
        d = os.path.join(VERIF, 'corpus', 'C01')
        out = []
        for p in sorted(glob.glob(os.path.join(d, '*.json'))):
            with open(p) as f:
                out.append(json.load(f))
        return out

    def observe(self, case):
        try:
            return self.run(case)
        except Exception as e:
            return {'loads': [], 'ser': {'kind': 'err', 'exc': 'harness:' + repr(e)[:300]}, 'res': None, 'graphs': [],
                    'reser': None, 'validate': None, 'topo': None, 'ids': None}

    def to_coq(self, case, o):
        nm = Names()
        pre = clist(['(%s, %s, %s)' % (cbool(d), cstr(gid), c_graph(g, nm)) for d, gid, g in case['pre']])
        raw = c_graph(case['raw'], nm)
        try:
            ob = ('{| o_loads := %s; o_ser := %s; o_res := %s; o_graphs := %s; o_reser := %s |}'
                  % (clist([c_res(r) for r in o['loads']]), c_ser(o['ser'], nm),
                     'None' if o['res'] is None else '(Some %s)' % c_res(o['res']),
                     clist([c_content(g, nm) for g in o['graphs']]),
                     'None' if o['reser'] is None else '(Some %s)' % c_ser(o['reser'], nm)))
        except TypeError as e:      # the implementation produced a value outside str/int/bool
            ob = '{| o_loads := []; o_ser := SErr; o_res := Some RUnsupported; o_graphs := []; o_reser := None |}'
        c = ('{| c_pre := %s; c_src := %s; c_raw := %s; c_fmt := %s; c_ep := %s; c_gid := %s; c_watch := %s; c_names := %s |}'
             % (pre, copt(case['src'], cstr), raw, FMTS[case['fmt']], EPS[case['ep']], cstr(case['gid']),
                clist([cstr(w) for w in case['watch']]), nm.table()))
        return '(%s, %s)' % (c, ob)

    flavour = 'shared'

    def oracle(self, case, o):
        try:
            return oracle(case, o, self.flavour)
        except Exception as e:
            return 'oracle could not interpret the observation: %r' % (e,)

    def key(self, case, o):
        g = case['raw'] if case['src'] is None else next((g for d, gid, g in case['pre'] if gid == case['src']), None)
        if g is None or o['res'] is None or len(g['nodes']) < 2 or len(g['edges']) < 1:
            return None
        return stable_hash(case)

    def known_signature(self, case, o, why):
        return why or ''

    def histogram(self, cases, obs):
        h = {'fmt': {'GraphML': 0, 'JSON': 0}, 'entry': {e: 0 for e in EPS}, 'profile': {}, 'import_result': {},
             'serialize': {}, 'source': {'stored': 0, 'absent': 0, 'raw': 0}, 'nodes_max': 0, 'oracle_in_domain': 0,
             'topology_models': 0, 'with_cr': 0, 'nonascii': 0, 'json_text_parsed_in_coq': 0, 'json_text_withheld': 0}
        for c, o in zip(cases, obs):
            h['fmt']['GraphML' if c['fmt'] == 0 else 'JSON'] += 1
            h['entry'][EPS[c['ep']]] += 1
            h['profile'][c['profile']] = h['profile'].get(c['profile'], 0) + 1
            r = 'not-attempted' if o['res'] is None else o['res'][0]
            h['import_result'][r] = h['import_result'].get(r, 0) + 1
            k = o['ser']['kind'] if o['ser'] else 'none'
            h['serialize'][k] = h['serialize'].get(k, 0) + 1
            h['source']['raw' if c['src'] is None else ('stored' if any(gid == c['src'] for _, gid, _ in c['pre']) else 'absent')] += 1
            for _, _, g in c['pre']:
                h['nodes_max'] = max(h['nodes_max'], len(g['nodes']))
            h['topology_models'] += c['kind'] in ('topo', 'res')
            for so in (o['ser'], o['reser']):
                if so and so.get('kind') == 'json':
                    h['json_text_parsed_in_coq' if so.get('text') is not None else 'json_text_withheld'] += 1
            g, store = source_graph(c, o, self.flavour)
            if g is not None and in_domain(g, c['fmt']):
                h['oracle_in_domain'] += 1
                h['with_cr'] += has_cr(g)
                h['nonascii'] += any(isinstance(v, str) and any(ord(ch) > 127 for ch in v) for _, d in g['nodes'] for v in d.values())
        return h

    def describe(self, case, o):
        return {'case': {k: case[k] for k in ('kind', 'profile', 'src', 'fmt', 'ep', 'gid')},
                'graph_sizes': [len(g['nodes']) for _, _, g in case['pre']],
                'impl': {'loads': o['loads'], 'ser': o['ser']['kind'] if o['ser'] else None, 'res': o['res'],
                         'validate': o['validate']}}

    def shrink(self, case, failing):
        case = copy.deepcopy(case)
        kind = lambda w: re.sub(r'entry point \w+', 'entry point', re.sub(r'''[(\['"].*''', '', w or '', flags=re.S))
        why0 = kind(self.oracle(case, self.observe(case)))

        def attempt(c2):       # keep the same kind of failure while shrinking
            try:
                return failing(c2) and kind(self.oracle(c2, self.observe(c2))) == why0
            except Exception:
                return False
        changed = True
        rounds = 0
        while changed and rounds < 6:
            changed = False
            rounds += 1
            # drop whole pre graphs other than the source
            for i in range(len(case['pre']) - 1, -1, -1):
                if case['pre'][i][1] != case['src'] and len(case['pre']) > 1:
                    c2 = copy.deepcopy(case)
                    del c2['pre'][i]
                    if attempt(c2):
                        case, changed = c2, True
            graphs = [p[2] for p in case['pre']] + [case['raw']]
            for gi in range(len(graphs)):
                def G(c):
                    return (c['pre'][gi][2] if gi < len(c['pre']) else c['raw'])
                # edges
                for ei in range(len(G(case)['edges']) - 1, -1, -1):
                    c2 = copy.deepcopy(case)
                    del G(c2)['edges'][ei]
                    if attempt(c2):
                        case, changed = c2, True
                # nodes (with their edges)
                for ni in range(len(G(case)['nodes']) - 1, -1, -1):
                    c2 = copy.deepcopy(case)
                    k = G(c2)['nodes'][ni][0]
                    del G(c2)['nodes'][ni]
                    G(c2)['edges'][:] = [e for e in G(c2)['edges'] if e[0] != k and e[1] != k]
                    if attempt(c2):
                        case, changed = c2, True
                # properties and string contents
                for which in ('nodes', 'edges'):
                    for xi in range(len(G(case)[which])):
                        for pn in list(G(case)[which][xi][-1].keys()):
                            if pn in ('GraphID', 'NodeID', 'Class'):
                                continue
                            c2 = copy.deepcopy(case)
                            del G(c2)[which][xi][-1][pn]
                            if attempt(c2):
                                case, changed = c2, True
                                continue
                            v = G(case)[which][xi][-1][pn]
                            if isinstance(v, str) and len(v) > 1:
                                for cand in [v[:len(v) // 2], v[len(v) // 2:]] + [v[:i] + v[i + 1:] for i in range(min(len(v), 12))]:
                                    c2 = copy.deepcopy(case)
                                    G(c2)[which][xi][-1][pn] = cand
                                    if attempt(c2):
                                        case, changed = c2, True
                                        break
        case['watch'] = [w for w in case['watch'] if w in (case['src'], case['gid'])] or case['watch']
        if not attempt(case):
            pass
        return case


class TopoTrip(RoundTrip):
    """the same history for models built through the topology API, driven through Topology.serialize / Topology.load"""
    name = 'topology'
    shard = 5
    check_fn = 'check_api'
    rule = ('substrate sites (workers, NVMe/GPU/shared and dedicated NICs, NAS, switch, ports, links; texts with quotes, '
            'markup, non-ASCII, blanks, TAB/LF) and slices (VMs, components, L2Bridge / FABNetv4 services, boot scripts) built '
            'through the topology API; both formats x four entry points (string/string-direct/file-direct through '
            'Topology.serialize/load); non-trivial = every case; distinct by case value')

    def gen(self, rng, tier):
        n_topo = 40 if tier == 'quick' else 240
        out = []
        for i in range(n_topo):
            try:
                variant = ['plain', 'reload', 'plain', 'presave', 'reload'][i % 5]
                c = gen_topo_case(rng, big=(tier != 'quick' and i % 4 == 0), variant=variant)
                if variant == 'presave':
                    c['ep'] = 2 + (i // 5) % 2
                    if c['presave']['graph'] is not c['pre'][0][2] and len(c['presave']['graph']['nodes']) != len(c['pre'][0][2]['nodes']):
                        c['fmt'] = (i // 10) % 2
                else:
                    c['fmt'], c['ep'] = (i // 4) % 2, i % 4
                out.append(c)
            except Exception as e:
                log('C01: topology builder failed: %r' % (e,))
        return out

    def corpus(self):
        out = []
        for p in sorted(glob.glob(os.path.join(VERIF, 'corpus', 'C01', 'topo', '*.json'))):
            with open(p) as f:
                out.append(json.load(f))
        return out


def build_resources(rng, big=False):
    """a substrate site with delegations -> (ARM graph, {delegation id: ADM graph}) as case graphs with stable ids"""
    import fim.user as f
    t = build_site(rng, big)
    t.single_delegation(delegation_id='primary', label_pools=f.Pools(atype=f.DelegationType.LABEL),
                        capacity_pools=f.Pools(atype=f.DelegationType.CAPACITY))
    arm = t.as_arm()
    # hand some nodes to a second delegation, so that the ARM splits into two ADMs
    if rng.random() < 0.6:
        g = arm.storage.get_graph(arm.graph_id)
        for n, d in list(g.nodes(data=True)):
            if d.get('GraphID') != arm.graph_id or rng.random() < 0.6:
                continue
            for p in ('CapacityDelegations', 'LabelDelegations'):
                v = d.get(p)
                if isinstance(v, str) and v.startswith('{"primary"'):
                    arm.update_node_property(node_id=d['NodeID'], prop_name=p,
                                             prop_val=json.dumps({'secondary': json.loads(v)['primary']}))
    g_arm = nx_to_case_graph(arm.storage.extract_graph(arm.graph_id))
    adms = arm.generate_adms()
    out = {}
    for did, adm in sorted(adms.items()):
        out[did] = nx_to_case_graph(adm.storage.extract_graph(adm.graph_id))
    arm.importer.delete_all_graphs()
    for _, d in g_arm['nodes']:
        d['GraphID'] = 'arm-site'
    for did, g in out.items():
        for _, d in g['nodes']:
            d['GraphID'] = 'adm-' + did
    return g_arm, out


class ResourcesTrip(RoundTrip):
    """aggregate resource models (ARM: a substrate site with delegations, fim/graph/resources/networkx_arm.py) and the
    per-delegation advertisement models generate_adms() cuts out of them (ADM), serialized and re-imported while the
    other graphs are in the store"""
    name = 'resources'
    shard = 4
    check_fn = 'check_api'
    rule = ('substrate sites built as in test/substrate_topology_test.py, single_delegation + a second delegation on a '
            'random subset, as_arm(), generate_adms(): the ARM graph alone, and each ADM graph next to its ARM, through both '
            'formats x four entry points, onto the same id, onto the other graph\'s id and onto a new id; every snapshot is '
            'also checked inside Coq to lie in the theorems\' domain (graph_wf, NodeIDs, strings only, JSON names); '
            'non-trivial = every case; distinct by case value')

    def gen(self, rng, tier):
        n_sites = 6 if tier == 'quick' else 50
        out = []
        k = 0
        for i in range(n_sites):
            try:
                g_arm, adms = build_resources(rng, big=(tier != 'quick' and i % 5 == 0))
            except Exception as e:
                log('C01: resource builder failed: %r' % (e,))
                continue
            def mk(pre, src, profile, new):
                nonlocal k
                watch = []
                for w in [src, new] + [p[1] for p in pre]:
                    if w not in watch:
                        watch.append(w)
                c = {'kind': 'res', 'profile': profile, 'pre': pre, 'src': src, 'raw': {'nodes': [], 'edges': []},
                     'fmt': (k // 4) % 2, 'ep': k % 4, 'gid': new, 'watch': watch, 'topo': None, 'peek': rng.random() < 0.3}
                k += 1
                return c
            out.append(mk([[True, 'arm-site', g_arm]], 'arm-site', 'arm', rng.choice(['arm-site', 'arm-copy'])))
            for did, g in adms.items():
                gid = 'adm-' + did
                out.append(mk([[True, 'arm-site', copy.deepcopy(g_arm)], [True, gid, g]], gid, 'adm',
                              rng.choice([gid, 'adm-copy', 'arm-site'])))
        return out

    def corpus(self):
        return []

    def key(self, case, o):
        return stable_hash(case)


class DisjointTrip(RoundTrip):
    """the same histories on the second in-memory store flavour (one nx.Graph per graph id)"""
    name = 'disjoint'
    flavour = 'disjoint'
    check_fn = 'check_d'
    header = RoundTrip.header.replace('Model.Serial1Corr.', 'Model.Serial1Corr Model.Serial1Disjoint.')
    rule = ('the raw-graph histories of stream roundtrip on NetworkXGraphImporterDisjoint / NetworkXPropertyGraphDisjoint '
            '(add_graph onto an id in use is skipped, extract of an absent id is an empty graph); non-trivial and distinct as '
            'in roundtrip')

    def importer(self):
        from fim.graph.networkx_property_graph_disjoint import NetworkXGraphImporterDisjoint
        return NetworkXGraphImporterDisjoint()

    def graph_cls(self):
        from fim.graph.networkx_property_graph_disjoint import NetworkXPropertyGraphDisjoint
        return NetworkXPropertyGraphDisjoint

    def gen(self, rng, tier):
        n = 120 if tier == 'quick' else 2400
        out = []
        for fmt in range(2):
            for ep in range(4):
                for _ in range(2 if tier == 'quick' else 20):
                    c = gen_raw_case(rng)
                    c['fmt'], c['ep'] = fmt, ep
                    out.append(c)
        for _ in range(n):
            out.append(gen_raw_case(rng))
        return out

    def corpus(self):
        return []


class C01(Check):
    pid = 'C01'
    translators = []
    model_targets = ['Model/Serial1Json.vo', 'Model/Serial1Corr.vo', 'Model/Serial1Disjoint.vo']
    streams = [RoundTrip(), TopoTrip(), ResourcesTrip(), DisjointTrip()]
    trusted_base = [
        'Coq 8.16.1 kernel (coqc), vm_compute for the correspondence evaluation; no native_compute',
        'Print Assumptions of every C01 theorem: Closed under the global context (no axioms)',
        'harness/c01.py + harness/common.py (case generation, running the implementation, independent parsing of the real '
        'GraphML text with xml.etree and of the JSON text with json, cases.v writer, interning of property names)',
        'modelled not verified: networkx 3.6.1 generate_graphml / read_graphml / node_link_data / node_link_graph / '
        'convert_node_labels_to_integers / to_dict_of_dicts / networkx_query eq-search; xml.etree and lxml serialisation and '
        'parsing of text items (escaping, character references, end-of-line handling), str.replace; json.dumps/loads '
        '(Base/Json.v: jparse (jprint v) = Some v proved there, tied here on every real JSON text); tempfile / open() text files; Python str(int), str(bool)',
    ]
    assumptions = [
        'API-built models (slices, sites, ARM, ADM) lie in the theorems\' domain: established by evaluating graph_wf && '
        'graph_ids_ok && graph_json_ok && all_strings && graph_json_text_ok inside Coq on every generated snapshot (check_api), '
        'not by a proof over the topology API',
        'property values are str / int / bool (what the library stores; floats, None and lists are outside the modelled domain)',
        'strings are XML-legal text; every node and edge carries a non-empty string Class; nodes carry a non-empty NodeID '
        '(without these the library itself refuses to serialize or import)',
        'property names are identifiers (interned); for node-link JSON they are not the structural names id/source/target',
    ]


if __name__ == '__main__':
    sys.exit(main(C01()))

"""C10 - slice validation accepts a topology exactly when the constraint tables allow it.

Every case is a small *build recipe* (a list of topology-API operations).  `observe` executes it on a
fresh ExperimentTopology of the real library (in-memory NetworkX backend), extracts the ABSTRACT SLICE
through independent API-level getters (node types/properties/components, every network service with
its interfaces, their peers and owner sites), calls `validate()` and records accept/reject (exception
class) plus the `site` property of every service afterwards.  Coq then evaluates the model
(Model/Validate10.v, instantiated with the tables regenerated from the source) on the same abstract
slice.  The ORACLE is a third, independent statement of the property: `allowed()` below, written
from a hand-pinned Python copy of the two constraint tables, never looking at the model.
"""
import sys, os, io, json, contextlib, itertools
from . import common
from .common import *

# ------------------------------------------------------------------------------------------------
# hand-pinned copy of the constraint tables (the specification; mirrors coq/Model/C10Pinned.v)
# (layer, min_interfaces, num_interfaces, num_sites, num_instances, required, forbidden, required itypes)
# ------------------------------------------------------------------------------------------------
NO_LIMIT = 0
_M3 = ['mirror_port', 'mirror_vlan', 'mirror_direction']
_M4 = _M3 + ['controller_url']
PIN_SERVICES = {
    'P4': ('L2', 1, 0, 1, 0, [], _M3, []),
    'OVS': ('L2', 1, 0, 1, 0, [], _M3, []),
    'VLAN': ('L2', 1, 0, 1, 0, [], _M4, []),
    'MPLS': ('L2', 1, 0, 1, 0, [], _M4, []),
    'L2Path': ('L2', 1, 2, 2, 0, [], _M4, []),
    'L2STS': ('L2', 2, 0, 2, 0, [], _M4 + ['ero'], []),
    'L2PTP': ('L2', 2, 2, 2, 0, [], _M4, ['DedicatedPort', 'FacilityPort', 'SubInterface']),
    'L2Multisite': ('L2', 1, 0, 0, 0, [], _M4, []),
    'L2Bridge': ('L2', 1, 0, 1, 0, [], _M4, []),
    'FABNetv4': ('L3', 1, 0, 1, 0, [], _M4, []),
    'FABNetv6': ('L3', 1, 0, 1, 0, [], _M4, []),
    'PortMirror': ('L2', 1, 1, 1, 0, ['mirror_port', 'mirror_direction', 'site'], ['controller_url'], []),
    'L3VPN': ('L3', 1, 0, 0, 0, [], _M4, []),
    'FABNetv4Ext': ('L3', 1, 0, 1, 0, [], _M4, []),
    'FABNetv6Ext': ('L3', 1, 0, 1, 0, [], _M4, []),
}
_NF = ['attached_components_info', 'image_type', 'image_ref']
PIN_NODES = {
    'Server': (['site'], []), 'VM': (['site'], []), 'Container': (['site'], []),
    'Switch': ([], _NF), 'NAS': ([], _NF), 'Facility': ([], _NF + ['management_ip']),
}
PIN_GUARD = [('L2PTP', 'SharedPort')]
STYPES = ['P4', 'MPLS', 'OVS', 'L2Path', 'L2STS', 'L2PTP', 'L2Multisite', 'L2Bridge', 'FABNetv4', 'FABNetv6',
          'PortMirror', 'L3VPN', 'VLAN', 'FABNetv4Ext', 'FABNetv6Ext']
ITYPES = ['AccessPort', 'TrunkPort', 'ServicePort', 'DedicatedPort', 'SharedPort', 'vInt', 'StitchPort',
          'FacilityPort', 'SubInterface']
NODE_PROPS = ['site', 'image_type', 'image_ref', 'management_ip', 'attached_components_info']
SVC_PROPS = ['mirror_port', 'mirror_vlan', 'mirror_direction', 'controller_url', 'ero']    # + site, kept apart
SITES = ['A', 'B', 'C', 'D']
# compare against the model with the three proposed repairs switched on (only meaningful together with
# VERIF_REPO=<copy of the repository with proposed_fixes/C10-1..3 applied>)
REPAIRED = os.environ.get('VERIF_C10_REPAIRED', '') == '1'


# ------------------------------------------------------------------------------------------------
# the independent oracle: `allowed` over the abstract slice, from the pinned tables only
# ------------------------------------------------------------------------------------------------
def node_side(i):
    """[itype, owner, peers] -> (itype, owner) of the node-side interface, or None when a ServicePort
    does not have exactly one peer"""
    it, owner, peers = i
    if it == 'ServicePort':
        if peers is None or len(peers) != 1:
            return None
        return tuple(peers[0])
    return (it, owner)


def allowed(abs_slice):
    """list of reasons why the slice is NOT allowed by the pinned tables (empty = allowed)"""
    why = []
    for k, (ntype, props) in enumerate(abs_slice['nodes']):
        if ntype not in PIN_NODES:
            why.append('node[%d]:unknown-type' % k)
            continue
        req, forb = PIN_NODES[ntype]
        fac = 'facility-' if ntype == 'Facility' else ''
        for p in req:
            if p not in props:
                why.append('node[%d]:%srequired:%s' % (k, fac, p))
        for p in forb:
            if p in props:
                why.append('node[%d]:%sforbidden:%s' % (k, fac, p))
    for k, (stype, site, props, ifaces) in enumerate(abs_slice['services']):
        if stype not in PIN_SERVICES:
            why.append('svc[%d]:unknown-type' % k)
            continue
        layer, mn, mx, nsites, ninst, req, forb, rit = PIN_SERVICES[stype]
        eps = [node_side(i) for i in ifaces]
        if any(e is None for e in eps):
            why.append('svc[%d]:service-port-peers' % k)
            continue
        if mn != NO_LIMIT and len(eps) < mn:
            why.append('svc[%d]:too-few-interfaces' % k)
        if mx != NO_LIMIT and len(eps) > mx:
            why.append('svc[%d]:too-many-interfaces' % k)
        inferred = None
        if nsites != NO_LIMIT:
            if any(o is False for _, o in eps):
                why.append('svc[%d]:ownerless-interface' % k)
                continue
            spanned = sorted(set(o for _, o in eps), key=repr)
            if len(spanned) > nsites:
                why.append('svc[%d]:too-many-sites' % k)
            elif len(spanned) == 1:
                inferred = spanned[0]
                if site is not None and site != inferred:
                    why.append('svc[%d]:declared-site-mismatch' % k)
            elif len(spanned) > 1 and site is not None:
                why.append('svc[%d]:site-declared-on-multi-site' % k)
        has_site = site is not None or inferred is not None
        for p in req:
            if not (has_site if p == 'site' else p in props):
                why.append('svc[%d]:required:%s' % (k, p))
        for p in forb:
            if (has_site if p == 'site' else p in props):
                why.append('svc[%d]:forbidden:%s' % (k, p))
        if rit:
            for it, _ in eps:
                if it not in rit:
                    why.append('svc[%d]:interface-type:%s' % (k, it))
    return why


def well_formed(abs_slice):
    """every type has a table entry and, where the number of sites is limited, every attached interface has an owner node"""
    for ntype, _ in abs_slice['nodes']:
        if ntype not in PIN_NODES:
            return False
    for stype, site, props, ifaces in abs_slice['services']:
        if stype not in PIN_SERVICES:
            return False
        eps = [node_side(i) for i in ifaces]
        if any(e is None for e in eps):
            continue
        if PIN_SERVICES[stype][3] != NO_LIMIT and any(o is False for _, o in eps):
            return False
    return True


def expected_sites(abs_slice):
    """the site each service must carry after a SUCCESSFUL validation"""
    out = []
    for stype, site, props, ifaces in abs_slice['services']:
        nsites = PIN_SERVICES[stype][3]
        eps = [node_side(i) for i in ifaces]
        exp = site
        if site is None and nsites != NO_LIMIT:
            spanned = set(o for _, o in eps)
            if len(spanned) == 1:
                exp = list(spanned)[0]
        out.append(exp)
    return out


# ------------------------------------------------------------------------------------------------
# running a recipe on the real library
# ------------------------------------------------------------------------------------------------
class Skip(Exception):
    pass


def _libs():
    import fim.user as fu
    from fim.user.topology import ExperimentTopology
    from fim.slivers.network_service import ServiceType, MirrorDirection, ERO
    from fim.slivers.path_info import Path
    from fim.slivers.network_node import NodeType
    from fim.slivers.interface_info import InterfaceType
    from fim.slivers.capacities_labels import Labels
    from fim.slivers.component_catalog import ComponentModelType
    from fim.user.link import LinkType
    return locals()


COMP_MODELS = {'shared': 'SharedNIC_ConnectX_6', 'smart': 'SmartNIC_ConnectX_6', 'smart5': 'SmartNIC_ConnectX_5',
               'gpu': 'GPU_RTX6000', 'nvme': 'NVME_P4510'}


class Builder:
    def __init__(self):
        self.L = _libs()
        self.t = self.L['ExperimentTopology']()
        self.nodes, self.comps, self.subs, self.nns, self.ports, self.svcs, self.sps = {}, {}, {}, {}, {}, {}, {}
        self.log = []
        self.refusals = []
        self.frame = []
        self.created = []

    def get(self, d, k):
        k = tuple(k) if isinstance(k, list) else k
        if k not in d:
            raise Skip(repr(k))
        return d[k]

    def iface(self, ref):
        kind = ref[0]
        try:
            if kind == 'c':
                return self.get(self.comps, (ref[1], ref[2])).interface_list[ref[3]]
            if kind in ('f', 'w'):
                return self.get(self.nodes, ref[1]).interface_list[ref[2]]
            if kind == 's':
                return self.get(self.subs, (ref[1], ref[2], ref[3], ref[4]))
            if kind == 'p':
                return self.get(self.ports, (ref[1], ref[2], ref[3]))
            if kind == 'sp':
                return self.get(self.sps, (ref[1], ref[2]))
        except IndexError:
            raise Skip(repr(ref))
        raise Skip(repr(ref))

    def propval(self, p):
        L = self.L
        if p == 'mirror_direction':
            return L['MirrorDirection'].Both
        if p == 'ero':
            e = L['ERO']()
            pth = L['Path']()
            pth.set_symmetric(['10.1.1.1', '10.1.1.2'])
            e.set(pth)
            return e
        return {'mirror_port': 'port1', 'mirror_vlan': '100', 'controller_url': 'http://ctl.example',
                'image_type': 'qcow2', 'image_ref': 'img1', 'management_ip': '10.0.0.1'}[p]

    def run_op(self, op):
        L, t = self.L, self.t
        k = op[0]
        if k == 'node':
            name, ntype, site = op[1:4]
            nprops = op[4] if len(op) > 4 else []          # properties given AT CREATION: 'image', 'management_ip'
            kw = {}
            if 'image' in nprops:
                kw.update(image_type=self.propval('image_type'), image_ref=self.propval('image_ref'))
            if 'management_ip' in nprops:
                kw['management_ip'] = self.propval('management_ip')
            n = t.add_node(name=name, site=site, ntype=L['NodeType'][ntype], **kw)
            self.nodes[name] = n
            self.read_back_node(op, n, ntype, site, nprops)
        elif k == 'facility':
            name, site, nports = op[1:4]
            nstype = op[4] if len(op) > 4 else None
            kw = {} if nstype is None else {'nstype': L['ServiceType'][nstype]}
            if nports > 1:
                kw['interfaces'] = [('%s-i%d' % (name, j), None, None) for j in range(nports)]
            n = t.add_facility(name=name, site=site, **kw)
            self.nodes[name] = n
            self.read_back_node(op, n, 'Facility', site, [])
            self.read_back_service(op, t.network_services.get(name + '-ns'), nstype or 'VLAN', None, [])
        elif k == 'switch':
            name, site, nports = op[1:4]
            nstype = op[4] if len(op) > 4 else None
            kw = {} if nstype is None else {'nstype': L['ServiceType'][nstype]}
            n = t.add_switch(name=name, site=site, nports=nports, **kw)
            self.nodes[name] = n
            self.read_back_node(op, n, 'Switch', site, [])
            self.read_back_service(op, t.network_services.get(name + '-ns'), nstype or 'P4', None, [])
        elif k == 'comp':
            _, node, cname, model = op
            self.comps[(node, cname)] = self.get(self.nodes, node).add_component(
                name=cname, model_type=L['ComponentModelType'][COMP_MODELS[model]])
        elif k == 'sub':
            _, node, comp, idx, sname, vlan = op
            parent = self.iface(['c', node, comp, idx])
            self.subs[(node, comp, idx, sname)] = parent.add_child_interface(name=sname, labels=L['Labels'](vlan=vlan))
        elif k == 'nodens':
            node, nsname, stype = op[1:4]
            site = op[4] if len(op) > 4 else None
            cprops = op[5] if len(op) > 5 else []
            kw = {p: self.propval(p) for p in cprops}
            if site is not None:
                kw['site'] = site
            ns = self.get(self.nodes, node).add_network_service(name=nsname, nstype=L['ServiceType'][stype], **kw)
            self.nns[(node, nsname)] = ns
            self.svcs[nsname] = ns
            self.read_back_service(op, ns, stype, site, cprops)
        elif k == 'port':
            _, node, nsname, pname, itype = op
            self.ports[(node, nsname, pname)] = self.get(self.nns, (node, nsname)).add_interface(
                name=pname, itype=L['InterfaceType'][itype])
        elif k == 'nprop':
            _, node, prop, on = op
            n = self.get(self.nodes, node)
            if prop == 'site':
                n.set_property('site', on)          # a site name, or None = unset
            elif prop == 'image':
                if on:
                    n.set_properties(image_type=self.propval('image_type'), image_ref=self.propval('image_ref'))
                else:
                    n.unset_property('image_type')
                    n.unset_property('image_ref')
            else:
                n.set_property(prop, self.propval(prop) if on else None)
        elif k == 'svc':
            name, stype, site, refs, via = op[1:6]
            cprops = op[6] if len(op) > 6 else []          # constrained properties given AT CREATION
            ifs = [self.iface(r) for r in refs]
            kw = {p: self.propval(p) for p in cprops}
            if site is not None:
                kw['site'] = site
            if via == 'ctor':
                self.svcs[name] = self.guarded(lambda: t.add_network_service(
                    name=name, nstype=L['ServiceType'][stype], interfaces=ifs, **kw), 'constructor ' + stype)
                self.read_back_service(op, self.svcs[name], stype, site, cprops)
            else:
                s = t.add_network_service(name=name, nstype=L['ServiceType'][stype], **kw)
                self.svcs[name] = s
                self.read_back_service(op, s, stype, site, cprops)
                for i in ifs:
                    self.guarded(lambda: s.connect_interface(i), 'connect_interface ' + stype)
        elif k == 'connect':
            _, name, ref = op
            s = self.get(self.svcs, name)
            i = self.iface(ref)
            self.guarded(lambda: s.connect_interface(i), 'connect_interface')
        elif k == 'disconnect':
            _, name, ref = op
            self.get(self.svcs, name).disconnect_interface(self.iface(ref))
        elif k == 'rmnode':
            t.remove_node(self.get(self.nodes, op[1]).name)
        elif k == 'rmfac':
            t.remove_facility(name=self.get(self.nodes, op[1]).name)
        elif k == 'rmcomp':
            _, node, cname = op
            self.get(self.comps, (node, cname))
            self.get(self.nodes, node).remove_component(name=cname)
        elif k == 'rmsub':
            _, node, comp, idx, sname = op
            self.get(self.subs, (node, comp, idx, sname))
            parent = self.iface(['c', node, comp, idx])
            sub = self.subs[(node, comp, idx, sname)]
            peers = sub.get_peers()
            if peers:                     # as remove_component does: disconnect from the parent service first
                self.t.get_parent_element(peers[0]).disconnect_interface(sub)
            parent.remove_child_interface(name=sname)
        elif k == 'mirror':
            name, from_name, ref, site = op[1:5]
            extra = op[5] if len(op) > 5 else {}            # {'vlan': bool, 'direction': bool, 'props': [...]}
            kw = {} if site is None else {'site': site}
            declared = ['mirror_port', 'mirror_direction']   # direction defaults to Both
            if extra.get('vlan'):
                kw['from_interface_vlan'] = self.propval('mirror_vlan')
                declared.append('mirror_vlan')
            if extra.get('direction'):
                kw['direction'] = L['MirrorDirection'].RX_Only
            for p in extra.get('props', []):
                kw[p] = self.propval(p)
                declared.append(p)
            to_if = self.iface(ref)
            self.svcs[name] = self.guarded(lambda: t.add_port_mirror_service(
                name=name, from_interface_name=from_name, to_interface=to_if, **kw), 'constructor PortMirror')
            self.read_back_service(op, self.svcs[name], 'PortMirror', site, declared)
        elif k == 'sprop':
            _, name, prop, on = op
            s = self.get(self.svcs, name)
            if prop == 'site':
                s.set_property('site', on)
            else:
                s.set_property(prop, self.propval(prop) if on else None)
        elif k == 'baresp':
            _, name, spname = op
            self.sps[(name, spname)] = self.get(self.svcs, name).add_interface(name=spname, itype=L['InterfaceType'].ServicePort)
        elif k == 'direct':
            _, name, iname, itype = op
            self.get(self.svcs, name).add_interface(name=iname, itype=L['InterfaceType'][itype])
        elif k == 'link':
            _, lname, refs = op
            t.add_link(name=lname, ltype=L['LinkType'].Patch, interfaces=[self.iface(r) for r in refs])
        elif k == 'peer':
            _, a, b = op
            self.get(self.svcs, a).peer(self.get(self.svcs, b))
        else:
            raise Skip('unknown op ' + k)

    def read_back_service(self, op, s, stype, site, cprops):
        """what was declared at creation is what the service carries right after creation (before any validate())"""
        if s is None:
            self.created.append({'op': op, 'declared': [stype, site, sorted(set(cprops))], 'carried': None})
            return
        carried = [str(s.type), s.site if s.site else None, sorted(p for p in SVC_PROPS if s.get_property(p))]
        declared = [stype, site, sorted(set(cprops))]       # a SET: a recipe may name a property twice
        if carried != declared:
            self.created.append({'op': op, 'declared': declared, 'carried': carried})

    def read_back_node(self, op, n, ntype, site, nprops):
        want = (['image_type', 'image_ref'] if 'image' in nprops else []) + (['management_ip'] if 'management_ip' in nprops else [])
        carried = [str(n.type), n.site if n.site else None,
                   sorted(p for p in ('image_type', 'image_ref', 'management_ip') if n.get_property(p))]
        declared = [ntype, site, sorted(want)]
        if carried != declared:
            self.created.append({'op': op, 'declared': declared, 'carried': carried})

    def guarded(self, fn, label):
        """run a connecting call; when it is REFUSED (raises) the slice must be exactly what it was before"""
        before, _ = extract(self.t)
        try:
            return fn()
        except Exception as e:
            after, _ = extract(self.t)
            self.refusals.append({'call': label, 'exception': type(e).__name__, 'unchanged': before == after,
                                  'before': before if before != after else None,
                                  'after': after if before != after else None})
            raise

    FRAMED = ('connect', 'disconnect', 'rmnode', 'rmfac', 'rmcomp', 'rmsub', 'nprop', 'baresp', 'direct', 'link', 'peer')

    def service_props(self):
        """name -> (type, site, truthy constrained properties) of every service: what only set_property on that
        service (or validate's site inference) may change"""
        out = {}
        for name, s in self.t.network_services.items():
            out[name] = [str(s.type), s.site if s.site else None, [p for p in SVC_PROPS if s.get_property(p)]]
        return out

    def build(self, ops):
        for n, op in enumerate(ops):
            framed = op[0] in self.FRAMED
            try:
                before = self.service_props() if framed else None
            except Exception:
                before = None
            try:
                try:
                    self.run_op(op)
                finally:
                    if before is not None:
                        after = self.service_props()
                        for name, v in before.items():
                            if name in after and after[name] != v:
                                self.frame.append({'op': op, 'service': name, 'before': v, 'after': after[name]})
                self.log.append('ok')
            except Skip:
                self.log.append('skipped')
            except Exception as e:
                self.log.append(type(e).__name__)
        return self.t

    def close(self):
        try:
            self.t.graph_model.importer.delete_all_graphs()
        except Exception:
            pass


def owner_of(t, i):
    """False = no owner node; None = owner whose site is unset; else the site name"""
    from fim.user.node import Node
    o = t.get_owner_node(i)
    if not isinstance(o, Node):
        return False
    s = o.site
    return s if s else None


def extract(t):
    """the abstract slice, through API-level getters that validate() itself does not rely on for nodes
    (node.components instead of the deep sliver) and the public enumeration of services/interfaces"""
    nodes = []
    allnodes = list(t.nodes.values())
    facs = t.facilities
    if facs:
        allnodes += list(facs.values())
    for n in allnodes:
        props = []
        if n.site:
            props.append('site')
        for p in ('image_type', 'image_ref', 'management_ip'):
            if n.get_property(p):
                props.append(p)
        if len(n.components) > 0:
            props.append('attached_components_info')
        nodes.append([str(n.type), props])
    services, names = [], []
    for name, s in t.network_services.items():
        names.append(name)
        props = [p for p in SVC_PROPS if s.get_property(p)]
        ifaces = []
        for i in s.interface_list:
            peers = i.get_peers()
            ifaces.append([str(i.type), owner_of(t, i),
                           None if peers is None else [[str(p.type), owner_of(t, p)] for p in peers]])
        services.append([str(s.type), s.site if s.site else None, props, ifaces])
    return {'nodes': nodes, 'services': services}, names


def split_phases(ops):
    """['validate'] markers split a recipe into phases; every phase ends with a validation"""
    phases, cur = [], []
    for op in ops:
        if op[0] == 'validate':
            phases.append(cur)
            cur = []
        else:
            cur.append(op)
    phases.append(cur)
    return phases


def run_recipe(ops):
    """-> observation dict (JSON-able).  The recipe is executed phase by phase on ONE topology object; after each
    phase the abstract slice is extracted afresh, validate() is called and the sites are read; at the end one more
    extraction + validation of the slice as the last validation left it."""
    buf = io.StringIO()
    b = None
    try:
        with contextlib.redirect_stdout(buf):
            b = Builder()
            phases = []

            def checkpoint():
                absl, names = extract(b.t)
                try:
                    b.t.validate()
                    res = 'Ok'
                except Exception as e:
                    res = type(e).__name__
                out = []
                ns2 = b.t.network_services
                for name in names:
                    s = ns2.get(name)
                    out.append((s.site if s.site else None) if s is not None else '?missing')
                if list(ns2.keys()) != names:
                    res = 'HARNESS:service-list-changed'
                phases.append({'abs': absl, 'res': res, 'sites': out})
            for ph in split_phases(ops):
                b.build(ph)
                checkpoint()
            checkpoint()          # validating again what the last validation left
        last = phases[-2]
        return {'abs': last['abs'], 'res': last['res'], 'sites': last['sites'], 'build': b.log, 'phases': phases,
                'refusals': b.refusals, 'frame': b.frame, 'created': b.created}
    except Exception as e:     # the extraction itself failed: reported as a harness problem, never hidden
        return {'abs': {'nodes': [], 'services': []}, 'res': 'HARNESS:' + type(e).__name__ + ':' + str(e)[:200],
                'sites': [], 'build': b.log if b else [], 'phases': [], 'refusals': []}
    finally:
        if b:
            b.close()


def _worker(ops):
    return run_recipe(ops)


def _connect_worker(case):
    return Connect().observe1(case)


# ------------------------------------------------------------------------------------------------
# Coq printers
# ------------------------------------------------------------------------------------------------
def cs(s):
    assert all(32 <= ord(c) < 127 and c != '"' for c in s), s
    return '"%s"%%string' % s


def c_site(s):
    return 'None' if s is None else '(Some %s)' % cN(SITES.index(s) + 1)


def c_owner(o):
    return 'None' if o is False else '(Some %s)' % c_site(o)


def c_slice(a):
    nodes = clist(['mk_anode %s %s' % (cs(nt), clist([cs(p) for p in props])) for nt, props in a['nodes']])
    svcs = []
    for st, site, props, ifaces in a['services']:
        ifs = []
        for it, owner, peers in ifaces:
            pe = 'None' if peers is None else '(Some %s)' % clist(['mk_ep %s %s' % (cs(pt), c_owner(po)) for pt, po in peers])
            ifs.append('mk_if %s %s %s' % (cs(it), c_owner(owner), pe))
        svcs.append('mk_asvc %s %s %s %s' % (cs(st), c_site(site), clist([cs(p) for p in props]), clist(ifs)))
    return '(mk_slice %s %s)' % (nodes, clist(svcs))


RES = {'Ok': 'Ok', 'TopologyException': 'Err ETopology', 'AttributeError': 'Err EAttribute', 'KeyError': 'Err EKey'}

KNOWN_REASON = r'(svc\[\d+\]:declared-site-mismatch|node\[\d+\]:facility-(forbidden|required):\w+)'


# ------------------------------------------------------------------------------------------------
# generator
# ------------------------------------------------------------------------------------------------
VMT = ['VM', 'VM', 'Server', 'Container']
CUSTOM_IT = ['AccessPort', 'TrunkPort', 'vInt', 'StitchPort', 'ServicePort', 'DedicatedPort', 'SharedPort']


class World:
    """bookkeeping used only to GENERATE sensible recipes (which interfaces exist, of which kind, at which
    site, still free); nothing of it reaches the oracle or the model"""

    def __init__(self, rng):
        self.rng = rng
        self.ops = []
        self.free = []      # (ref, kind, site)
        self.n = 0
        self.svc_refs = {}  # service name -> interface refs it was given
        self.svc_type = {}

    def name(self, p):
        self.n += 1
        return '%s%d' % (p, self.n)

    def vm(self, site, nics):
        nm = self.name('nd')
        self.ops.append(['node', nm, self.rng.choice(VMT), site])
        for k, model in enumerate(nics):
            cn = 'nic%d' % k
            self.ops.append(['comp', nm, cn, model])
            if model == 'shared':
                self.free.append((['c', nm, cn, 0], 'SharedPort', site))
            elif model in ('smart', 'smart5'):
                for j in range(2):
                    self.free.append((['c', nm, cn, j], 'DedicatedPort', site))
        return nm

    def sub(self, site):
        nm = self.vm(site, ['smart'])
        # the two dedicated ports just added stay usable; the sub-interface hangs off port 0
        self.free = [f for f in self.free if not (f[0][1] == nm and f[0][3] == 0)]
        sn = self.name('sub')
        self.ops.append(['sub', nm, 'nic0', 0, sn, str(100 + self.n)])
        self.free.append((['s', nm, 'nic0', 0, sn], 'SubInterface', site))
        return nm

    def facility(self, site, nports=1):
        nm = self.name('fac')
        self.ops.append(['facility', nm, site, nports])
        for j in range(max(nports, 1)):
            self.free.append((['f', nm, j], 'FacilityPort', site))
        return nm

    def switch(self, site, nports=2):
        nm = self.name('sw')
        self.ops.append(['switch', nm, site, nports])
        for j in range(nports):
            self.free.append((['w', nm, j], 'DedicatedPort', site))
        return nm

    def custom(self, site, itype, ntype='VM'):
        nm = self.name('nd')
        self.ops.append(['node', nm, ntype, site])
        ns = nm + '-xns'
        self.ops.append(['nodens', nm, ns, 'OVS'])
        self.ops.append(['port', nm, ns, 'xp', itype])
        self.free.append((['p', nm, ns, 'xp'], itype, site))
        return nm

    def take(self, kind=None, site=None, notsite=None):
        c = [f for f in self.free if (kind is None or f[1] in kind) and (site is None or f[2] == site)
             and (notsite is None or f[2] not in notsite)]
        if not c:
            return None
        f = self.rng.choice(c)
        self.free.remove(f)
        return f


def ensure(w, kind, site):
    """make an interface of that kind at that site available"""
    rng = w.rng
    if kind == 'SharedPort':
        w.vm(site, ['shared'])
    elif kind == 'DedicatedPort':
        if rng.random() < 0.2:
            w.switch(site, 2)
        else:
            w.vm(site, [rng.choice(['smart', 'smart5'])])
    elif kind == 'FacilityPort':
        w.facility(site, rng.choice([1, 1, 2]))
    elif kind == 'SubInterface':
        w.sub(site)
    else:
        w.custom(site, kind)


def gen_service(w, stype, k, placement, kinds, declared, props, via, name=None):
    """k interfaces; placement = list of sites (one per interface); kinds = list of interface kinds"""
    refs = []
    for j in range(k):
        site, kind = placement[j], kinds[j]
        f = w.take(kind=[kind], site=site)
        if f is None:
            ensure(w, kind, site)
            f = w.take(kind=[kind], site=site)
        if f is not None:
            refs.append(f[0])
    name = name or w.name('svc')
    w.svc_refs[name] = list(refs)
    w.svc_type[name] = stype
    at_creation = getattr(w, 'at_creation', False)
    if stype == 'PortMirror' and 'mirror_api' in props and refs:
        rest = [p for p in props if p not in ('mirror_api', 'mirror_port', 'mirror_direction')]
        extra = {'vlan': 'mirror_vlan' in rest, 'direction': w.rng.random() < 0.5,
                 'props': [p for p in rest if p != 'mirror_vlan'] if at_creation else []}
        w.ops.append(['mirror', name, 'port0', refs[0], declared, extra])
        later = [] if at_creation else [p for p in rest if p != 'mirror_vlan']
    else:
        plain = []
        for p in props:
            if p != 'mirror_api' and p not in plain:
                plain.append(p)
        w.ops.append(['svc', name, stype, declared, refs, via] + ([plain] if at_creation else []))
        later = [] if at_creation else plain
    for p in later:
        w.ops.append(['sprop', name, p, True])
    return name


def random_case(rng, size):
    w = World(rng)
    w.at_creation = rng.random() < 0.5
    sites = SITES[:rng.choice([1, 2, 2, 3, 3, 4])]
    # some background nodes
    for _ in range(rng.randrange(0, 2)):
        w.vm(rng.choice(sites), [rng.choice(['shared', 'smart', 'gpu', 'nvme'])])
    nsvc = rng.choice([1, 1, 1, 2, 2, 3]) if size > 0 else 0
    svcnames = []
    for _ in range(nsvc):
        stype = rng.choice(STYPES)
        layer, mn, mx, nsites, ninst, req, forb, rit = PIN_SERVICES[stype]
        # interface count: around the limits
        k = rng.choice([0, 1, 1, 2, 2, 2, 3, 4]) if rng.random() < 0.5 else \
            rng.choice([max(mn, 1), max(mn, 1), mx if mx else 3, (mx + 1) if mx else 4, max(mn - 1, 0)])
        k = min(k, 4)
        mode = rng.randrange(6)
        if mode <= 1:
            placement = [rng.choice(sites)] * k
        elif mode == 2:
            two = rng.sample(sites, min(2, len(sites)))
            placement = [two[j % len(two)] for j in range(k)]
        else:
            placement = [rng.choice(sites) for _ in range(k)]
        good = rit if rit else ['DedicatedPort', 'SharedPort', 'FacilityPort', 'SubInterface']
        if stype == 'L2PTP' and rng.random() < 0.25:
            good = good + ['SharedPort']
        kinds = [rng.choice(good) if rng.random() < 0.85 else rng.choice(ITYPES[:2] + ITYPES[3:]) for _ in range(k)]
        d = rng.random()
        declared = None
        if d < 0.25 and placement:
            declared = placement[0]
        elif d < 0.4:
            declared = rng.choice(SITES)
        props = []
        if stype == 'PortMirror':
            if rng.random() < 0.7:
                props.append('mirror_api')
            else:
                props += [p for p in ('mirror_port', 'mirror_direction') if rng.random() < 0.7]
        if rng.random() < 0.25:
            props.append(rng.choice(SVC_PROPS))
        via = 'ctor' if rng.random() < 0.7 else 'connect'
        svcnames.append((gen_service(w, stype, k, placement, kinds, declared, props, via), stype))
    # node-level oddities
    r = rng.random()
    if r < 0.08:
        nm = w.name('sw')
        w.ops.append(['node', nm, rng.choice(['Switch', 'NAS']), rng.choice(sites)])
        x = rng.random()
        if x < 0.4:
            w.ops.append(['comp', nm, 'gpu0', rng.choice(['gpu', 'nvme', 'shared'])])
        elif x < 0.7:
            w.ops.append(['nprop', nm, 'image', True])
        elif x < 0.85:
            w.ops.append(['nprop', nm, 'site', None])
    elif r < 0.16:
        fac = [op[1] for op in w.ops if op[0] == 'facility']
        nm = fac[0] if fac else w.facility(rng.choice(sites))
        x = rng.random()
        w.ops.append(['nprop', nm, rng.choice(['image', 'management_ip']), True] if x < 0.7
                     else ['comp', nm, 'gpu0', 'gpu'] if x < 0.85 else ['nprop', nm, 'site', None])
    elif r < 0.22:
        vms = [op[1] for op in w.ops if op[0] == 'node' and op[2] in VMT]
        if vms:
            nm = rng.choice(vms)
            w.ops.append(['nprop', nm, rng.choice(['site', 'site', 'image', 'management_ip']), None]
                         if rng.random() < 0.6 else ['nprop', nm, 'image', True])
            if w.ops[-1][2] != 'site' and w.ops[-1][3] is None:
                w.ops[-1][3] = True
    elif r < 0.25 and svcnames:
        # unset the site of a switch/facility whose port is in use, or re-site a node after the fact
        nds = [op[1] for op in w.ops if op[0] in ('switch', 'facility', 'node')]
        if nds:
            w.ops.append(['nprop', rng.choice(nds), 'site', rng.choice([None, rng.choice(SITES)])])
    # malformed service structure
    r = rng.random()
    if svcnames and r < 0.05:
        w.ops.append(['baresp', rng.choice(svcnames)[0], 'bsp'])
    elif svcnames and r < 0.09:
        sv = rng.choice(svcnames)[0]
        w.ops.append(['baresp', sv, 'bsp'])
        a, b = w.take(), w.take()
        if a and b:
            w.ops.append(['link', 'lk1', [['sp', sv, 'bsp'], a[0], b[0]]])
    elif svcnames and r < 0.13:
        w.ops.append(['direct', rng.choice(svcnames)[0], 'dp', rng.choice(['TrunkPort', 'AccessPort', 'DedicatedPort'])])
    elif len(svcnames) >= 2 and r < 0.16:
        w.ops.append(['peer', svcnames[0][0], svcnames[1][0]])
    elif svcnames and r < 0.19:
        # a late property change on an existing service
        w.ops.append(['sprop', rng.choice(svcnames)[0], 'site', rng.choice([None] + SITES[:3])])
    # later connects on an existing service (also pairs the guardrail must refuse at once)
    if svcnames and rng.random() < 0.2:
        connect_step(w, rng, sites)
    # sessions: validate, change the slice, validate again (each validation is judged on the slice as it then is)
    if svcnames and rng.random() < 0.35:
        for _ in range(rng.choice([1, 1, 2])):
            w.ops.append(['validate'])
            for _ in range(rng.choice([1, 1, 2, 3])):
                mutate_step(w, rng, sites)
    return w.ops


def owner_node(ref):
    return ref[1]


def connect_step(w, rng, sites):
    name = rng.choice(sorted(w.svc_refs))
    stype = w.svc_type[name]
    if stype == 'L2PTP' and rng.random() < 0.6:
        kind = 'SharedPort'           # the guardrail pair
    else:
        kind = rng.choice(['DedicatedPort', 'SharedPort', 'FacilityPort', 'SubInterface', 'DedicatedPort'])
    site = rng.choice(sites)
    f = w.take(kind=[kind], site=site)
    if f is None:
        ensure(w, kind, site)
        f = w.take(kind=[kind], site=site)
    if f is not None:
        w.ops.append(['connect', name, f[0]])
        w.svc_refs[name].append(f[0])


def mutate_step(w, rng, sites):
    names = sorted(w.svc_refs)
    r = rng.random()
    used = [ref for n in names for ref in w.svc_refs[n]]
    if r < 0.45 and used:
        # move a node that owns a connected interface to another (or the same, or no) site
        ref = rng.choice(used)
        w.ops.append(['nprop', owner_node(ref), 'site', rng.choice(SITES[:3] + [rng.choice(sites)] + ([None] if rng.random() < 0.15 else []))])
    elif r < 0.6:
        connect_step(w, rng, sites)
    elif r < 0.72:
        name = rng.choice(names)
        if w.svc_refs[name]:
            ref = rng.choice(w.svc_refs[name])
            w.svc_refs[name].remove(ref)
            w.ops.append(['disconnect', name, ref])
    elif r < 0.9:
        name = rng.choice(names)
        prop = rng.choice(SVC_PROPS + ['site', 'site'])
        if prop == 'site':
            w.ops.append(['sprop', name, 'site', rng.choice([None] + SITES[:3])])
        else:
            w.ops.append(['sprop', name, prop, rng.random() < 0.6])
    else:
        nds = [op[1] for op in w.ops if op[0] in ('node', 'switch', 'facility')]
        if nds:
            w.ops.append(['nprop', rng.choice(nds), rng.choice(['image', 'management_ip']), rng.random() < 0.5])


def valid_base(w, stype, sites=('A', 'B')):
    """a service of that type that meets every constraint; returns its name"""
    layer, mn, mx, nsites, ninst, req, forb, rit = PIN_SERVICES[stype]
    k = max(mn, 1)
    placement = [sites[j % 2] if nsites != 1 else sites[0] for j in range(k)]
    return gen_service(w, stype, k, placement, ['DedicatedPort'] * k, None,
                       ['mirror_api'] if stype == 'PortMirror' else [], 'ctor')


def single_defect_cases():
    """for every service type a valid service, and the same with exactly ONE defect of each kind: the
    accept/reject decision then hinges on that clause alone (always run in full, never sampled)"""
    rnd = __import__('random').Random(10)
    out = []
    for stype in STYPES:
        layer, mn, mx, nsites, ninst, req, forb, rit = PIN_SERVICES[stype]
        k = max(mn, 1)

        def base(kinds=None, placement=None, declared=None, props=None, kk=None, via='ctor', at_creation=False):
            w = World(rnd)
            w.at_creation = at_creation
            n = k if kk is None else kk
            pl = placement or [('A', 'B')[j % 2] if nsites != 1 else 'A' for j in range(n)]
            nm = gen_service(w, stype, n, pl, kinds or ['DedicatedPort'] * n, declared,
                             (props if props is not None else (['mirror_api'] if stype == 'PortMirror' else [])), via)
            return w, nm
        out.append(base()[0].ops)
        out.append(base(via='connect')[0].ops)
        if mn > 0 and k - 1 >= 0:
            out.append(base(kk=mn - 1)[0].ops)                                   # one interface too few
        if mx:
            out.append(base(kk=mx + 1)[0].ops)                                   # one too many
        if nsites:
            n = max(k, nsites + 1)
            if not mx or n <= mx:
                out.append(base(kk=n, placement=['A', 'B', 'C', 'D'][:n])[0].ops)    # one site too many
            if nsites == 1:
                out.append(base(declared='B')[0].ops)                            # declared site disagrees
                out.append(base(declared='A')[0].ops)                            # ... agrees
            elif k >= 2:
                out.append(base(declared='A')[0].ops)                            # declared on a multi-site service
        for p in forb:
            if p in SVC_PROPS:
                for ac in (False, True):
                    out.append(base(props=(['mirror_api'] if stype == 'PortMirror' else []) + [p], at_creation=ac)[0].ops)
        if stype == 'PortMirror':
            # add_port_mirror_service with every declarable keyword, site agreeing / disagreeing / absent
            for dsite in (None, 'A', 'B'):
                out.append(base(declared=dsite, props=['mirror_api', 'mirror_vlan'], at_creation=True)[0].ops)
            out.append(base(props=['mirror_port', 'mirror_direction'], at_creation=True)[0].ops)   # generic constructor
            out.append(base(declared='B', props=['mirror_port', 'mirror_direction'], at_creation=True)[0].ops)
        # the other creation entry points: a node-owned service of this type (site none / agreeing / disagreeing, each
        # constrained property given at creation), the implicit service of a facility and of a switch
        for dsite in (None, 'A', 'B'):
            out.append([['node', 'nd1', 'VM', 'A'], ['nodens', 'nd1', 'nd1-ns', stype, dsite, []],
                        ['port', 'nd1', 'nd1-ns', 'xp', 'DedicatedPort']])
        for p in SVC_PROPS:
            out.append([['node', 'nd1', 'VM', 'A'], ['nodens', 'nd1', 'nd1-ns', stype, None, [p]],
                        ['port', 'nd1', 'nd1-ns', 'xp', 'DedicatedPort']])
        out.append([['facility', 'fac1', 'A', 1, stype]])
        out.append([['switch', 'sw1', 'A', 2, stype]])
        if stype == 'PortMirror':
            out.append(base(props=['mirror_port'])[0].ops)                       # a required property missing
            out.append(base(props=['mirror_direction'])[0].ops)
            out.append(base(props=['mirror_port', 'mirror_direction'])[0].ops)
        # interface types: every connectable kind in the first position (alone decisive for types that list them)
        for kind in ['SharedPort', 'FacilityPort', 'SubInterface', 'AccessPort', 'TrunkPort', 'vInt', 'StitchPort']:
            kinds = [kind] + ['DedicatedPort'] * (k - 1)
            for via in ('ctor', 'connect'):
                if (stype, kind) in PIN_GUARD:
                    continue
                out.append(base(kinds=kinds, via=via)[0].ops)
        # a pair the guardrail refuses, brought in around connect_interface (as a loaded graph would): ServicePort + link
        for (gs, gk) in PIN_GUARD:
            if gs == stype:
                w, nm = base(kk=k - 1)
                ensure(w, gk, 'A')
                f = w.take(kind=[gk], site='A')
                w.ops += [['baresp', nm, 'lsp'], ['link', 'lnk1', [['sp', nm, 'lsp'], f[0]]]]
                out.append(w.ops)
        w, nm = base()
        w.ops.append(['baresp', nm, 'bsp'])                                      # a ServicePort without peer
        out.append(w.ops)
    for ntype in ['VM', 'Server', 'Container', 'Switch', 'NAS']:
        for nprops in ([], ['image'], ['management_ip'], ['image', 'management_ip']):
            out.append([['node', 'nd1', ntype, 'A', nprops]])
    return out


def reconnect_cases(rng, n):
    """a service with a DECLARED or an INFERRED (validated) site loses all its interfaces -- by disconnect_interface,
    or because the node / component / facility / sub-interface goes away -- and is connected again in the same
    or in another site"""
    out = []
    for _ in range(n):
        w = World(rng)
        stype = rng.choice(['L2Bridge', 'L2Bridge', 'FABNetv4', 'FABNetv6Ext', 'PortMirror', 'L2STS', 'L2PTP', 'L2Path', 'VLAN',
                            'L2Multisite'])
        nsites = PIN_SERVICES[stype][3]
        k = 1 if stype == 'PortMirror' else rng.choice([1, 1, 2])
        s0 = rng.choice(SITES[:2])
        how = rng.choice(['disconnect', 'disconnect', 'rmnode', 'rmcomp', 'rmfac', 'rmsub'])
        kind = {'rmfac': 'FacilityPort', 'rmsub': 'SubInterface'}.get(how, 'DedicatedPort')
        declared = rng.choice([s0, s0, None, rng.choice(SITES[:3])])
        name = gen_service(w, stype, k, [s0] * k, [kind] * k, declared,
                           ['mirror_port', 'mirror_direction'] if stype == 'PortMirror' else [], rng.choice(['ctor', 'connect']))
        if rng.random() < 0.6:
            w.ops.append(['validate'])
        keep = 0 if rng.random() < 0.8 else 1                     # mostly: ALL interfaces go
        refs = list(w.svc_refs[name])
        for ref in refs[keep:]:
            if how == 'disconnect':
                w.ops.append(['disconnect', name, ref])
            elif how == 'rmnode':
                w.ops.append(['rmnode', ref[1]])
            elif how == 'rmcomp':
                w.ops.append(['rmcomp', ref[1], ref[2]])
            elif how == 'rmfac':
                w.ops.append(['rmfac', ref[1]])
            else:
                w.ops.append(['rmsub', ref[1], ref[2], ref[3], ref[4]])
            w.svc_refs[name].remove(ref)
        if rng.random() < 0.4:
            w.ops.append(['validate'])
        s1 = rng.choice([x for x in SITES[:3] if x != s0] + [s0])
        for _ in range(rng.choice([1, 1, 2]) if stype != 'PortMirror' else 1):
            ensure(w, 'DedicatedPort', s1)
            f = w.take(kind=['DedicatedPort'], site=s1)
            if f:
                w.ops.append(['connect', name, f[0]])
                w.svc_refs[name].append(f[0])
        out.append(w.ops)
    return out


def session_cases(rng, n):
    """the two-site / one-site scenarios around a node that moves between validations"""
    out = []
    for _ in range(n):
        w = World(rng)
        stype = rng.choice(['L2STS', 'L2Bridge', 'L2PTP', 'FABNetv4', 'L2Path', 'PortMirror', 'L2Multisite', 'P4', 'FABNetv6Ext'])
        k = rng.choice([1, 2, 2, 3])
        placement = [rng.choice(SITES[:3]) for _ in range(k)]
        name = gen_service(w, stype, k, placement, ['DedicatedPort'] * k, rng.choice([None, None, placement[0]]),
                           ['mirror_api'] if stype == 'PortMirror' else [], rng.choice(['ctor', 'connect']))
        for _ in range(rng.choice([1, 2, 3])):
            w.ops.append(['validate'])
            if w.svc_refs[name] and rng.random() < 0.8:
                w.ops.append(['nprop', owner_node(rng.choice(w.svc_refs[name])), 'site', rng.choice(SITES[:3])])
            else:
                mutate_step(w, rng, SITES[:3])
        out.append(w.ops)
    return out


def product_cases(rng, tier):
    """the quantifier of the property, systematically: service type x interface count 0..4 x site placement
    x interface kinds x declared site x one constrained property at a time (+ node types x node properties)"""
    out = []
    placements = {'same': lambda k: ['A'] * k, 'two': lambda k: ['A', 'B', 'A', 'B'][:k],
                  'three': lambda k: ['A', 'B', 'C', 'A'][:k]}
    kindsets = {'ded': lambda k: ['DedicatedPort'] * k,
                'shared1': lambda k: (['SharedPort'] + ['DedicatedPort'] * 3)[:k],
                'fac-sub': lambda k: ['FacilityPort', 'SubInterface', 'DedicatedPort', 'FacilityPort'][:k],
                'odd': lambda k: ['DedicatedPort', 'AccessPort', 'vInt', 'TrunkPort'][:k]}
    for stype in STYPES:
        for k in range(5):
            for pl in placements:
                for ks in kindsets:
                    for declared in (None, 'A', 'B', 'D'):
                        base = ['none'] + SVC_PROPS
                        if stype == 'PortMirror':
                            base = ['none', 'mirror_api', 'mirror_port', 'mirror_direction', 'mirror_port+mirror_direction',
                                    'mirror_api+controller_url', 'mirror_api+mirror_vlan']
                        for pr in base:
                            out.append((stype, k, pl, ks, declared, pr))
    if tier == 'quick':
        out = rng.sample(out, 400)
    else:
        out = rng.sample(out, 9000)
    cases = []
    for (stype, k, pl, ks, declared, pr) in out:
        w = World(rng)
        props = [] if pr == 'none' else pr.split('+')
        gen_service(w, stype, k, placements[pl](k), kindsets[ks](k), declared, props, 'connect' if (k + len(pr)) % 3 == 0 else 'ctor')
        cases.append(w.ops)
    # node types x each constrained node property
    for ntype in ['VM', 'Server', 'Container', 'Switch', 'NAS', 'Facility']:
        for mut in (None, ['site', None], ['image', True], ['management_ip', True], 'gpu', 'nic'):
            ops = [['facility', 'nd1', 'A', 1]] if ntype == 'Facility' else [['node', 'nd1', ntype, 'A']]
            if isinstance(mut, list):
                ops.append(['nprop', 'nd1'] + mut)
            elif mut == 'gpu':
                ops.append(['comp', 'nd1', 'gpu0', 'gpu'])
            elif mut == 'nic':
                ops.append(['comp', 'nd1', 'nic0', 'shared'])
            cases.append(ops)
    return cases


class Slices(Stream):
    name = 'slices'
    header = ('From Coq Require Import List ZArith NArith String.\nImport ListNotations.\n'
              'From FIM Require Import Base.C10Types Model.Validate10.\n')
    case_type = 'list (slice * (result * list osite))'
    check_fn = 'check_phases_repaired' if REPAIRED else 'check_phases'
    shard = 150
    rule = ('build recipes (nodes of all 6 types with NIC/GPU components, facilities, switches, sub-interfaces, custom '
            'ports of every InterfaceType, services of all 15 types with 0..4 interfaces over 1..4 sites, declared '
            'site none/matching/mismatching, each constrained property set or not, bare/multi-peer ServicePorts, '
            'ownerless ports, peered services, late property changes) executed on the real ExperimentTopology; '
            'compared: accept / exception class of validate() and the site of every service afterwards; '
            'non-trivial = at least one network service; distinct by (abstract slice, outcome)')

    def __init__(self):
        self.cache = {}

    def corpus(self):
        out = []
        d = os.path.join(VERIF, 'corpus', 'C10')
        if os.path.isdir(d):
            for f in sorted(os.listdir(d)):
                if f.endswith('.json'):
                    with open(os.path.join(d, f)) as fh:
                        j = json.load(fh)
                    if j.get('stream', 'slices') == 'slices':
                        out.append(j['case'])
        return out + [w[1] for w in WITNESSES]

    def gen(self, rng, tier):
        n = 380 if tier == 'quick' else 12000
        cases = product_cases(rng, tier)
        for i in range(n):
            cases.append(random_case(rng, 1 if i % 25 else 0))
        cases += session_cases(rng, 120 if tier == 'quick' else 3000)
        cases += reconnect_cases(rng, 100 if tier == 'quick' else 2500)
        rng.shuffle(cases)      # so that a time-limited prefix is a fair sample of the whole plan
        always = single_defect_cases()      # never sampled, never cut by the budget
        self.precompute(self.corpus() + always, None)
        budget = float(os.environ.get('VERIF_C10_BUDGET', '') or (55 if tier == 'quick' else 540))
        done = self.precompute(cases, budget, minimum=300)
        if done < len(cases):
            log('C10: observation budget of %.0f s reached after %d of %d planned cases' % (budget, done, len(cases)))
        return always + cases[:done]

    def precompute(self, cases, budget, minimum=0):
        """the implementation runs take ~0.1 s each: run them in worker processes (same code path: run_recipe),
        keep the observations for observe().  With a budget (seconds) only the prefix observed in time is used
        (the machine is shared; the plan is shuffled, so the prefix is a fair sample).  Returns the prefix length."""
        import multiprocessing as mp
        t0 = time.time()
        nproc = max(1, min(NPROC, 12))
        done = 0
        try:
            ctx = mp.get_context('fork')
            with ctx.Pool(nproc) as pool:
                for c, o in zip(cases, pool.imap(_worker, cases, chunksize=4)):
                    self.cache[json.dumps(c)] = o
                    done += 1
                    if budget is not None and done >= minimum and time.time() - t0 > budget:
                        pool.terminate()
                        break
        except Exception as e:
            log('C10: parallel observation failed (%r), falling back to sequential' % e)
            done = len(cases) if budget is None else max(done, min(len(cases), minimum))
        return done

    def observe(self, case):
        k = json.dumps(case)
        if k in self.cache:
            return self.cache.pop(k)
        return run_recipe(case)

    def to_coq(self, case, o):
        out = []
        for ph in o['phases']:
            res = RES.get(ph['res'], 'Err EUnmodelled')
            sites = clist([c_site(s) if s in SITES or s is None else 'None' for s in ph['sites']])
            out.append('(%s, (%s, %s))' % (c_slice(ph['abs']), res, sites))
        return clist(out)

    def oracle1(self, ph):
        """one validation against the pinned tables, on the slice as it was at that moment"""
        why = allowed(ph['abs'])
        if ph['res'] == 'Ok' and why:
            return 'accepted-not-allowed: ' + ', '.join(why)
        if ph['res'] != 'Ok' and not why:
            return 'rejected-but-allowed: validate() raised %s on a slice the pinned tables allow' % ph['res']
        if ph['res'] == 'Ok':
            exp = expected_sites(ph['abs'])
            if exp != ph['sites']:
                return 'site-not-recorded: expected %r, services carry %r' % (exp, ph['sites'])
        elif ph['res'] != 'TopologyException' and well_formed(ph['abs']):
            return 'wrong-exception: validate() raised %s (not TopologyException) on a well-formed slice' % ph['res']
        return None

    def oracle(self, case, o):
        if o['res'].startswith('HARNESS'):
            return 'harness problem: ' + o['res']
        for r in o.get('refusals', []):
            if not r['unchanged']:
                return ('refusal-changed-slice: %s raised %s but left the slice modified (before %s / after %s)'
                        % (r['call'], r['exception'], json.dumps(r['before'])[:400], json.dumps(r['after'])[:400]))
        for cr in o.get('created', []):
            return ('creation-dropped-declaration: %s declared (type, site, properties) %s but the element carries %s right '
                    'after creation' % (json.dumps(cr['op'])[:300], json.dumps(cr['declared']), json.dumps(cr['carried'])))
        for fr in o.get('frame', []):
            return ('declared-state-changed: %s changed service %s from (type, site, properties) %s to %s; only set_property '
                    'on the service or validate() may do that' % (json.dumps(fr['op']), fr['service'],
                                                                json.dumps(fr['before']), json.dumps(fr['after'])))
        phases = o['phases']
        for k, ph in enumerate(phases):
            if ph['res'].startswith('HARNESS'):
                return 'harness problem: ' + ph['res']
            why = self.oracle1(ph)
            if why:
                return why if k == len(phases) - 2 or len(phases) == 2 else 'validation #%d of the session: %s' % (k + 1, why)
        # validating again: same verdict, same sites, and the first validation changed nothing but the sites
        a, b2 = phases[-2], phases[-1]
        if b2['res'] != a['res'] or b2['sites'] != a['sites']:
            return 'not-stable: a second validate() gave %s with sites %r after %s with %r' % (
                b2['res'], b2['sites'], a['res'], a['sites'])
        exp_abs = {'nodes': a['abs']['nodes'],
                   'services': [[st, sa, props, ifs] for (st, _, props, ifs), sa in zip(a['abs']['services'], a['sites'])]}
        if b2['abs'] != exp_abs:
            return 'validate-changed-slice: validate() changed more than the recorded sites'
        return None

    def known_signature(self, case, o, why):
        return why or ''

    def key(self, case, o):
        if not o['abs']['services']:
            return None
        return stable_hash([[ph['abs'], ph['res']] for ph in o['phases'][:-1]])

    def describe(self, case, o):
        return {'case': case, 'impl': {'validations': [{'abstract_slice': ph['abs'], 'validate': ph['res'],
                                                        'sites_after': ph['sites']} for ph in o['phases']],
                                       'refused_connects': o.get('refusals', [])}}

    def histogram(self, cases, obs):
        h = {'accepted': 0, 'rejected_TopologyException': 0, 'rejected_other': 0, 'by_service_type': {},
             'interfaces_per_service': {}, 'rejection_reasons': {}, 'site_inferred': 0, 'build_refusals': 0,
             'accepted_but_pinned_tables_disallow': 0, 'sessions_with_2plus_validations': 0, 'validations': 0,
             'verdict_changed_within_session': 0, 'refused_connects': 0}
        for c, o in zip(cases, obs):
            h['validations'] += len(o['phases'])
            if len(o['phases']) > 2:
                h['sessions_with_2plus_validations'] += 1
                if len(set(ph['res'] == 'Ok' for ph in o['phases'])) > 1:
                    h['verdict_changed_within_session'] += 1
            h['refused_connects'] += len(o.get('refusals', []))
            if o['res'] == 'Ok':
                h['accepted'] += 1
            elif o['res'] == 'TopologyException':
                h['rejected_TopologyException'] += 1
            else:
                h['rejected_other'] += 1
            h['build_refusals'] += sum(1 for x in o['build'] if x not in ('ok', 'skipped'))
            for (st, site, props, ifaces), after in zip(o['abs']['services'], o['sites']):
                h['by_service_type'][st] = h['by_service_type'].get(st, 0) + 1
                k = str(len(ifaces))
                h['interfaces_per_service'][k] = h['interfaces_per_service'].get(k, 0) + 1
                if site is None and after is not None and o['res'] == 'Ok':
                    h['site_inferred'] += 1
            why = allowed(o['abs'])
            if why and o['res'] == 'Ok':
                h['accepted_but_pinned_tables_disallow'] += 1
            for r in why:
                kind = re.sub(r'\[\d+\]', '', r)
                h['rejection_reasons'][kind] = h['rejection_reasons'].get(kind, 0) + 1
        return h

    def fail_kind(self, why):
        """(category, non-known reason kinds) of an oracle message; None when it is no failure or a known finding"""
        if not why:
            return None
        for k in known_for('C10'):
            if k.get('signature') and re.search(k['signature'], why):
                return None
        why = re.sub(r'^validation #\d+ of the session: ', '', why)
        cat = why.split(':')[0]
        kinds = frozenset(re.sub(r'\[\d+\]', '', r) for r in why.split(': ', 1)[-1].split(', ')
                          if not re.fullmatch(KNOWN_REASON, r)) if cat == 'accepted-not-allowed' else frozenset()
        return (cat, kinds)

    def shrink(self, case, failing_any):
        k0 = self.fail_kind(self.oracle(case, self.observe(case)))
        if k0 is None:
            return case

        def failing(c):
            k = self.fail_kind(self.oracle(c, self.observe(c)))
            return k is not None and k[0] == k0[0] and (not k0[1] or (k[1] & k0[1]))
        case = list(case)
        changed = True
        while changed:
            changed = False
            for i in range(len(case) - 1, -1, -1):
                cand = case[:i] + case[i + 1:]
                if cand and failing(cand):
                    case = cand
                    changed = True
            # drop interfaces of services one at a time
            for i, op in enumerate(case):
                if op[0] == 'svc' and len(op[4]) > 0:
                    for j in range(len(op[4])):
                        cand = [list(x) for x in case]
                        cand[i] = op[:4] + [op[4][:j] + op[4][j + 1:]] + op[5:]
                        if failing(cand):
                            case = cand
                            changed = True
                            break
            # drop a declared site that plays no role
            for i, op in enumerate(case):
                if op[0] == 'svc' and op[3] is not None:
                    cand = [list(x) for x in case]
                    cand[i][3] = None
                    if failing(cand):
                        case = cand
                        changed = True
        return case


# ------------------------------------------------------------------------------------------------
# connect-time guardrail
# ------------------------------------------------------------------------------------------------
class Connect(Stream):
    name = 'connect'
    header = ('From Coq Require Import List ZArith NArith String.\nImport ListNotations.\n'
              'From FIM Require Import Base.C10Types Model.Validate10.\n')
    case_type = 'string * string * bool * bool'
    check_fn = 'check_connect_repaired' if REPAIRED else 'check_connect'
    rule = ('exhaustive: 15 service types x 9 interface types x {constructor interfaces=[..], connect_interface() on an '
            'existing (valid where possible) service}; observed: is the connection refused at once (TopologyException), '
            'and after a refusal are the abstract slice and the validate() verdict what they were before; distinct by case')

    def __init__(self):
        self.cache = {}

    def gen(self, rng, tier):
        cases = [[st, it, via] for st in STYPES for it in ITYPES for via in ('ctor', 'connect')]
        try:
            import multiprocessing as mp
            with mp.get_context('fork').Pool(max(1, min(NPROC, 12))) as pool:
                res = pool.map(_connect_worker, cases, chunksize=8)
            for c, o in zip(cases, res):
                self.cache[json.dumps(c)] = o
        except Exception as e:
            log('C10: parallel observation failed (%r), falling back to sequential' % e)
        return cases

    def observe(self, case):
        k = json.dumps(case)
        if k in self.cache:
            return self.cache.pop(k)
        return self.observe1(case)

    def observe1(self, case):
        st, it, via = case
        w = World(__import__('random').Random(0))
        # a service that is valid before the connection where the type allows it: dedicated ports on A (and B)
        two = PIN_SERVICES[st][3] != 1 and st != 'PortMirror'
        prep = []
        for site in (['A', 'B'] if two else ['A']):
            ensure(w, 'DedicatedPort', site)
            prep.append(w.take(kind=['DedicatedPort'], site=site)[0])
        if PIN_SERVICES[st][2] == 1:       # at most one interface: start empty
            prep = []
        if it in ('SharedPort', 'DedicatedPort', 'FacilityPort', 'SubInterface'):
            ensure(w, it, 'A')
        else:
            w.custom('A', it)
        f = w.take(kind=[it], site='A')
        buf = io.StringIO()
        b = None

        def verdict(t):
            try:
                t.validate()
                return 'Ok'
            except Exception as e:
                return type(e).__name__
        try:
            with contextlib.redirect_stdout(buf):
                b = Builder()
                t = b.build(w.ops)
                if via == 'connect':
                    b.build([['svc', 'svc1', st, None, prep, 'connect']])
                res_b = verdict(t)                      # (records sites: the snapshot is taken afterwards)
                abs_b, _ = extract(t)
                if via == 'connect':
                    b.build([['connect', 'svc1', f[0]]])
                else:
                    b.build([['svc', 'svc1', st, None, prep + [f[0]], 'ctor']])
                abs_a, _ = extract(t)
                res_a = verdict(t)
            kinds = [i[2][0][0] for s in abs_a['services'] if s[0] == st for i in s[3]
                     if i[0] == 'ServicePort' and i[2] and len(i[2]) == 1]
            return {'build': b.log, 'last': b.log[-1], 'prep_ok': all(x == 'ok' for x in b.log[:-1]),
                    'connected_kinds': kinds, 'unchanged': abs_a == abs_b, 'verdict_before': res_b, 'verdict_after': res_a,
                    'before': abs_b if abs_a != abs_b else None, 'after': abs_a if abs_a != abs_b else None}
        except Exception as e:
            return {'build': [], 'last': 'HARNESS:' + type(e).__name__ + str(e)[:100], 'prep_ok': False, 'connected_kinds': []}
        finally:
            if b:
                b.close()

    def to_coq(self, case, o):
        st, it, via = case
        return '(%s, %s, %s, %s)' % (cs(st), cs(it), cbool(via == 'ctor'), cbool(o['last'] != 'ok'))

    def oracle(self, case, o):
        st, it, via = case
        if not o['prep_ok'] or o['last'] not in ('ok', 'TopologyException'):
            return 'harness problem: %r' % (o,)
        refused = o['last'] != 'ok'
        must = (st, it) in PIN_GUARD
        if must and not refused:
            return 'not-refused-at-once: %s x %s via %s' % (st, it, 'connect_interface' if via == 'connect' else 'constructor')
        if refused and not must:
            return 'refused-without-reason: %s x %s via %s' % (st, it, via)
        if refused and (not o['unchanged'] or o['verdict_before'] != o['verdict_after']):
            return ('refusal-changed-slice: %s x %s via %s was refused but the slice is not what it was (validate before: %s, '
                    'after: %s; slice before %s / after %s)' % (st, it, via, o['verdict_before'], o['verdict_after'],
                                                               json.dumps(o['before'])[:300], json.dumps(o['after'])[:300]))
        if not refused and it not in o['connected_kinds'] and st != 'OVS':
            return 'connection not made: %s x %s via %s' % (st, it, via)
        return None

    def key(self, case, o):
        return stable_hash(case)

    def histogram(self, cases, obs):
        return {'refused': sum(1 for o in obs if o['last'] != 'ok'), 'connected': sum(1 for o in obs if o['last'] == 'ok')}


# ------------------------------------------------------------------------------------------------
# witnesses of the refuted full-strength statements (replayed on the implementation on every run)
# ------------------------------------------------------------------------------------------------
WITNESSES = []   # the three refuted statements were repaired in /repo (136d4de, fab89c1, 7b9c57b)


def replay_witness(ops, reason):
    def fn():
        o = run_recipe(ops)
        why = allowed(o['abs'])
        still = o['res'] == 'Ok' and reason in why
        return still, {'recipe': ops, 'validate': o['res'], 'pinned_tables_say': why}
    return fn


def replay_connect_witness():
    st = Connect()
    o = st.observe1(['L2PTP', 'SharedPort', 'connect'])
    return (o['last'] == 'ok' and o['prep_ok']), {'case': ['L2PTP', 'SharedPort', 'connect_interface'], 'observed': o}


class C10(Check):
    pid = 'C10'
    translators = ['gen_constraints']
    model_targets = ['Model/Validate10.vo']
    streams = [Slices(), Connect()]
    trusted_base = [
        'Coq 8.16.1 kernel (coqc), vm_compute for the correspondence evaluation; no native_compute',
        'Print Assumptions of every C10 theorem: Closed under the global context (no axioms)',
        'translator/gen_constraints.py + translator/pyast.py (Python ast -> Gen/Constraints.v), fail-closed; the '
        'obligation gen_tables = pinned_tables (Model/C10Pinned.v) is closed by reflexivity',
        'harness/c10.py: recipe interpreter, extraction of the abstract slice through API getters (nodes/facilities, '
        'node.components, network_services, interface_list, get_peers, get_owner_node, get_property), the Python copy '
        'of the pinned tables and the oracle allowed()',
        'modelled not verified: the abstraction itself (a slice is what those getters return); truthiness of property '
        'values; Python set/len; the order of topology.network_services (taken from the implementation)',
        'flags cur_checks_facilities / cur_enforces_declared_site / cur_connect_interface_guarded in Model/Validate10.v '
        'describe the current code and are validated only by the correspondence',
    ]
    assumptions = ['experiment topologies (ExperimentTopology, in-memory backend); element names unique',
                   'sites are non-empty strings or unset',
                   'every num_instances of the table is NO_LIMIT (the per-site instance count is dead code and is not modelled)']

    def refuted_witnesses(self):
        out = [(n, replay_witness(ops, reason)) for n, ops, reason in WITNESSES]
        return out


if __name__ == '__main__':
    sys.exit(main(C10()))

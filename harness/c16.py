"""C16 - label, tag, name and data validation holds on every construction path.

Streams (each runs the real code from $VERIF_REPO and lets Coq evaluate Model/Labels16.v on the same case):
  prims   the modelled library pieces: `re` in the three call idioms on every regenerated pattern,
          int(str), str.split -- no property oracle (they are the trusted-base validation)
  labels  Labels through constructor / JSONField.update / from_json, scalar and list values,
          grammar-based members and near-misses of every documented format
  misc    Tags, set_name per sliver class, set_boot_script, JSONData string and object paths,
          Capacities non-negative int check
  topo    the same values arriving through the topology API (add_node/.name/rename/update_labels/
          set_properties ...) -- oracle only over API observables, model = the same validators

The property oracle (`documented_*`) is a hand-written recogniser per documented format: it uses neither
`re` nor the translator nor the Coq model.
"""
import sys, os, json, unicodedata
from . import common
from .common import *

sys.path.insert(0, os.path.join(VERIF, 'translator'))

EXN = {'LabelException': 'ELabel', 'ValueError': 'EValue', 'IndexError': 'EIndex', 'AssertionError': 'EAssert',
       'TypeError': 'EType', 'TagException': 'ETag', 'CapacityException': 'ECapacity', 'TopologyException': 'ETopology',
       'JSONDataError': 'EData', 'MeasurementDataError': 'EData', 'UserDataError': 'EData', 'LayoutDataError': 'EData'}


def cexn(name):
    return EXN.get(name, 'EOther')


# ----------------------------------------------------------------------------------------------
# the documented formats, by hand (independent of re / translator / model)
# ----------------------------------------------------------------------------------------------

HEX = set('0123456789abcdefABCDEF')
LHEX = set('0123456789abcdef')
# Unicode White_Space minus the ASCII separators FS/GS/RS/US -- what int() skips around a number
INT_WS = set('\t\n\x0b\x0c\r \x85\xa0\u1680\u2028\u2029\u202f\u205f\u3000') | {chr(c) for c in range(0x2000, 0x200b)}


def is_nd(c):          # \d : Unicode decimal digit
    return unicodedata.category(c) == 'Nd'


def is_word(c):        # \w : alphanumeric in the Unicode sense, or underscore
    return c == '_' or c.isalnum()


def all_in(s, pred, lo, hi=None):
    return lo <= len(s) and (hi is None or len(s) <= hi) and all(pred(c) for c in s)


def doc_int(s):
    """decimal integer literal as int() documents it: white space, sign, digits with single underscores
    between digits, any Unicode decimal digit, at most 4300 digits.  Returns the value or None."""
    i, j = 0, len(s)
    while i < j and s[i] in INT_WS:
        i += 1
    while j > i and s[j - 1] in INT_WS:
        j -= 1
    t = s[i:j]
    neg = False
    if t[:1] in ('+', '-'):
        neg = t[0] == '-'
        t = t[1:]
    if not t:
        return None
    groups = t.split('_')
    if any(g == '' or not all(is_nd(c) for c in g) for g in groups):
        return None
    ds = ''.join(groups)
    if len(ds) > 4300:
        return None
    v = 0
    for c in ds:
        v = 10 * v + unicodedata.decimal(c)
    return -v if neg else v


def doc_ipv4(s):
    parts = s.split('.')
    if len(parts) != 4:
        return False
    for p in parts:
        if not (1 <= len(p) <= 3 and all(c in '0123456789' for c in p)):
            return False
        if int(p) > 255:
            return False
    return True


def doc_ipv6(s):
    parts = s.split(':')
    return 1 <= len(parts) <= 8 and all(len(p) <= 4 and all(c in HEX for c in p) for p in parts)


def doc_prefixlen(s):
    return all_in(s, is_nd, 1, 2)


def two(s, sep, f, g):
    parts = s.split(sep)
    return len(parts) == 2 and f(parts[0]) and g(parts[1])


def doc_bdf(s):
    # hex{1,4} : hex{2} : hex{2} <any one character except newline> hex+
    a = s.split(':')
    if len(a) < 3:
        return False
    seg, bus, rest = a[0], a[1], ':'.join(a[2:])
    if not all_in(seg, lambda c: c in HEX, 1, 4) or not all_in(bus, lambda c: c in HEX, 2, 2):
        return False
    if len(rest) < 4:
        return False
    return all(c in HEX for c in rest[:2]) and rest[2] != '\n' and all_in(rest[3:], lambda c: c in HEX, 1)


def doc_vlan(s):
    if not all_in(s, is_nd, 1, 4):
        return False
    v = doc_int(s)
    return v is not None and 0 <= v <= 4096


def doc_vlan_range(s):
    p = s.split('-')
    if len(p) != 2 or not all_in(p[0], is_nd, 1, 4) or not all_in(p[1], is_nd, 1, 4):
        return False
    a, b = doc_int(p[0]), doc_int(p[1])
    return a is not None and b is not None and 0 <= a <= 4096 and 0 <= b <= 4096 and a <= b


def doc_asn(s):
    if not all_in(s, is_nd, 1):
        return False
    v = doc_int(s)
    return v is not None and 0 < v < 2 ** 32


def doc_numa(s):
    v = doc_int(s)
    return v is not None and -1 <= v < 8


DOCUMENTED = {
    'bdf': doc_bdf,
    'mac': lambda s: (lambda p: len(p) == 6 and all(all_in(x, lambda c: c in HEX, 2, 2) for x in p))(s.split(':')),
    'ipv4': doc_ipv4,
    'ipv4_range': lambda s: two(s, '-', doc_ipv4, doc_ipv4),
    'ipv4_subnet': lambda s: two(s, '/', doc_ipv4, doc_prefixlen),
    'ipv6': doc_ipv6,
    'ipv6_range': lambda s: two(s, '-', doc_ipv6, doc_ipv6),
    'ipv6_subnet': lambda s: two(s, '/', doc_ipv6, doc_prefixlen),
    'asn': doc_asn,
    'vlan': doc_vlan,
    'vlan_range': doc_vlan_range,
    'inner_vlan': doc_vlan,
    'bgp_key': lambda s: all_in(s, lambda c: is_word(c) or c in '-+_/.:', 6, 150),
    'account_id': lambda s: all_in(s, lambda c: is_word(c) or c in '-/.', 3, 100),
    'region': lambda s: all_in(s, lambda c: is_word(c) or c in '-.', 3, 100),
    'usb_id': lambda s: two(s, ':', lambda x: all_in(x, lambda c: c in LHEX, 4, 4), lambda x: all_in(x, lambda c: c in LHEX, 4, 4)),
    'numa': doc_numa,
}
FREE_FIELDS = ['instance', 'instance_parent', 'local_name', 'local_type', 'device_name']   # any string
ALL_FIELDS = ['bdf', 'mac', 'ipv4', 'ipv4_range', 'ipv4_subnet', 'ipv6', 'ipv6_range', 'ipv6_subnet', 'asn', 'vlan',
              'vlan_range', 'inner_vlan', 'instance', 'instance_parent', 'local_name', 'local_type', 'device_name',
              'bgp_key', 'account_id', 'region', 'usb_id', 'numa']

NAME_DOC = {   # class -> (min length, max length, extra characters besides \w)
    'NodeSliver': (2, 255, '-.'),
    'NetworkServiceSliver': (2, 255, '-_.'),
    'NetworkLinkSliver': (2, 255, '-+_/. :'),
    'InterfaceSliver': (1, 255, '-+_/. :'),
    'ComponentSliver': (2, 255, '-_. '),
}
JD_DOC = {'MeasurementData': 4096, 'UserData': 2048, 'LayoutData': 1024}
BOOT_LIMIT = 1024     # len(script) < 1024


def documented(field, s):
    if not isinstance(s, str):
        return False
    f = DOCUMENTED.get(field)
    return True if f is None else bool(f(s))


def doc_tag(t):
    return isinstance(t, str) and all_in(t, lambda c: is_word(c) or c == '-', 1, 255)


def doc_name(cls, s):
    lo, hi, extra = NAME_DOC[cls]
    return isinstance(s, str) and all_in(s, lambda c: is_word(c) or c in extra, lo, hi)


# ----------------------------------------------------------------------------------------------
# generators: members and near-misses
# ----------------------------------------------------------------------------------------------

ODD_DIGITS = '\u0663\u09ea\uff15\U0001d7d8'          # Arabic-Indic 3, Bengali 4, fullwidth 5, math double-struck 0
ODD_CHARS = ['\n', ' ', '\t', '\r', '\x0b', '\x1c', '\x85', '\xa0', '\u2003', '\u3000', '\x00', '-', '_', '+', '.', ':', '/', 'g',
             'G', 'x', '\xe9', '\u4e2d', '\xb2', '\u2460', '\ud800', '\U0001f600', '\u0663', '\uff15', '0', '9', 'a', 'F']


def hexs(rng, n, alphabet='0123456789abcdefABCDEF'):
    return ''.join(rng.choice(alphabet) for _ in range(n))


def digits(rng, n, odd=0.05):
    return ''.join(rng.choice(ODD_DIGITS) if rng.random() < odd else rng.choice('0123456789') for _ in range(n))


def octet(rng):
    return rng.choice([str(rng.randrange(256)), str(rng.randrange(256)), '0', '255', '249', '250', '199', '00', '007', '099',
                       '256', '260', '300', '1000', ''])


def g_ipv4(rng):
    return '.'.join(octet(rng) if rng.random() < 0.15 else str(rng.randrange(256)) for _ in range(4))


def g_ipv6(rng):
    n = rng.choice([1, 2, 3, 8, 8, 8, 7, 9])
    return ':'.join(hexs(rng, rng.choice([0, 1, 4, 4, 4, 3, 5 if rng.random() < 0.1 else 4])) for _ in range(n))


def wordish(rng, n, extra):
    pool = 'abcdefghijklmnopqrstuvwxyzABCDEFGHIJKLMNOPQRSTUVWXYZ0123456789_' + extra * 3 + 'é中٣'
    return ''.join(rng.choice(pool) for _ in range(n))


def boundary_int(rng, pts):
    return str(rng.choice(pts))


def member(field, rng):
    """a (mostly) valid value of the field"""
    if field == 'bdf':
        return '%s:%s:%s%s%s' % (hexs(rng, rng.choice([1, 2, 4, 4])), hexs(rng, 2), hexs(rng, 2),
                                 '.' if rng.random() < 0.8 else rng.choice(ODD_CHARS), hexs(rng, rng.choice([1, 1, 2, 5])))
    if field == 'mac':
        return ':'.join(hexs(rng, 2) for _ in range(6))
    if field == 'ipv4':
        return g_ipv4(rng)
    if field == 'ipv4_range':
        return g_ipv4(rng) + '-' + g_ipv4(rng)
    if field == 'ipv4_subnet':
        return g_ipv4(rng) + '/' + digits(rng, rng.choice([1, 2, 2, 3 if rng.random() < 0.2 else 2]))
    if field == 'ipv6':
        return g_ipv6(rng)
    if field == 'ipv6_range':
        return g_ipv6(rng) + '-' + g_ipv6(rng)
    if field == 'ipv6_subnet':
        return g_ipv6(rng) + '/' + digits(rng, rng.choice([1, 2, 2]))
    if field == 'asn':
        return rng.choice([boundary_int(rng, [0, 1, 2, 65535, 2 ** 32 - 1, 2 ** 32, 2 ** 32 + 1, 2 ** 64]),
                           digits(rng, rng.choice([1, 5, 10, 11])), '0' * rng.randrange(1, 6) + str(rng.randrange(70000))])
    if field in ('vlan', 'inner_vlan'):
        return rng.choice([boundary_int(rng, [0, 1, 4095, 4096, 4097, 9999, 10000, 12345]), digits(rng, rng.choice([1, 2, 3, 4])),
                           '%04d' % rng.randrange(5000), '0' + boundary_int(rng, [4096, 4097])])
    if field == 'vlan_range':
        a = rng.choice([0, 1, 100, 4095, 4096, 4097, rng.randrange(5000)])
        b = rng.choice([a, a + 1, 4096, 4097, rng.randrange(5000), max(a - 1, 0)])
        return '%s-%s' % (a if rng.random() < 0.9 else digits(rng, 3, 0.5), b if rng.random() < 0.9 else digits(rng, 3, 0.5))
    if field == 'bgp_key':
        return wordish(rng, rng.choice([5, 6, 7, 20, 149, 150, 151]), '-+/.:')
    if field == 'account_id':
        return wordish(rng, rng.choice([2, 3, 4, 12, 99, 100, 101]), '-/.')
    if field == 'region':
        return wordish(rng, rng.choice([2, 3, 4, 12, 99, 100, 101]), '-.')
    if field == 'usb_id':
        return hexs(rng, 4, '0123456789abcdef') + ':' + hexs(rng, 4, '0123456789abcdef' if rng.random() < 0.8 else '0123456789ABCDEF')
    if field == 'numa':
        return rng.choice(['-1', '0', '7', '8', '-2', '+7', ' 7', '7 ', '7\n', '0_7', '_7', '7_', '0__7', '07', '-0', '--1', '+-1',
                           '1.0', '', ' ', '٣', '²', '7\x1c', '\xa07', '1e0', '0x1', str(rng.randrange(-3, 10)),
                           '0' * 4299 + '5', '0' * 4300 + '5', '-', '+'])
    # free-form fields
    return rng.choice(['p1', 'HundredGigE0/0/0/1', '', 'name\n', '\ud800', 'x' * 300, wordish(rng, 8, ' -')])


def near_miss(s, rng):
    """one small mutation of a string"""
    k = rng.randrange(12)
    if k == 0:
        return s + '\n'
    if k == 1:
        return s + rng.choice(ODD_CHARS)
    if k == 2:
        return rng.choice(ODD_CHARS) + s
    if k == 3 and s:
        i = rng.randrange(len(s))
        return s[:i] + s[i + 1:]
    if k == 4 and s:
        i = rng.randrange(len(s))
        return s[:i] + rng.choice(ODD_CHARS) + s[i + 1:]
    if k == 5 and s:
        i = rng.randrange(len(s) + 1)
        return s[:i] + rng.choice(ODD_CHARS) + s[i:]
    if k == 6 and s:
        i = rng.randrange(len(s))
        return s[:i] + s[i] + s[i:]
    if k == 7:
        return s + '\n' + s
    if k == 8:
        return s.upper() if s.upper() != s else s.lower()
    if k == 9:
        return s.replace(':', '-').replace('.', ':') if (':' in s or '.' in s) else s + ' '
    if k == 10:
        return ''.join(rng.choice(ODD_DIGITS) if c.isdigit() and rng.random() < 0.5 else c for c in s)
    return s + '\n\n'


def gen_value(field, rng):
    if rng.random() < 0.04:
        return rng.choice(FALSY)
    s = member(field, rng)
    r = rng.random()
    if r < 0.45:
        return s
    s = near_miss(s, rng)
    if r > 0.92:
        s = near_miss(s, rng)
    return s


FALSY = ['', '0', ' ', '\x00', 'None', 'False', '[]', '{}']      # empty and falsy-looking strings, tried at every string entry point

WS_KINDS = {'nl': '\n', 'tab': '\t', 'space': ' ', 'cr': '\r', 'nbsp': '\xa0', 'mixed': ' \n\t\r\xa0'}
WS_PLACES = ('trail', 'lead', 'both')


def ws_padded(core, total, ws, place):
    """core padded with white space (ws cycled) to exactly `total` characters: trailing, leading or on both sides"""
    k = max(total - len(core), 0)
    pad = (ws * (k // len(ws) + 1))[:k]
    if place == 'trail':
        return core + pad
    if place == 'lead':
        return pad + core
    return pad[:k // 2] + core + pad[k // 2:]


def ws_probe(core, limit, rng, far=4):
    """a random white-space padded probe around a size limit (limit-1, limit, limit+1, far beyond)"""
    total = rng.choice([limit - 1, limit, limit + 1, limit + 2, far * limit, limit + rng.randrange(3, 2000)])
    return ws_padded(core, total, rng.choice(list(WS_KINDS.values())), rng.choice(WS_PLACES))


def ws_corpus(core, limit, lengths=None):
    """deterministic sweep: every white-space kind x every length, placements cycled (+ all placements for the newline)"""
    out = []
    i = 0
    for name, ws in WS_KINDS.items():
        for total in (lengths or (limit - 1, limit, limit + 1, 3 * limit)):
            places = WS_PLACES if name == 'nl' else (WS_PLACES[i % 3],)
            for pl in places:
                out.append(ws_padded(core, total, ws, pl))
            i += 1
    return out


def shrink_string(s, still_fails):
    """greedy delta-debugging on one string"""
    changed = True
    while changed and len(s) > 0:
        changed = False
        for i in range(len(s)):
            t = s[:i] + s[i + 1:]
            if still_fails(t):
                s = t
                changed = True
                break
    return s


# ----------------------------------------------------------------------------------------------
# Coq printers
# ----------------------------------------------------------------------------------------------

def c_lval(v):
    if isinstance(v, str):
        return '(LStr %s)' % cstr(v)
    if isinstance(v, list) and all(isinstance(x, str) for x in v):
        return '(LList %s)' % clist([cstr(x) for x in v])
    if v is None:
        return 'LNone'
    return 'LOther'


def c_kvs(kvs):
    return clist(['(%s, %s)' % (cstr(k), c_lval(v)) for k, v in kvs])


def c_result(o, okf):
    if 'err' in o:
        return '(Err %s)' % cexn(o['err'])
    try:
        return '(Ok %s)' % okf(o['ok'])
    except (AssertionError, TypeError, AttributeError):
        return '(Err EOther)'        # the implementation returned a value of an unexpected type: never what the model predicts


HEADER = ('From Coq Require Import List ZArith NArith.\nImport ListNotations.\n'
          'From FIM Require Import Base.Str Base.Regex Model.Labels16Types Model.Labels16.\n')


def kept_corpus(stream):
    """minimised cases kept from earlier violations (mutants / reverts): corpus/C16/minimised.json"""
    p = os.path.join(VERIF, 'corpus', 'C16', 'minimised.json')
    try:
        with open(p) as f:
            return list(json.load(f).get(stream, []))
    except (OSError, ValueError):
        return []


# ----------------------------------------------------------------------------------------------
# stream: primitives
# ----------------------------------------------------------------------------------------------

class Prims(Stream):
    name = 'prims'
    header = HEADER
    case_type = 'prim'
    check_fn = 'check_prim'
    shard = 500
    rule = ('(pattern, string): every regenerated pattern x members/near-misses, compared in the three call idioms '
            '(fullmatch, match ^..$, match); int(str) on literal near-misses; str.split; distinct by (kind, pattern, string)')

    _inv = None

    def inventory(self):
        if self._inv is None:
            import gen_labels
            self._inv = gen_labels.regex_inventory(common.REPO)
        return self._inv

    def gen(self, rng, tier):
        inv = self.inventory()
        n = 1500 if tier == 'quick' else 20000
        out = []
        for _ in range(n):
            r = rng.random()
            if r < 0.6:
                i = rng.randrange(len(inv))
                lab = inv[i][0]
                if lab.startswith('label:'):
                    s = gen_value(lab[6:], rng)
                elif lab == 'tag':
                    s = gen_tag(rng)
                else:
                    s = gen_name(lab[5:], rng)
                if rng.random() < 0.1:      # a string made for another pattern
                    s = gen_value(rng.choice(list(DOCUMENTED)), rng)
                out.append(['re', i, s])
            elif r < 0.9:
                out.append(['int', gen_intlit(rng)])
            else:
                out.append(['split', rng.choice('-:/'), gen_value(rng.choice(['vlan_range', 'ipv4_range', 'mac', 'ipv6_subnet']), rng)])
        return out

    def corpus(self):
        inv = self.inventory()
        out = [['int', s] for s in ['0', '-1', ' 7 ', '7\n', '+7', '0_7', '_7', '7_', '\x1c7', '\xa07', '٣', '', '-', '0' * 4299 + '7',
                                    '1' * 4301, '0' * 4301, '1_' * 4299 + '11', '0_' * 4299 + '7', '\ud800', '5\x00', '²']]
        for i, (lab, _) in enumerate(inv):
            for s in ['', '\n', '123', '123\n', 'ab', 'ab\n', 'a' * 255, 'a' * 256, 'a' * 255 + '\n']:
                out.append(['re', i, s])
        return out

    def observe(self, case):
        import re
        if case[0] == 're':
            pat = self.inventory()[case[1]][1]
            s = case[2]
            return [re.fullmatch(pat, s) is not None, re.match('^' + pat + '$', s) is not None,
                    re.match(pat, s) is not None]
        if case[0] == 'int':
            try:
                return int(case[1])
            except ValueError:
                return None
        return case[2].split(case[1])

    def to_coq(self, case, o):
        if case[0] == 're':
            return 'P_re %s %s %s %s %s' % (cN(case[1]), cstr(case[2]), cbool(o[0]), cbool(o[1]), cbool(o[2]))
        if case[0] == 'int':
            return 'P_int %s %s' % (cstr(case[1]), copt(o, cZ))
        return 'P_split %s %s %s' % (cN(ord(case[1])), cstr(case[2]), clist([cstr(x) for x in o]))

    def key(self, case, o):
        return stable_hash(case)

    def histogram(self, cases, obs):
        h = {'re_full_true': 0, 're_full_false': 0, 're_dollar_only': 0, 're_prefix_only': 0, 'int_ok': 0, 'int_error': 0, 'split': 0}
        for c, o in zip(cases, obs):
            if c[0] == 're':
                h['re_full_true' if o[0] else 're_full_false'] += 1
                h['re_dollar_only'] += (o[1] and not o[0])
                h['re_prefix_only'] += (o[2] and not o[1])
            elif c[0] == 'int':
                h['int_ok' if o is not None else 'int_error'] += 1
            else:
                h['split'] += 1
        return h


def gen_intlit(rng):
    core = rng.choice(['0', '7', '-1', '4096', '4294967296', '12', '007', '1_000', '1__0', '_1', '1_', '', '+', '-', '+5', '-+5', '0x10',
                       '1.5', '1e3', 'abc', '٣٤', '１２', '²', '①', '1٣2', '9' * rng.randrange(1, 40)])
    r = rng.random()
    if r < 0.5:
        return core
    if r < 0.8:
        ws = [' ', '\t', '\n', '\r', '\x0b', '\x0c', '\x1c', '\x1f', '\x85', '\xa0', '\u2003', '\u2028', '\u3000', '\u200b', '\ufeff']
        return rng.choice(ws) * rng.randrange(0, 3) + core + rng.choice(ws) * rng.randrange(0, 3)
    return near_miss(core, rng)


def gen_tag(rng):
    if rng.random() < 0.06:
        return rng.choice(FALSY)
    n = rng.choice([0, 1, 2, 10, 254, 255, 256])
    s = wordish(rng, n, '-')
    return s if rng.random() < 0.6 else near_miss(s, rng)


def gen_name(cls, rng):
    if rng.random() < 0.06:
        return rng.choice(FALSY)
    lo, hi, extra = NAME_DOC.get(cls, (2, 255, '-.'))
    n = rng.choice([0, 1, 2, 3, 12, 254, 255, 256])
    s = wordish(rng, n, extra if rng.random() < 0.8 else '-+_/. :')
    return s if rng.random() < 0.6 else near_miss(s, rng)


# ----------------------------------------------------------------------------------------------
# stream: Labels entry points
# ----------------------------------------------------------------------------------------------

def labels_fields_of(obj):
    return [[k, v] for k, v in obj.__dict__.items() if v is not None]


class LabelsStream(Stream):
    name = 'labels'
    header = HEADER
    case_type = 'lentry * lobs'
    check_fn = 'check_labels'
    shard = 300
    rule = ('(entry point in {constructor, JSONField.update, from_json}) x (field -> scalar | list of strings) with members and '
            'near-misses of each documented format; non-trivial = at least one field that has a validator; distinct by case')

    def gen_kws(self, rng, nmax=3, bad_bias=0.5):
        n = rng.choice([1, 1, 1, 2, nmax])
        fields = rng.sample(ALL_FIELDS, n)
        kws = []
        for f in fields:
            r = rng.random()
            if r < 0.03:
                kws.append([rng.choice(['zz_unknown', 'vlans', 'Vlan']), rng.choice(['x', 'x', None, 5, ['a', 'b']])])
                continue
            if r < 0.05:
                kws.append([f, rng.choice([None, 5])])
                continue
            mk = (lambda: gen_value(f, rng)) if rng.random() < bad_bias else (lambda: member(f, rng))
            if rng.random() < 0.35:
                kws.append([f, [mk() for _ in range(rng.choice([0, 1, 2, 3]))]])
            else:
                kws.append([f, mk()])
        # a Python call (and a JSON object after json.loads) cannot carry one keyword twice: keep the first occurrence only
        seen, uniq = set(), []
        for k_, v_ in kws:
            if k_ not in seen:
                seen.add(k_)
                uniq.append([k_, v_])
        return uniq

    def gen(self, rng, tier):
        n = 1200 if tier == 'quick' else 16000
        out = []
        for _ in range(n):
            e = rng.choice(['ctor', 'ctor', 'update', 'from_json'])
            case = {'entry': e, 'base': [], 'kws': self.gen_kws(rng)}
            if e == 'update':
                base = []
                for f in rng.sample(ALL_FIELDS, rng.choice([0, 1, 2])):
                    v = member(f, rng)
                    base.append([f, v if rng.random() < 0.7 else [v]])
                case['base'] = base
            out.append(case)
        return out

    def corpus(self):
        out = []
        for e in ('ctor', 'update', 'from_json'):
            for v in ('123', '123\n', '4096', '4097', '٣', '12345'):
                out.append({'entry': e, 'base': [], 'kws': [['vlan', v]]})
                out.append({'entry': e, 'base': [], 'kws': [['vlan', ['1', v]]]})
            out.append({'entry': e, 'base': [['vlan', '5']], 'kws': [['numa', '7\n']]})
            out.append({'entry': e, 'base': [], 'kws': [['zz_unknown', 'x']]})
            out.append({'entry': e, 'base': [], 'kws': [['zz_unknown', None], ['vlan', '7']]})
            out.append({'entry': e, 'base': [], 'kws': [['vlan', '7'], ['zz_unknown', 5]]})
            out.append({'entry': e, 'base': [], 'kws': [['asn', '4294967295'], ['vlan_range', '10-9']]})
            out.append({'entry': e, 'base': [], 'kws': [['ipv6', ''], ['bdf', '0000:00:00x0']]})
            for f in ALL_FIELDS:
                for v in FALSY[:4]:
                    out.append({'entry': e, 'base': [], 'kws': [[f, v if (len(f) + len(v)) % 2 else [v]]]})
        return out + kept_corpus('labels')

    def observe(self, case):
        from fim.slivers.capacities_labels import Labels
        try:
            kws = {k: v for k, v in case['kws']}
            if case['entry'] == 'ctor':
                obj = Labels(**kws)
            elif case['entry'] == 'update':
                base = Labels(**{k: v for k, v in case['base']})
                snap = dict(base.__dict__)
                obj = Labels.update(base, **kws)
                if base.__dict__ != snap or obj is base:
                    return {'err': 'UpdateInPlace'}
            else:
                obj = Labels.from_json(json.dumps(kws))
                if obj is None:
                    return {'err': 'NoneReturned'}
        except Exception as e:
            return {'err': type(e).__name__}
        fields = labels_fields_of(obj)
        try:
            text = obj.to_json()
            back = Labels.from_json(text)
            recoded = labels_fields_of(back) if back is not None else []
        except Exception as e:
            recoded = {'err': type(e).__name__}
        return {'ok': fields, 'recoded': recoded}

    @staticmethod
    def as_call(kws):
        """what the call sees: dict semantics (position of the first occurrence, value of the last)"""
        d = {}
        for k_, v_ in kws:
            d[k_] = v_
        return [[k_, v_] for k_, v_ in d.items()]

    def to_coq(self, case, o):
        case = dict(case, kws=self.as_call(case['kws']), base=self.as_call(case['base']))
        if case['entry'] == 'ctor':
            e = 'E_ctor %s' % c_kvs(case['kws'])
        elif case['entry'] == 'update':
            e = 'E_update %s %s' % (c_kvs(case['base']), c_kvs(case['kws']))
        else:
            e = 'E_from_json %s' % c_kvs(case['kws'])
        if 'err' in o:
            ob = 'LO_err %s' % cexn(o['err'])
        else:
            rc = 'None' if isinstance(o['recoded'], dict) else '(Some %s)' % c_kvs(o['recoded'])
            ob = 'LO_ok %s %s' % (c_kvs(o['ok']), rc)
        return '(%s, %s)' % (e, ob)

    # ---- the property, over implementation observables ----
    def expected(self, case):
        """('ok', fields) or ('reject', why) according to the documented domain only"""
        case = dict(case, kws=self.as_call(case['kws']), base=self.as_call(case.get('base', [])))
        forgiving = case['entry'] == 'from_json'
        cur = {}
        seqs = [case['base'], case['kws']] if case['entry'] == 'update' else [case['kws']]
        for idx, kws in enumerate(seqs):
            fg = forgiving and idx == len(seqs) - 1
            for k, v in kws:
                if k not in ALL_FIELDS and fg:
                    continue            # decoding is forgiving: a key that is not a field is skipped, whatever its value
                if not (isinstance(v, str) or (isinstance(v, list) and all(isinstance(x, str) for x in v))):
                    return ('reject', 'value of %s is not a string or list of strings' % k)
                if k not in ALL_FIELDS:
                    return ('reject', 'no such field ' + k)
                for x in ([v] if isinstance(v, str) else v):
                    if not documented(k, x):
                        return ('reject', '%s value %r is outside the documented format' % (k, x))
                cur[k] = v
        return ('ok', [[f, cur[f]] for f in ALL_FIELDS if f in cur])

    def oracle(self, case, o):
        exp = self.expected(case)
        if 'err' in o:
            if o['err'] in ('UpdateInPlace', 'NoneReturned'):
                return 'entry point misbehaved: ' + o['err']
            if exp[0] == 'ok':
                return 'in-domain labels rejected (%s) through %s' % (o['err'], case['entry'])
            return None
        if exp[0] == 'reject':
            return 'stored although %s (through %s)' % (exp[1], case['entry'])
        if o['ok'] != exp[1]:
            return 'stored fields differ from the values given (through %s)' % case['entry']
        if o['recoded'] != o['ok']:
            return 'accepted labels do not survive to_json/from_json: %r' % (o['recoded'],)
        return None

    def known_signature(self, case, o, why):
        return 'labels:%s:%s' % (case['entry'], why or '')

    def key(self, case, o):
        if any(k in DOCUMENTED for k, _ in case['kws']):
            return stable_hash(case)
        return None

    def histogram(self, cases, obs):
        h = {'entry': {}, 'outcome': {}, 'list_values': 0, 'scalar_values': 0, 'per_field_accept': {}, 'per_field_reject': {},
             'trailing_newline_values': 0}
        for c, o in zip(cases, obs):
            h['entry'][c['entry']] = h['entry'].get(c['entry'], 0) + 1
            oc = o.get('err', 'ok')
            h['outcome'][oc] = h['outcome'].get(oc, 0) + 1
            for k, v in c['kws']:
                if isinstance(v, list):
                    h['list_values'] += 1
                else:
                    h['scalar_values'] += 1
                xs = v if isinstance(v, list) else [v]
                h['trailing_newline_values'] += any(isinstance(x, str) and x.endswith('\n') for x in xs)
                d = h['per_field_accept' if 'ok' in o else 'per_field_reject']
                d[k] = d.get(k, 0) + 1
        return h

    def describe(self, case, o):
        return {'case': case, 'impl': o}

    def shrink(self, case, failing):
        case = json.loads(json.dumps(case))
        # drop keyword arguments one at a time
        for part in ('base', 'kws'):
            i = 0
            while i < len(case[part]):
                trial = dict(case)
                trial[part] = case[part][:i] + case[part][i + 1:]
                if (part == 'base' or trial['kws']) and failing(trial):
                    case = trial
                else:
                    i += 1
        # list -> fewer elements; strings -> fewer characters
        for part in ('base', 'kws'):
            for i, (k, v) in enumerate(case[part]):
                if isinstance(v, list):
                    j = 0
                    while j < len(v):
                        trial = json.loads(json.dumps(case))
                        trial[part][i][1] = v[:j] + v[j + 1:]
                        if failing(trial):
                            case = trial
                            v = case[part][i][1]
                        else:
                            j += 1
                    for j in range(len(v)):
                        if isinstance(v[j], str):
                            def f(t, j=j):
                                trial = json.loads(json.dumps(case))
                                trial[part][i][1][j] = t
                                return failing(trial)
                            case[part][i][1][j] = shrink_string(v[j], f)
                elif isinstance(v, str):
                    def f(t):
                        trial = json.loads(json.dumps(case))
                        trial[part][i][1] = t
                        return failing(trial)
                    case[part][i][1] = shrink_string(v, f)
        return case


# ----------------------------------------------------------------------------------------------
# stream: tags, names, boot script, JSON data, capacities
# ----------------------------------------------------------------------------------------------

def sliver_class(name):
    import importlib
    mods = {'NodeSliver': 'fim.slivers.network_node', 'NetworkServiceSliver': 'fim.slivers.network_service',
            'NetworkLinkSliver': 'fim.slivers.network_link', 'InterfaceSliver': 'fim.slivers.interface_info',
            'ComponentSliver': 'fim.slivers.attached_components'}
    return getattr(importlib.import_module(mods[name]), name)


def c_sval(v):
    if isinstance(v, str):
        return '(SStr %s)' % cstr(v)
    return 'SNone' if v is None else 'SOther'


def c_tagv(t):
    return '(TStr %s)' % cstr(t) if isinstance(t, str) else 'TNonStr'


def c_cval(v):
    if isinstance(v, bool):
        return '(CV_bool %s)' % cbool(v)
    if isinstance(v, int):
        return '(CV_int %s)' % cZ(v)
    if v is None:
        return 'CV_none'
    if isinstance(v, float):
        return '(CV_float %s)' % cbool(v >= 0)
    return 'CV_str'


CAP_FIELDS = ['cpu', 'core', 'ram', 'disk', 'bw', 'burst_size', 'unit', 'mtu']


class Misc(Stream):
    name = 'misc'
    header = HEADER
    case_type = 'misc'
    check_fn = 'check_misc'
    shard = 150
    rule = ('Tags (positional and list arguments, from_json), set_name x 5 sliver classes, set_boot_script and JSONData with '
            'lengths limit-1/limit/limit+1, Capacities with negative / non-int / None values; distinct by case')

    def gen(self, rng, tier):
        n = 500 if tier == 'quick' else 5000
        out = []
        for _ in range(n):
            k = rng.choice(['tags', 'tags_json', 'name', 'name', 'boot', 'jd_str', 'jd_obj', 'caps'])
            if k in ('tags', 'tags_json'):
                args = []
                for _ in range(rng.choice([0, 1, 1, 2, 3])):
                    if rng.random() < 0.4:
                        args.append([self.tagv(rng) for _ in range(rng.choice([0, 1, 2, 3]))])
                    else:
                        args.append(self.tagv(rng))
                if k == 'tags_json':
                    args = args[:1] or [[]]
                out.append({'kind': k, 'args': args, 'tuple': rng.random() < 0.3})
            elif k == 'name':
                cls = rng.choice(list(NAME_DOC))
                r_ = rng.random()
                v = ws_probe('ab', 255, rng, far=2) if r_ < 0.1 else (gen_name(cls, rng) if r_ < 0.95 else rng.choice([None, 5]))
                out.append({'kind': 'name', 'cls': cls, 'v': v})
            elif k == 'boot':
                n_ = rng.choice([0, 1, 100, 1022, 1023, 1024, 1025, 2000])
                r_ = rng.random()
                if r_ < 0.35:
                    v = ws_probe(rng.choice(['echo hi', '#!/bin/bash\nexit 0', 'x' * 1000, '']), BOOT_LIMIT, rng)
                elif r_ < 0.9:
                    v = ('#!/bin/bash\n' + 'x' * 2000)[:n_]
                else:
                    v = rng.choice([None, 5, ['a']])
                out.append({'kind': 'boot', 'v': v})
            elif k == 'jd_str':
                cls = rng.choice(list(JD_DOC))
                mx = JD_DOC[cls]
                ln = rng.choice([2, 10, mx - 1, mx, mx + 1, mx + 100])
                out.append({'kind': 'jd_str', 'cls': cls, 'v': self.json_text(rng, ln)})
            elif k == 'jd_obj':
                cls = rng.choice(list(JD_DOC))
                mx = JD_DOC[cls]
                ln = rng.choice([0, 5, mx - 1, mx, mx + 1, mx + 50])
                out.append({'kind': 'jd_obj', 'cls': cls, 'v': self.blob_value(rng) if rng.random() < 0.2 else self.json_obj(rng, ln)})
            else:
                kws = []
                for f in rng.sample(CAP_FIELDS + ['zz_unknown'], rng.choice([1, 1, 2, 3])):
                    kws.append([f, rng.choice([0, 1, 5, 10 ** 20, -1, -5, None, True, False, 1.5, -1.5, 0.0, 'x', rng.randrange(-2, 100)])])
                out.append({'kind': 'caps', 'forgiving': rng.random() < 0.3, 'kws': kws})
        return out

    def tagv(self, rng):
        r = rng.random()
        if r < 0.05:
            return ws_probe('ab', 255, rng, far=2)
        if r < 0.12:        # pieces that are each a valid tag, joined by ONE separator character
            return wordish(rng, rng.choice([1, 3, 8]), '-') + rng.choice([' ', ' ', ' ', ',', '\t', '.', ';', '|', '\n']) + wordish(rng, rng.choice([1, 3]), '-')
        return gen_tag(rng) if r < 0.95 else rng.choice([None, 5, 1.5])

    def json_text(self, rng, ln):
        r = rng.random()
        if r < 0.6:        # a valid JSON text of exactly ln characters (when ln >= 2)
            if ln < 2:
                return '1' * ln
            return '"' + 'a' * (ln - 2) + '"'
        if r < 0.7:
            return '{"k": [1, 2.5, null, true, "é"]}'
        if r < 0.85:     # white space around a small JSON value, padded to the probed length
            return ws_padded(rng.choice(['{}', '[1]', '"a"']), ln, rng.choice(list(WS_KINDS.values())), rng.choice(WS_PLACES))
        return rng.choice(['', '{', '{"a": }', 'nul', "{'a': 1}", '[1,]', 'NaN', '"a\nb"', '\n', '{}x'])[:max(ln, 0) or None]

    def json_obj(self, rng, ln):
        r = rng.random()
        if r < 0.6:        # a list whose dump has exactly ln characters: ["aaa"] -> ln = n + 4
            return ['a' * max(ln - 4, 0)]
        if r < 0.75:
            return {'k': [1, 2.5, None, True, 'é']}
        if r < 0.85:
            return rng.choice([5, 1.5, True, [], {}, {'a': {'b': []}}])
        if r < 0.93:       # not serialisable (decoded in observe)
            return rng.choice([{'__set__': 1}, {'__obj__': 1}, {'__bytes__': rng.choice([0, 2, 1500])}])
        return self.blob_value(rng)

    @staticmethod
    def blob_value(rng):
        """another JSONData blob as the argument; text length around / between the limits of the kinds"""
        src = rng.choice(list(JD_DOC))
        n = rng.choice([x for x in (4, 10, 1023, 1024, 1025, 1500, 2047, 2048, 2049, 3000, 4095, 4096) if x <= JD_DOC[src]])
        return {'__blob__': [src, n]}

    def corpus(self):
        out = [{'kind': 'tags', 'args': ['abc\n']}, {'kind': 'tags', 'args': [['a', 'b-c'], 'd']}, {'kind': 'tags_json', 'args': [['x', 5]]}]
        for cls in NAME_DOC:
            for v in ('n1', 'n1\n', 'n', '', 'a' * 255, 'a' * 256):
                out.append({'kind': 'name', 'cls': cls, 'v': v})
            for p in [chr(c) for c in range(128) if not chr(c).isalnum()]:     # sweep of the ASCII non-alphanumerics, per class
                out.append({'kind': 'name', 'cls': cls, 'v': 'ab' + p + 'cd'})
        for v in FALSY:
            for cls in NAME_DOC:
                out.append({'kind': 'name', 'cls': cls, 'v': v})
            out.append({'kind': 'tags', 'args': [v]})
            out.append({'kind': 'tags', 'args': [['ok', v]]})
            out.append({'kind': 'tags_json', 'args': [[v]]})
            out.append({'kind': 'boot', 'v': v})
            for cls in JD_DOC:
                out.append({'kind': 'jd_str', 'cls': cls, 'v': v})
        for cls in NAME_DOC:
            out.append({'kind': 'name', 'cls': cls, 'v': None})
        for t in ('blue green', 'a b c', 'x' * 255 + ' y', ' a', 'a ', 'a  b', 'a\tb', 'a,b'):
            out.append({'kind': 'tags', 'args': [t]})
            out.append({'kind': 'tags', 'args': [[t]]})
            out.append({'kind': 'tags', 'args': [['ok', t, 'fine']], 'tuple': True})
            out.append({'kind': 'tags_json', 'args': [['ok', t]]})
        for ln in (1023, 1024):
            out.append({'kind': 'boot', 'v': 'x' * ln})
        for v in ws_corpus('echo hi', BOOT_LIMIT, (1023, 1024, 1025, 2100)):      # white-space padded scripts
            out.append({'kind': 'boot', 'v': v})
        for ln in (1023, 1024, 1025):
            out.append({'kind': 'boot', 'v': ws_padded('x' * 1000, ln, '\n', 'trail')})
        out.append({'kind': 'boot', 'v': 'x' * 1023 + '\n'})
        for cls, mx in JD_DOC.items():
            for wsn in ('nl', 'space', 'nbsp', 'mixed'):
                for i_, ln in enumerate((mx, mx + 1)):
                    out.append({'kind': 'jd_str', 'cls': cls, 'v': ws_padded('{}', ln, WS_KINDS[wsn], WS_PLACES[(i_ + len(wsn)) % 3])})
            out.append({'kind': 'jd_str', 'cls': cls, 'v': ws_padded('{}', mx + 600, '\n', 'trail')})
        for v in ws_corpus('ab', 255, (255, 256)):
            out.append({'kind': 'tags', 'args': [[v]]})
            out.append({'kind': 'name', 'cls': 'ComponentSliver', 'v': v})
        out.append({'kind': 'name', 'cls': 'NodeSliver', 'v': ws_padded('ab', 255, ' ', 'trail')})
        out.append({'kind': 'name', 'cls': 'InterfaceSliver', 'v': ws_padded('ab', 256, ' ', 'both')})
        for cls, mx in JD_DOC.items():
            for ln in (mx, mx + 1):
                out.append({'kind': 'jd_str', 'cls': cls, 'v': '"' + 'a' * (ln - 2) + '"'})
                out.append({'kind': 'jd_obj', 'cls': cls, 'v': ['a' * (ln - 4)]})
        out.append({'kind': 'jd_obj', 'cls': 'UserData', 'v': None})
        for tgt in JD_DOC:                 # a blob of every kind handed to the constructor of every kind
            for src_, smx in JD_DOC.items():
                for n in (10, 1024, 1025, 2048, 2049, 4096):
                    if n <= smx:
                        out.append({'kind': 'jd_obj', 'cls': tgt, 'v': {'__blob__': [src_, n]}})
            for v in ({'__bytes__': 3}, {'__set__': 1}, {'__obj__': 1}):
                out.append({'kind': 'jd_obj', 'cls': tgt, 'v': v})
        return out + kept_corpus('misc')

    @staticmethod
    def decode_obj(v):
        if isinstance(v, dict) and '__set__' in v:
            return {1, 2}
        if isinstance(v, dict) and '__obj__' in v:
            return object()
        if isinstance(v, dict) and '__bytes__' in v:
            return b'a' * v['__bytes__']
        if isinstance(v, dict) and '__blob__' in v:      # a JSONData instance of the named kind whose JSON text has n characters
            import fim.slivers.json_data as jd
            kind, n = v['__blob__']
            return getattr(jd, kind)(['a' * (n - 4)])
        return v

    @staticmethod
    def blob_spec(v):
        return v['__blob__'] if isinstance(v, dict) and '__blob__' in v else None

    def observe(self, case):
        k = case['kind']
        try:
            if k == 'tags':
                from fim.slivers.tags import Tags
                t = Tags(*[tuple(a) if (case.get('tuple') and isinstance(a, list)) else a for a in case['args']])
                back = Tags.from_json(t.to_json())
                return {'ok': list(t.tags), 'recoded': list(back.tags) if back is not None else None}
            if k == 'tags_json':
                from fim.slivers.tags import Tags
                t = Tags.from_json(json.dumps(case['args'][0]))
                return {'ok': list(t.tags), 'recoded': list(Tags.from_json(t.to_json()).tags)}
            if k == 'name':
                s = sliver_class(case['cls'])()
                s.set_name(case['v'])
                return {'ok': s.get_name()}
            if k == 'boot':
                from fim.slivers.network_node import NodeSliver
                s = NodeSliver()
                s.set_boot_script(case['v'])
                return {'ok': s.get_boot_script()}
            if k in ('jd_str', 'jd_obj'):
                import fim.slivers.json_data as jd
                cls = getattr(jd, case['cls'])
                d = cls(self.decode_obj(case['v']) if k == 'jd_obj' else case['v'])
                try:
                    again = cls(d.json).json == d.json
                except Exception:
                    again = False
                return {'ok': d.json, 'again': again}
            if k == 'caps':
                from fim.slivers.capacities_labels import Capacities
                c = Capacities()
                c._set_fields(forgiving=case['forgiving'], **{a: b for a, b in case['kws']})
                return {'ok': [[f, c.__dict__[f]] for f in c.__dict__]}
        except Exception as e:
            return {'err': type(e).__name__}

    def arg_kind(self, case):
        v = case['v']
        if isinstance(v, str):
            return 'a str of %d characters' % len(v)
        b = self.blob_spec(v)
        if b:
            return 'a %s blob of %d characters' % (b[0], b[1])
        return 'an object'

    def jd_input(self, case):
        v = case['v']
        if case['kind'] == 'jd_str':
            try:
                json.loads(v)
                valid = True
            except ValueError:
                valid = False
            except RecursionError:
                valid = False
            return 'JD_str %s %s' % (cstr(v), cbool(valid))
        obj = self.decode_obj(v)
        if obj is None:
            return 'JD_none'
        try:
            return 'JD_obj (Some %s)' % cstr(json.dumps(obj))
        except TypeError:
            return 'JD_obj None'

    def to_coq(self, case, o):
        k = case['kind']
        if k in ('tags', 'tags_json'):
            args = clist(['(TA_many %s)' % clist([c_tagv(t) for t in a]) if isinstance(a, list) else '(TA_one %s)' % c_tagv(a)
                          for a in case['args']])
            r = 'None' if 'err' in o else '(Some %s)' % clist([cstr(x) for x in o['ok']])
            if 'err' in o and cexn(o['err']) != 'ETag':
                r = '(Some [[0]%N; [0]%N; [0]%N])'      # an exception other than TagException: never what the model predicts
            return 'M_tags %s %s' % (args, r)
        if k == 'name':
            return 'M_name %s %s %s' % (cstr(case['cls']), c_sval(case['v']), c_result(o, cstr))
        if k == 'boot':
            return 'M_boot %s %s' % (c_sval(case['v']), c_result(o, lambda x: copt(x, cstr)))
        if k in ('jd_str', 'jd_obj'):
            return 'M_jd %s (%s) %s %s' % (cstr(case['cls']), self.jd_input(case), c_result(o, cstr), cbool(o.get('again', True)))
        kws = clist(['(%s, %s)' % (cstr(a), c_cval(b)) for a, b in case['kws']])
        return 'M_caps %s %s %s' % (cbool(case['forgiving']), kws,
                                    c_result(o, lambda fs: clist(['(%s, %s)' % (cstr(a), c_cval(b)) for a, b in fs])))

    def oracle(self, case, o):
        k = case['kind']
        ok = 'ok' in o
        if k in ('tags', 'tags_json'):
            flat = []
            for a in case['args']:
                flat += a if isinstance(a, list) else [a]
            good = all(doc_tag(t) for t in flat)
            if ok and not good:
                return 'tag outside the documented pattern stored: %r' % [t for t in flat if not doc_tag(t)][:1]
            if not ok and good:
                return 'in-domain tags rejected (%s)' % o['err']
            if ok and (o['ok'] != flat or o['recoded'] != flat):
                return 'stored / re-decoded tags differ from the tags given'
            return None
        if k == 'name':
            good = doc_name(case['cls'], case['v'])
            if ok and not good:
                return '%s name %r outside the documented pattern stored' % (case['cls'], case['v'])
            if not ok and good:
                return 'in-domain %s name rejected (%s)' % (case['cls'], o['err'])
            if ok and o['ok'] != case['v']:
                return 'stored name differs'
            return None
        if k == 'boot':
            v = case['v']
            good = v is None or (isinstance(v, str) and len(v) < BOOT_LIMIT)
            if ok and not good:
                return 'boot script of length %s stored (limit %d)' % (len(v) if isinstance(v, str) else '?', BOOT_LIMIT)
            if not ok and good:
                return 'in-domain boot script rejected (%s)' % o['err']
            if ok and o['ok'] != v:
                return 'stored boot script differs'
            return None
        if k in ('jd_str', 'jd_obj'):
            mx = JD_DOC[case['cls']]
            if k == 'jd_str':
                text = case['v']
                try:
                    json.loads(text)
                    valid = True
                except (ValueError, RecursionError):
                    valid = False
            else:
                obj = self.decode_obj(case['v'])
                try:
                    text = json.dumps(obj) if obj is not None else '{}'
                    valid = True
                except TypeError:
                    text, valid = '', False
            # whatever the argument was: nothing over the target kind's limit / no invalid text may be stored, and the
            # stored text must be accepted when given again
            if ok:
                st = o['ok']
                try:
                    json.loads(st)
                    st_valid = isinstance(st, str)
                except (ValueError, TypeError, RecursionError):
                    st_valid = False
                if not st_valid or len(st) > mx:
                    return '%s holds %s characters, valid JSON=%s (limit %d) after being given %s' % (
                        case['cls'], len(st) if isinstance(st, str) else '?', st_valid, mx, self.arg_kind(case))
                if not o['again']:
                    return 'stored %s text is rejected when given again' % case['cls']
            blob = self.blob_spec(case['v']) if k == 'jd_obj' else None
            if blob is not None:
                # another blob as argument: rejecting is fine (not a JSON value); a copy is fine only within the limit (checked above)
                if ok and o['ok'] != '["' + 'a' * (blob[1] - 4) + '"]':
                    return 'text stored from a %s blob differs from that blob' % blob[0]
                return None
            good = valid and len(text) <= mx
            if ok and not good:
                return '%s of %d characters / valid=%s stored (limit %d)' % (case['cls'], len(text), valid, mx)
            if not ok and good:
                return 'in-domain %s rejected (%s)' % (case['cls'], o['err'])
            if ok and o['ok'] != text:
                return 'stored JSON text differs'
            return None
        if k == 'caps':
            exp = dict()
            bad = None
            for f, v in case['kws']:
                if v is not None and not (isinstance(v, int) and v >= 0):
                    bad = 'value %r is not a non-negative int' % (v,)
                    break
                if f not in CAP_FIELDS:
                    if case['forgiving']:
                        continue
                    bad = 'no such field'
                    break
                exp[f] = v
            if ok and bad:
                return 'capacities stored although ' + bad
            if not ok and not bad:
                return 'in-domain capacities rejected (%s)' % o['err']
            if ok:
                got = dict((a, b) for a, b in o['ok'])
                for f in CAP_FIELDS:
                    want = exp.get(f, 0)
                    if got.get(f) != want or type(got.get(f)) is not type(want):
                        return 'stored capacity %s differs' % f
            return None
        return None

    def known_signature(self, case, o, why):
        return 'misc:%s:%s' % (case['kind'], why or '')

    def key(self, case, o):
        return stable_hash(case)

    def histogram(self, cases, obs):
        h = {}
        for c, o in zip(cases, obs):
            k = '%s:%s' % (c['kind'], 'ok' if 'ok' in o else o['err'])
            h[k] = h.get(k, 0) + 1
        return h

    def describe(self, case, o):
        def short(x):
            return x if not isinstance(x, str) or len(x) < 80 else x[:40] + '...(%d chars)' % len(x)
        c = {k: (short(v) if isinstance(v, str) else v) for k, v in case.items()}
        if isinstance(c.get('v'), list):
            c['v'] = [short(x) for x in c['v']]
        oo = dict(o)
        if isinstance(oo.get('ok'), str):
            oo['ok'] = short(oo['ok'])
        return {'case': c, 'impl': oo}

    def shrink(self, case, failing):
        case = json.loads(json.dumps(case))
        if case['kind'] == 'name' and isinstance(case['v'], str):
            def f(t):
                c2 = dict(case)
                c2['v'] = t
                return failing(c2)
            case['v'] = shrink_string(case['v'], f)
        if case['kind'] in ('tags', 'tags_json'):
            i = 0
            while i < len(case['args']) and len(case['args']) > 1:
                c2 = dict(case)
                c2['args'] = case['args'][:i] + case['args'][i + 1:]
                if failing(c2):
                    case = c2
                else:
                    i += 1
            for i, a in enumerate(case['args']):
                if isinstance(a, str):
                    def f(t, i=i):
                        c2 = json.loads(json.dumps(case))
                        c2['args'][i] = t
                        return failing(c2)
                    case['args'][i] = shrink_string(a, f)
        return case


# ----------------------------------------------------------------------------------------------
# stream: the same values through the topology API (model-element property assignment)
# ----------------------------------------------------------------------------------------------

FIX = {'NodeSliver': 'fixture-node', 'ComponentSliver': 'fixture-comp', 'NetworkServiceSliver': 'fixture-svc',
       'InterfaceSliver': 'fixture-comp-p1'}
# names carried by the other elements of the same scope in the fixture (written down by hand: second node, second
# component of the node, the other services of the topology incl. the NIC's own service, the NIC's second port)
SIBLINGS = {'NodeSliver': ['fixture-node2'], 'ComponentSliver': ['fixture-comp2'],
            'NetworkServiceSliver': ['fixture-svc2', 'fixture-node-fixture-comp-l2ovs'],
            'InterfaceSliver': ['fixture-comp-p2']}
ASCII_NON_ALNUM = [chr(c) for c in range(128) if not chr(c).isalnum()]
JD_PROP = {'user_data': 'UserData', 'layout_data': 'LayoutData', 'mf_data': 'MeasurementData'}


class Topo(Stream):
    name = 'topo'
    header = HEADER
    case_type = 'topo'
    check_fn = 'check_topo'
    shard = 150
    rule = ('one API call on a fresh experiment topology (node + SmartNIC component + L2Bridge service): add_node / '
            'add_component / add_network_service with a candidate name; .name = and rename() on node, component, service, '
            'interface; update_labels / labels = / set_property(labels); boot_script, tags; user_data / layout_data / mf_data given '
            'str, object, non-serialisable values and JSONData blobs of every kind, by attribute and by set_properties; '
            'distinct by case')

    def fixture(self):
        from fim.user.topology import ExperimentTopology
        from fim.user import ServiceType, ComponentModelType
        t = ExperimentTopology()
        n = t.add_node(name=FIX['NodeSliver'], site='S1')
        t.add_node(name='fixture-node2', site='S1')
        c = n.add_component(name=FIX['ComponentSliver'], model_type=ComponentModelType.SmartNIC_ConnectX_6)
        n.add_component(name='fixture-comp2', model_type=ComponentModelType.GPU_RTX6000)
        i = c.interfaces[FIX['InterfaceSliver']]
        s = t.add_network_service(name=FIX['NetworkServiceSliver'], nstype=ServiceType.L2Bridge, interfaces=[i])
        t.add_network_service(name='fixture-svc2', nstype=ServiceType.L2Bridge, interfaces=[])
        return t, {'NodeSliver': n, 'ComponentSliver': c, 'NetworkServiceSliver': s, 'InterfaceSliver': i}

    def gen(self, rng, tier):
        n = 400 if tier == 'quick' else 3000
        lab = LabelsStream()
        out = []
        for _ in range(n):
            k = rng.choice(['add', 'set', 'rename', 'set', 'rename', 'update_labels', 'update_labels', 'labels_assign', 'boot', 'tags',
                            'user_data'])
            if k == 'add':
                cls = rng.choice(['NodeSliver', 'ComponentSliver', 'NetworkServiceSliver'])
                out.append({'kind': 'add', 'cls': cls, 'v': gen_name(cls, rng)})
            elif k in ('set', 'rename'):
                cls = rng.choice(list(FIX))
                r = rng.random()
                if r < 0.08:
                    v = rng.choice(SIBLINGS[cls] + [FIX[cls]])          # a name already taken in the scope / the own name
                elif r < 0.25:
                    v = wordish(rng, rng.choice([1, 2, 5]), '') + rng.choice(ASCII_NON_ALNUM) + wordish(rng, rng.choice([0, 1, 4]), '')
                else:
                    v = gen_name(cls, rng)
                out.append({'kind': k, 'cls': cls, 'v': v})
            elif k == 'update_labels':
                base = []
                for f in rng.sample(ALL_FIELDS, rng.choice([0, 0, 1, 2])):
                    for _try in range(20):
                        v = member(f, rng)
                        if documented(f, v):
                            base.append([f, v if rng.random() < 0.7 else [v]])
                            break
                kws = [kv for kv in lab.gen_kws(rng) if kv[1] is not None]
                out.append({'kind': k, 'base': base, 'kws': kws})
            elif k == 'labels_assign':
                out.append({'kind': k, 'base': [], 'kws': [kv for kv in lab.gen_kws(rng) if kv[1] is not None],
                            'how': rng.choice(['attr', 'set_property', 'set_properties'])})
            elif k == 'boot':
                n_ = rng.choice([1, 100, 1022, 1023, 1024, 1025])
                v = ws_probe(rng.choice(['echo hi', 'x' * 1000]), BOOT_LIMIT, rng) if rng.random() < 0.4 else ('#!/bin/bash\n' + 'x' * 2000)[:n_]
                out.append({'kind': 'boot', 'v': v, 'how': rng.choice(['attr', 'set_properties', 'set_property', 'ctor_kw'])})
            elif k == 'tags':
                out.append({'kind': 'tags', 'args': [gen_tag(rng) for _ in range(rng.choice([1, 2, 3]))]})
            else:
                prop = rng.choice(list(JD_PROP))
                mx = JD_DOC[JD_PROP[prop]]
                ln = rng.choice([5, mx - 1, mx, mx + 1])
                r = rng.random()
                if r < 0.3:
                    v = ['a' * max(ln - 4, 0)]
                elif r < 0.55:
                    v = '"' + 'a' * (ln - 2) + '"'
                elif r < 0.9:
                    v = Misc.blob_value(rng)
                else:
                    v = rng.choice([{'__set__': 1}, {'__obj__': 1}, {'__bytes__': 3}])
                out.append({'kind': 'blob_prop', 'prop': prop, 'v': v, 'how': rng.choice(['attr', 'attr', 'set_properties'])})
        return out

    def corpus(self):
        out = []
        for cls in ('NodeSliver', 'ComponentSliver', 'NetworkServiceSliver'):
            for v in FALSY:
                out.append({'kind': 'add', 'cls': cls, 'v': v})
        for v in FALSY:
            out.append({'kind': 'boot', 'v': v, 'how': 'attr'})
            out.append({'kind': 'tags', 'args': [v]})
            out.append({'kind': 'blob_prop', 'prop': 'user_data', 'v': v, 'how': 'attr'})
        for cls in FIX:
            for v in ['x', 'ok-name', 'bad\n', FIX[cls]] + SIBLINGS[cls] + FALSY:
                out.append({'kind': 'set', 'cls': cls, 'v': v})
                out.append({'kind': 'rename', 'cls': cls, 'v': v})
            for p in ASCII_NON_ALNUM:           # every ASCII punctuation / control character inside a name, per class
                out.append({'kind': 'set' if ord(p) % 2 else 'rename', 'cls': cls, 'v': 'ab' + p + 'cd'})
        for i_, v in enumerate(ws_corpus('echo hi', BOOT_LIMIT, (1023, 1024, 2100))):
            out.append({'kind': 'boot', 'v': v, 'how': ('attr', 'set_properties', 'set_property', 'ctor_kw')[i_ % 4]})
        out.append({'kind': 'update_labels', 'base': [['vlan', '5']], 'kws': [['vlan', '6\n']]})
        out.append({'kind': 'update_labels', 'base': [], 'kws': [['vlan', ['6', '7']]]})
        for prop, tgt in JD_PROP.items():     # a blob of every kind assigned to every blob-valued element property
            for src_, smx in JD_DOC.items():
                for n in (10, 1025, 2049, 4096):
                    if n <= smx:
                        out.append({'kind': 'blob_prop', 'prop': prop, 'v': {'__blob__': [src_, n]}, 'how': 'attr'})
                        out.append({'kind': 'blob_prop', 'prop': prop, 'v': {'__blob__': [src_, n]}, 'how': 'set_properties'})
        return out + kept_corpus('topo')

    def observe(self, case):
        try:
            t, el = self.fixture()
        except Exception as e:
            return {'err': 'Fixture' + type(e).__name__}
        try:
            return self.observe_on(case, t, el)
        finally:
            try:
                t.graph_model.importer.delete_all_graphs()      # the in-memory store is a singleton
            except Exception:
                pass

    def observe_on(self, case, t, el):
        k = case['kind']
        n = el['NodeSliver']
        try:
            if k == 'add':
                from fim.user import ServiceType, ComponentModelType
                if case['cls'] == 'NodeSliver':
                    x = t.add_node(name=case['v'], site='S1')
                elif case['cls'] == 'ComponentSliver':
                    # a component model without interfaces: only the component's own name is validated
                    x = n.add_component(name=case['v'], model_type=ComponentModelType.GPU_RTX6000)
                else:
                    x = t.add_network_service(name=case['v'], nstype=ServiceType.L2Bridge, interfaces=[])
                return {'ok': x.get_property('name')}
            if k in ('set', 'rename'):
                x = el[case['cls']]
                err = None
                try:
                    if k == 'set':
                        x.name = case['v']
                    else:
                        x.rename(case['v'])
                except Exception as e:
                    err = type(e).__name__
                return {'err_or_none': err, 'handle': x.name, 'graph': x.get_property('name')}
            if k in ('update_labels', 'labels_assign'):
                from fim.slivers.capacities_labels import Labels
                if case['base']:
                    n.labels = Labels(**{a: b for a, b in case['base']})
                before = labels_fields_of(n.labels) if n.labels is not None else []
                err = None
                try:
                    kws = {a: b for a, b in case['kws']}
                    if k == 'update_labels':
                        n.update_labels(**kws)
                    elif case['how'] == 'attr':
                        n.labels = Labels(**kws)
                    elif case['how'] == 'set_property':
                        n.set_property('labels', Labels(**kws))
                    else:
                        n.set_properties(labels=Labels(**kws))
                except Exception as e:
                    err = type(e).__name__
                after = labels_fields_of(n.labels) if n.labels is not None else []
                return {'err_or_none': err, 'before': before, 'after': after}
            if k == 'boot':
                x = n
                if case['how'] == 'attr':
                    n.boot_script = case['v']
                elif case['how'] == 'set_property':
                    n.set_property('boot_script', case['v'])
                elif case['how'] == 'ctor_kw':
                    x = t.add_node(name='ctor-kw-node', site='S1', boot_script=case['v'])
                else:
                    n.set_properties(boot_script=case['v'])
                x.get_sliver()
                return {'ok': x.boot_script}
            if k == 'tags':
                from fim.slivers.tags import Tags
                n.set_properties(tags=Tags(*case['args']))
                return {'ok': list(n.tags.tags)}
            if k == 'blob_prop':
                import fim.slivers.json_data as jd
                prop = case['prop']
                cls = getattr(jd, JD_PROP[prop])
                err = None
                try:
                    val = Misc.decode_obj(case['v'])
                    if case['how'] == 'attr':
                        setattr(n, prop, val)               # the element setter wraps anything that is not of the property's kind
                    else:
                        n.set_properties(**{prop: cls(val)})
                except Exception as e:
                    err = type(e).__name__
                try:
                    d = n.get_property(prop)
                    stored = d.json if d is not None else None
                    n.get_sliver()
                except Exception as e:
                    return {'read_err': type(e).__name__, 'call_err': err}
                if err is not None:
                    return {'err': err, 'after': stored}
                again = True
                try:
                    again = cls(stored).json == stored
                except Exception:
                    again = False
                return {'ok': stored, 'again': again}
        except Exception as e:
            return {'err': type(e).__name__}

    def blob_as_misc(self, case):
        """the equivalent constructor-level case: a blob of the property's own kind assigned through the attribute is
        written as it is (its text then goes through the string path when read back); everything else is wrapped"""
        tgt = JD_PROP[case['prop']]
        b = Misc.blob_spec(case['v'])
        if b is not None and b[0] == tgt and case['how'] == 'attr':
            return {'kind': 'jd_str', 'cls': tgt, 'v': '["' + 'a' * (b[1] - 4) + '"]'}
        if b is not None and b[0] == tgt:      # set_properties(prop=Kind(blob of Kind)): the harness' own wrapping call
            return {'kind': 'jd_obj', 'cls': tgt, 'v': case['v']}
        return {'kind': 'jd_str' if isinstance(case['v'], str) else 'jd_obj', 'cls': tgt, 'v': case['v']}

    def to_coq(self, case, o):
        k = case['kind']
        if 'err' in o and (o['err'].startswith('Fixture') or k in ('set', 'rename', 'update_labels', 'labels_assign')):
            return 'T_setname [] [] [] false [1]%N [] None'      # an exception outside the call under test: never agrees
        if k == 'add':
            return 'T_misc (M_name %s %s %s)' % (cstr(case['cls']), c_sval(case['v']), c_result(o, cstr))
        if k in ('set', 'rename'):
            return 'T_setname %s %s %s %s %s %s %s' % (cstr(case['cls']), cstr(FIX[case['cls']]), cstr(case['v']),
                                                       cbool(case['v'] in SIBLINGS[case['cls']]),
                                                    cstr(o['handle'] if isinstance(o['handle'], str) else '\x00?'),
                                                    cstr(o['graph'] if isinstance(o['graph'], str) else '\x00?'),
                                                    copt(o['err_or_none'], cexn))
        if k in ('update_labels', 'labels_assign'):
            if k == 'update_labels' and case['base']:
                e = 'E_update %s %s' % (c_kvs(case['base']), c_kvs(case['kws']))
            else:
                e = 'E_ctor %s' % c_kvs(case['kws'])
            if o['err_or_none']:
                ob = 'LO_err %s' % cexn(o['err_or_none'])
            else:
                ob = 'LO_ok %s (Some %s)' % (c_kvs(o['after']), c_kvs(o['after']))
            return 'T_labels (%s, %s)' % (e, ob)
        m = Misc()
        if k == 'boot':
            return 'T_misc (%s)' % m.to_coq({'kind': 'boot', 'v': case['v']}, o)
        if k == 'tags':
            return 'T_misc (%s)' % m.to_coq({'kind': 'tags', 'args': case['args']}, o)
        if 'read_err' in o:
            return 'T_setname [] [] [] false [1]%N [] None'      # the element cannot be read back: never agrees
        return 'T_misc (%s)' % m.to_coq(self.blob_as_misc(case), o)

    def oracle(self, case, o):
        k = case['kind']
        if 'err' in o and o['err'].startswith('Fixture'):
            return 'fixture could not be built: ' + o['err']
        if 'err' in o and k in ('set', 'rename', 'update_labels', 'labels_assign'):
            return 'reading the element back after %s raised %s' % (k, o['err'])
        m = Misc()
        if k == 'add':
            return m.oracle({'kind': 'name', 'cls': case['cls'], 'v': case['v']}, o)
        if k in ('set', 'rename'):
            good = doc_name(case['cls'], case['v'])
            old = FIX[case['cls']]
            if case['v'] in SIBLINGS[case['cls']]:
                # the name is taken in the scope: for this property "rejected, nothing stored" is the right outcome
                # (an accepted duplicate is C07's business, not reported here)
                if o['err_or_none'] is not None and (o['graph'] != old or o['handle'] != old):
                    return 'a %s refused because the name is taken changed the element (handle %r, model %r)' % (k, o['handle'], o['graph'])
                if o['err_or_none'] is None and (o['graph'] != case['v'] or o['handle'] != case['v']):
                    return 'name after an accepted %s is %r / %r' % (k, o['handle'], o['graph'])
                return None
            if o['err_or_none'] is None and not good:
                return '%s name %r outside the documented pattern stored by %s' % (case['cls'], case['v'], k)
            if o['err_or_none'] is not None and good:
                return 'in-domain %s name rejected by %s (%s)' % (case['cls'], k, o['err_or_none'])
            if o['graph'] != (case['v'] if good else old):
                return 'name in the model after %s is %r' % (k, o['graph'])
            if o['handle'] != o['graph']:
                return 'element handle holds the rejected name after a failed %s (model keeps the old name)' % k
            return None
        if k in ('update_labels', 'labels_assign'):
            lab = LabelsStream()
            e = 'update' if (k == 'update_labels' and case['base']) else 'ctor'
            exp = lab.expected({'entry': e, 'base': case['base'], 'kws': case['kws']})
            if o['err_or_none'] is None:
                if exp[0] == 'reject':
                    return 'labels stored through %s although %s' % (k, exp[1])
                if o['after'] != exp[1]:
                    return 'labels stored through %s differ from the values given' % k
            else:
                if exp[0] == 'ok':
                    return 'in-domain labels rejected through %s (%s)' % (k, o['err_or_none'])
                if o['after'] != o['before']:
                    return 'labels changed by a rejected %s' % k
            return None
        if k == 'boot':
            return m.oracle({'kind': 'boot', 'v': case['v']}, o)
        if k == 'tags':
            oo = dict(o)
            if 'ok' in oo:
                oo['recoded'] = oo['ok']
            return m.oracle({'kind': 'tags', 'args': case['args']}, oo)
        if 'read_err' in o:
            return 'after %s = %s the element cannot be read back (%s); the call itself raised %s' % (
                case['prop'], m.arg_kind(case), o['read_err'], o['call_err'])
        if 'err' in o and o.get('after') is not None:
            return 'a rejected %s assignment left %d characters in the model' % (case['prop'], len(o['after']))
        return m.oracle(self.blob_as_misc(case), o)

    def known_signature(self, case, o, why):
        return 'topo:%s:%s' % (case['kind'], why or '')

    def key(self, case, o):
        return stable_hash(case)

    def histogram(self, cases, obs):
        h = {}
        for c, o in zip(cases, obs):
            r = o.get('err') or o.get('err_or_none') or 'ok'
            k = '%s:%s' % (c['kind'], r)
            h[k] = h.get(k, 0) + 1
        return h

    def describe(self, case, o):
        return Misc().describe(case, o)

    def shrink(self, case, failing):
        case = json.loads(json.dumps(case))
        if case['kind'] in ('set', 'rename', 'add') and isinstance(case.get('v'), str):
            def f(t):
                c2 = dict(case)
                c2['v'] = t
                return failing(c2)
            case['v'] = shrink_string(case['v'], f)
        return case


# ----------------------------------------------------------------------------------------------
# stream: further ways in (round 4) -- element classes, constructor keywords, read-back + update, histories on one
# element, a Labels object shared by two elements, edited serialized text, direct attribute assignment followed
# by attaching the object, list values with non-string elements, keywords that name a method
# ----------------------------------------------------------------------------------------------

SAFE_ATTR_KWS = ['to_json', 'to_dict', 'list_fields', 'update', 'from_json']      # methods of Labels / Capacities
ELEM_CLASSES = ['NodeSliver', 'ComponentSliver', 'InterfaceSliver', 'NetworkServiceSliver', 'Facility', 'FacilityInterface',
                'SubInterface', 'Link']


def c_lelem(x):
    if isinstance(x, str):
        return '(LE_str %s)' % cstr(x)
    if isinstance(x, (bool, int, float)):
        return '(LE_int %s)' % cZ(int(x))
    return 'LE_bad'


def c_outcome(o):
    if o in ('stored', 'skipped'):
        return 'KW_' + o
    return '(KW_err %s)' % cexn(o)


def valid_kws(rng, nmax=2):
    out = []
    for f in rng.sample(ALL_FIELDS, rng.choice([1, 1, nmax])):
        for _try in range(30):
            v = member(f, rng)
            if documented(f, v):
                out.append([f, v if rng.random() < 0.7 else [v]])
                break
    return out


class Entry(Topo):
    name = 'entry'
    shard = 120
    rule = ('labels through set_properties / .labels= / update_labels on node, component, interface and network service; '
            'constructor keywords add_node/add_component/add_network_service(labels=); Labels.update of a value read back; '
            'histories accepted-rejected-accepted on one element; one Labels object attached to two elements; a serialized model '
            'whose text was edited; direct attribute assignment then attach; non-string list elements; method names as keywords; '
            'distinct by case')

    def fixture(self):
        from fim.user import LinkType
        from fim.slivers.capacities_labels import Labels
        t, el = Topo.fixture(self)
        fac = t.add_facility(name='fixture-fac', site='S2')
        fint = list(fac.interfaces.values())[0]
        p2 = el['ComponentSliver'].interfaces['fixture-comp-p2']
        child = p2.add_child_interface(name='fixture-child', labels=Labels(vlan='100'))
        link = t.add_link(name='fixture-link', ltype=LinkType.Patch, interfaces=[p2, fint])
        el = dict(el)
        el.update({'Facility': fac, 'FacilityInterface': fint, 'SubInterface': child, 'Link': link})
        return t, el

    def gen(self, rng, tier):
        n = 300 if tier == 'quick' else 3300
        lab = LabelsStream()
        out = []
        for _ in range(n):
            k = rng.choice(['elem_labels', 'elem_labels', 'elem_labels', 'ctor_kw', 'readback_update', 'history', 'shared', 'edited_text',
                            'assign_attach', 'assign_attach', 'mixed', 'mixed', 'attr_kw', 'tags_attach', 'caps_attach'])
            kws = [kv for kv in lab.gen_kws(rng) if kv[1] is not None and kv[0] in ALL_FIELDS]
            if k == 'elem_labels':
                out.append({'kind': k, 'cls': rng.choice(ELEM_CLASSES), 'how': rng.choice(['attr', 'set_property', 'set_properties', 'update_labels']),
                            'base': valid_kws(rng) if rng.random() < 0.5 else [], 'kws': kws})
            elif k == 'ctor_kw':
                cls_ = rng.choice(['NodeSliver', 'ComponentSliver', 'NetworkServiceSliver', 'add_interface', 'add_child_interface'])
                if cls_ == 'add_child_interface' and not any(a == 'vlan' for a, _ in kws):     # a sub-interface needs a vlan label
                    kws = [['vlan', gen_value('vlan', rng) or '7']] + kws
                out.append({'kind': k, 'cls': cls_, 'kws': kws})
            elif k == 'tags_attach':
                out.append({'kind': k, 'tags': [wordish(rng, 3, '-') for _ in range(rng.choice([0, 1, 2]))],
                            'extra': [Misc().tagv(rng) for _ in range(rng.choice([1, 1, 2]))], 'how': rng.choice(['attr', 'set_properties'])})
            elif k == 'caps_attach':
                out.append({'kind': k, 'fields': [[f_, rng.choice([0, 1, 64, -1, -5, None, True, 1.5, 'x', 10 ** 12])]
                                                   for f_ in rng.sample(CAP_FIELDS, rng.choice([1, 1, 2]))],
                            'how': rng.choice(['attr', 'set_properties'])})
            elif k == 'readback_update':
                out.append({'kind': k, 'cls': rng.choice(ELEM_CLASSES), 'base': valid_kws(rng), 'kws': kws})
            elif k == 'history':
                bad = [kv for kv in lab.gen_kws(rng, bad_bias=1.0) if kv[1] is not None and kv[0] in ALL_FIELDS]
                out.append({'kind': k, 'cls': rng.choice(ELEM_CLASSES), 'base': valid_kws(rng), 'bad': bad, 'kws': valid_kws(rng)})
            elif k == 'shared':
                out.append({'kind': k, 'base': valid_kws(rng), 'kws': valid_kws(rng)})
            elif k == 'edited_text':
                f = rng.choice(['vlan', 'asn', 'mac', 'ipv4', 'usb_id', 'region', 'bgp_key', 'inner_vlan'])
                v = gen_value(f, rng)
                if any(ord(c) < 32 or ord(c) > 126 or c in '"\\<>&\'' for c in v):     # keep the text edit trivial
                    v = member(f, rng) + 'x'
                    if any(ord(c) < 32 or ord(c) > 126 or c in '"\\<>&\'' for c in v):
                        v = 'zz'
                out.append({'kind': k, 'field': f, 'v': v})
            elif k == 'assign_attach':
                f = rng.choice(ALL_FIELDS)
                v = gen_value(f, rng)
                out.append({'kind': k, 'base': valid_kws(rng) if rng.random() < 0.5 else [], 'field': f,
                            'v': v if rng.random() < 0.7 else [member(f, rng), v], 'how': rng.choice(['attr', 'set_property', 'set_properties', 'ctor_kw'])})
            elif k == 'mixed':
                f = rng.choice(['numa', 'numa', 'local_name', 'instance', 'device_name', 'vlan', 'asn', 'mac', 'vlan_range', 'zz_unknown'])
                l = [rng.choice([5, 7, -1, 8, 0, True, 7.9, None, [1], 'x', '3', member(f if f in ALL_FIELDS else 'numa', rng)])
                     for _ in range(rng.choice([1, 2, 3]))]
                if all(isinstance(x, str) for x in l):
                    l.append(rng.choice([5, None, 1.5]))
                out.append({'kind': k, 'entry': rng.choice([0, 1, 2]), 'k': f, 'l': l})
            else:
                out.append({'kind': 'attr_kw', 'what': rng.choice(['labels', 'labels', 'caps']), 'entry': rng.choice([0, 2]),
                            'k': rng.choice(SAFE_ATTR_KWS), 'forgiving': rng.random() < 0.5})
        return out

    def corpus(self):
        out = [{'kind': 'assign_attach', 'base': [['vlan', '5']], 'field': 'vlan', 'v': 'junk\n', 'how': 'attr'},
               {'kind': 'assign_attach', 'base': [], 'field': 'mac', 'v': '00:11:22:33:44:55', 'how': 'set_properties'},
               {'kind': 'tags_attach', 'tags': ['a'], 'extra': ['bad tag'], 'how': 'attr'},
               {'kind': 'tags_attach', 'tags': ['a'], 'extra': ['good-tag'], 'how': 'set_properties'},
               {'kind': 'caps_attach', 'fields': [['core', -5]], 'how': 'attr'}, {'kind': 'caps_attach', 'fields': [['core', 5]], 'how': 'set_properties'},
               {'kind': 'mixed', 'entry': 0, 'k': 'numa', 'l': [5]}, {'kind': 'mixed', 'entry': 2, 'k': 'local_name', 'l': [1, None]},
               {'kind': 'mixed', 'entry': 1, 'k': 'numa', 'l': ['1', 7.9]}, {'kind': 'mixed', 'entry': 0, 'k': 'vlan', 'l': ['5', 5]},
               {'kind': 'attr_kw', 'what': 'labels', 'entry': 0, 'k': 'to_json', 'forgiving': False},
               {'kind': 'attr_kw', 'what': 'labels', 'entry': 2, 'k': 'to_json', 'forgiving': True},
               {'kind': 'attr_kw', 'what': 'caps', 'entry': 0, 'k': 'to_json', 'forgiving': False},
               {'kind': 'edited_text', 'field': 'vlan', 'v': '99999'}, {'kind': 'edited_text', 'field': 'vlan', 'v': '77'},
               {'kind': 'shared', 'base': [['vlan', '5']], 'kws': [['vlan', '6']]},
               {'kind': 'history', 'cls': 'NodeSliver', 'base': [['vlan', '5']], 'bad': [['vlan', '5\n']], 'kws': [['mac', '00:11:22:33:44:55']]}]
        for cls in ELEM_CLASSES:
            for how in ('attr', 'set_property', 'set_properties', 'update_labels'):
                out.append({'kind': 'elem_labels', 'cls': cls, 'how': how, 'base': [], 'kws': [['vlan', '7\n']]})
                out.append({'kind': 'elem_labels', 'cls': cls, 'how': how, 'base': [['asn', '5']], 'kws': [['vlan', ['7', '8']]]})
        return out + kept_corpus('entry')

    @staticmethod
    def read_labels(x):
        l = x.labels
        return labels_fields_of(l) if l is not None else []

    def observe_on(self, case, t, el):
        from fim.slivers.capacities_labels import Labels, Capacities
        from fim.user import ServiceType, ComponentModelType
        k = case['kind']
        n = el['NodeSliver']
        D = lambda kws: {a: b for a, b in kws}
        try:
            if k in ('elem_labels', 'readback_update', 'history'):
                x = el[case['cls']]
                if case['base']:
                    x.labels = Labels(**D(case['base']))
                elif x.labels is not None:
                    x.unset_property('labels')           # interfaces come with a local_name label: start from none
                before = self.read_labels(x)
                mid = None
                if k == 'history':
                    try:
                        x.update_labels(**D(case['bad']))
                        mid = 'accepted'
                    except Exception as e:
                        mid = type(e).__name__
                    if self.read_labels(x) != before and mid != 'accepted':
                        return {'err': 'ChangedByRejectedUpdate'}
                    before = self.read_labels(x)
                err = None
                try:
                    kws = D(case['kws'])
                    how = case.get('how', 'update_labels')
                    if k == 'readback_update':
                        cur = x.labels
                        x.labels = Labels.update(cur, **kws) if cur is not None else Labels(**kws)
                    elif how == 'update_labels':
                        x.update_labels(**kws)
                    elif how == 'attr':
                        x.labels = Labels(**kws)
                    elif how == 'set_property':
                        x.set_property('labels', Labels(**kws))
                    else:
                        x.set_properties(labels=Labels(**kws))
                except Exception as e:
                    err = type(e).__name__
                return {'err_or_none': err, 'before': before, 'after': self.read_labels(x), 'mid': mid}
            if k == 'ctor_kw':
                err, after = None, []
                try:
                    lab = Labels(**D(case['kws']))
                    if case['cls'] == 'NodeSliver':
                        x = t.add_node(name='ctor-kw-node', site='S1', labels=lab)
                    elif case['cls'] == 'ComponentSliver':
                        x = n.add_component(name='ctor-kw-comp', model_type=ComponentModelType.GPU_RTX6000, labels=lab)
                    elif case['cls'] == 'add_interface':
                        x = el['NetworkServiceSliver'].add_interface(name='ctor-kw-if', labels=lab)
                    elif case['cls'] == 'add_child_interface':
                        x = el['InterfaceSliver'].add_child_interface(name='ctor-kw-child', labels=lab)
                    else:
                        x = t.add_network_service(name='ctor-kw-svc', nstype=ServiceType.L2Bridge, interfaces=[], labels=lab)
                    # a sub-interface takes over its parent's local_name (whatever was given): left out of the comparison
                    after = [kv for kv in self.read_labels(x) if not (case['cls'] == 'add_child_interface' and kv[0] == 'local_name')]
                except Exception as e:
                    err = type(e).__name__
                return {'err_or_none': err, 'before': [], 'after': after}
            if k == 'shared':
                n2 = t.nodes['fixture-node2']
                l = Labels(**D(case['base']))
                n.labels = l
                n2.labels = l
                n.update_labels(**D(case['kws']))
                return {'err_or_none': None, 'before': [], 'after': self.read_labels(n2), 'first': self.read_labels(n),
                        'object': labels_fields_of(l)}
            if k == 'edited_text':
                from fim.user.topology import ExperimentTopology
                n.labels = Labels(**{case['field']: PLACEHOLDER[case['field']]})
                text = t.serialize()
                import re as _re
                pat = _re.compile('(' + _re.escape(case['field']) + r'(?:&quot;|"): (?:&quot;|"))' + _re.escape(PLACEHOLDER[case['field']])
                                  + r'(?=&quot;|")')
                if len(pat.findall(text)) != 1:
                    return {'err': 'PlaceholderNotUnique'}
                text = pat.sub(lambda m_: m_.group(1) + case['v'], text)
                try:
                    t2 = ExperimentTopology(graph_string=text)
                    x = t2.nodes[FIX['NodeSliver']]
                    after = self.read_labels(x)
                    x.get_sliver()
                    return {'err_or_none': None, 'before': [], 'after': after}
                except Exception as e:
                    return {'err_or_none': type(e).__name__, 'before': [], 'after': []}
            if k == 'assign_attach':
                l = Labels(**D(case['base']))
                setattr(l, case['field'], case['v'])
                wrote, rerr = True, None
                x = n
                try:
                    if case['how'] == 'attr':
                        n.labels = l
                    elif case['how'] == 'set_property':
                        n.set_property('labels', l)
                    elif case['how'] == 'set_properties':
                        n.set_properties(labels=l)
                    else:
                        x = t.add_node(name='ctor-kw-node', site='S1', labels=l)
                except Exception as e:
                    wrote = type(e).__name__
                if wrote is True:
                    try:
                        self.read_labels(x)
                        x.get_sliver()
                    except Exception as e:
                        rerr = type(e).__name__
                return {'wrote': wrote, 'read_err': rerr}
            if k in ('tags_attach', 'caps_attach'):
                from fim.slivers.tags import Tags
                if k == 'tags_attach':
                    obj = Tags(*case['tags'])
                    for x_ in case['extra']:
                        obj.tags.append(x_)
                    prop = 'tags'
                else:
                    obj = Capacities()
                    for f_, v_ in case['fields']:
                        setattr(obj, f_, v_)
                    prop = 'capacities'
                wrote, rerr = True, None
                try:
                    if case['how'] == 'attr':
                        setattr(n, prop, obj)
                    else:
                        n.set_properties(**{prop: obj})
                except Exception as e:
                    wrote = type(e).__name__
                try:
                    getattr(n, prop)
                    n.get_sliver()
                except Exception as e:
                    rerr = type(e).__name__
                return {'wrote': wrote, 'read_err': rerr}
            if k == 'mixed':
                kw = {case['k']: case['l']}
                if case['entry'] == 0:
                    o = Labels(**kw)
                elif case['entry'] == 1:
                    o = Labels.update(Labels(), **kw)
                else:
                    o = Labels.from_json(json.dumps(kw))
                return {'outcome': 'stored' if o.__dict__.get(case['k']) == case['l'] and case['k'] in ALL_FIELDS else 'skipped'}
            if k == 'attr_kw':
                if case['what'] == 'labels':
                    o = Labels(**{case['k']: 'x'}) if case['entry'] == 0 else Labels.from_json(json.dumps({case['k']: 'x'}))
                else:
                    o = Capacities()
                    o._set_fields(forgiving=case['forgiving'], **{case['k']: 5})
                return {'outcome': 'stored' if case['k'] in o.__dict__ else 'skipped'}
        except Exception as e:
            if k in ('mixed', 'attr_kw'):
                return {'outcome': type(e).__name__}
            return {'err': type(e).__name__}

    @staticmethod
    def effective(case, o):
        """a history whose middle update was (legitimately) accepted continues from base + that update"""
        if case['kind'] == 'history' and o.get('mid') == 'accepted':
            d = {a: b for a, b in case['base']}
            d.update({a: b for a, b in case['bad']})
            case = dict(case)
            case['base'] = [[f, d[f]] for f in ALL_FIELDS if f in d]
        if case['kind'] == 'ctor_kw' and case['cls'] == 'add_child_interface':
            case = dict(case)
            case['kws'] = [kv for kv in case['kws'] if kv[0] != 'local_name']
        return case

    def to_coq(self, case, o):
        k = case['kind']
        if 'err' in o:
            return 'T_setname [] [] [] false [1]%N [] None'
        case = self.effective(case, o)
        if k in ('elem_labels', 'readback_update', 'history', 'ctor_kw', 'shared', 'edited_text'):
            if k == 'edited_text':
                e = 'E_from_json %s' % c_kvs([[case['field'], case['v']]])
            elif k == 'shared':
                e = 'E_ctor %s' % c_kvs(case['base'])      # the second element keeps what was attached to it
            elif k != 'ctor_kw' and case['base'] and not (k == 'elem_labels' and case['how'] != 'update_labels'):
                e = 'E_update %s %s' % (c_kvs(case['base']), c_kvs(case['kws']))
            else:
                e = 'E_ctor %s' % c_kvs(case['kws'])
            if o['err_or_none']:
                ob = 'LO_err %s' % cexn(o['err_or_none'])
            else:
                ob = 'LO_ok %s (Some %s)' % (c_kvs(o['after']), c_kvs(o['after']))
            return 'T_labels (%s, %s)' % (e, ob)
        if k == 'assign_attach':
            return 'T_extra (X_assign_attach %s %s %s %s)' % (c_kvs(case['base']), cstr(case['field']), c_lval(case['v']), cbool(o['wrote'] is True))
        if k == 'tags_attach':
            return 'T_extra (X_tags_attach %s %s)' % (clist([c_tagv(x) for x in case['tags'] + case['extra']]), cbool(o['wrote'] is True))
        if k == 'caps_attach':
            d = {f: 0 for f in CAP_FIELDS}
            d.update({a: b for a, b in case['fields']})
            return 'T_extra (X_caps_attach %s %s)' % (clist(['(%s, %s)' % (cstr(f), c_cval(d[f])) for f in CAP_FIELDS]), cbool(o['wrote'] is True))
        if k == 'mixed':
            return 'T_extra (X_mixed %s %s %s %s)' % (cN(case['entry']), cstr(case['k']), clist([c_lelem(x) for x in case['l']]), c_outcome(o['outcome']))
        if case['what'] == 'labels':
            return 'T_extra (X_attr %s %s)' % (cN(case['entry']), c_outcome(o['outcome']))
        return 'T_extra (X_caps_attr %s %s)' % (cbool(case['forgiving']), c_outcome(o['outcome']))

    def oracle(self, case, o):
        k = case['kind']
        if 'err' in o:
            return 'entry point misbehaved: ' + o['err']
        lab = LabelsStream()
        if k == 'history' and o.get('mid') == 'accepted' and lab.expected({'entry': 'update', 'base': case['base'], 'kws': case['bad']})[0] == 'reject':
            return 'an out-of-domain update was accepted in the middle of a history'
        case = self.effective(case, o)
        if k in ('elem_labels', 'readback_update', 'history', 'ctor_kw'):
            upd = k != 'ctor_kw' and case['base'] and not (k == 'elem_labels' and case['how'] != 'update_labels')
            exp = lab.expected({'entry': 'update' if upd else 'ctor', 'base': case['base'] if upd else [], 'kws': case['kws']})
            if k == 'history' and o.get('mid') == 'accepted' and lab.expected({'entry': 'update', 'base': case['base'], 'kws': case['bad']})[0] == 'reject':
                return 'an out-of-domain update was accepted in the middle of a history'
            if o['err_or_none'] is None:
                if exp[0] == 'reject':
                    return 'labels stored through %s although %s' % (k, exp[1])
                if o['after'] != exp[1]:
                    return 'labels read back after %s differ from the values given' % k
            else:
                if exp[0] == 'ok':
                    return 'in-domain labels rejected through %s (%s)' % (k, o['err_or_none'])
                if o['after'] != o['before']:
                    return 'labels changed by a rejected %s' % k
            return None
        if k == 'shared':
            want = lab.expected({'entry': 'ctor', 'base': [], 'kws': case['base']})[1]
            if o['after'] != want or o['object'] != want:
                return 'updating one element changed the labels of the other element / of the shared object'
            if o['first'] != lab.expected({'entry': 'update', 'base': case['base'], 'kws': case['kws']})[1]:
                return 'update_labels on the first element did not give base + changes'
            return None
        if k == 'edited_text':
            good = documented(case['field'], case['v'])
            if o['err_or_none'] is None and not good:
                return 'an out-of-domain %s value in edited model text is surfaced without complaint: %r' % (case['field'], o['after'])
            if o['err_or_none'] is not None and good:
                return 'an in-domain value in edited model text is rejected (%s)' % o['err_or_none']
            if good and o['after'] != [[case['field'], case['v']]]:
                return 'value read from edited text differs'
            return None
        if k == 'assign_attach':
            xs = case['v'] if isinstance(case['v'], list) else [case['v']]
            good = all(documented(case['field'], x) for x in xs)
            if o['wrote'] is True and not good:
                return 'a value assigned directly to a Labels attribute entered the model unchecked (reading the element back: %s)' % (o['read_err'] or 'no complaint')
            if o['wrote'] is not True and good:
                return 'an in-domain directly assigned value was rejected on attach (%s)' % o['wrote']
            return None
        if k in ('tags_attach', 'caps_attach'):
            if k == 'tags_attach':
                good = all(doc_tag(x) for x in case['tags'] + case['extra'])
                what = 'a tag appended directly to Tags.tags'
            else:
                good = all(v is None or (isinstance(v, int) and v >= 0) for _, v in case['fields'])
                what = 'a value assigned directly to a Capacities attribute'
            if o['read_err']:
                return '%s left the element unreadable (%s); the write %s' % (what, o['read_err'], 'was accepted' if o['wrote'] is True else 'raised ' + str(o['wrote']))
            if o['wrote'] is True and not good:
                return '%s entered the model unchecked' % what
            if o['wrote'] is not True and good:
                return 'in-domain content changed directly was rejected on attach (%s)' % o['wrote']
            return None
        if k == 'mixed':
            if o['outcome'] == 'stored':
                return 'a list with a non-string element was stored as a %s label: %r' % (case['k'], case['l'])
            return None
        if o['outcome'] == 'stored':
            return 'a keyword naming the method %s was stored on the %s object' % (case['k'], case['what'])
        return None

    def known_signature(self, case, o, why):
        return 'entry:%s:%s' % (case['kind'], why or '')

    def histogram(self, cases, obs):
        h = {}
        for c, o in zip(cases, obs):
            r = o.get('err') or o.get('outcome') or (('wrote' in o) and ('wrote' if o['wrote'] is True else o['wrote'])) or o.get('err_or_none') or 'ok'
            k = '%s:%s' % (c['kind'], r)
            h[k] = h.get(k, 0) + 1
        return h

    def describe(self, case, o):
        return {'case': case, 'impl': o}

    def shrink(self, case, failing):
        case = json.loads(json.dumps(case))
        if case['kind'] == 'assign_attach' and isinstance(case['v'], str):
            def f(t_):
                c2 = dict(case)
                c2['v'] = t_
                return failing(c2)
            case['v'] = shrink_string(case['v'], f)
            if case['base']:
                c2 = dict(case)
                c2['base'] = []
                if failing(c2):
                    case = c2
        if case['kind'] == 'mixed':
            while len(case['l']) > 1:
                for i in range(len(case['l'])):
                    c2 = dict(case)
                    c2['l'] = case['l'][:i] + case['l'][i + 1:]
                    if any(not isinstance(x, str) for x in c2['l']) and failing(c2):
                        case = c2
                        break
                else:
                    break
        return case


PLACEHOLDER = {'vlan': '1234', 'inner_vlan': '1235', 'asn': '64999', 'mac': '0a:1b:2c:3d:4e:5f', 'ipv4': '10.99.88.77',
               'usb_id': '1a2b:3c4d', 'region': 'placeholder-region', 'bgp_key': 'placeholder-key'}


class C16(Check):
    pid = 'C16'
    translators = ['gen_caps', 'gen_labels']
    model_targets = ['Model/Labels16.vo']
    streams = [Prims(), LabelsStream(), Misc(), Topo(), Entry()]
    trusted_base = [
        'Coq 8.16.1 kernel (coqc), vm_compute for the correspondence evaluation; no native_compute',
        'Print Assumptions of every C16 theorem: Closed under the global context (no axioms)',
        'translator/gen_labels.py + translator/pyast.py: CPython re._parser.parse output -> Base/Regex.v AST; source shapes of '
        'Labels._set_fields / JSONField.update / from_json / Tags / set_name / set_boot_script / JSONData.__init__ compared with '
        'fixed templates (fail-closed); Unicode tables swept from the running interpreter',
        'modelled not verified: the `re` backtracking engine (= language membership, `$` = end or before a final newline), '
        'int(str), str.split, len -- each validated by the prims stream; json.loads/json.dumps enter the JSONData model as '
        'observed inputs (validity bit, dumped text)',
        'harness/c16.py + harness/common.py (generators, recording of implementation results, cases.v writer); the documented '
        'formats restated by hand in harness/c16.py are the search oracle, not part of the proof',
        'asserts are assumed enabled (python -O would remove the Capacities and boot-script checks)',
    ]
    def refuted_witnesses(self):
        st = Entry()

        def handle_name():
            tp = Topo()
            case = {'kind': 'set', 'cls': 'NodeSliver', 'v': 'x'}
            o = tp.observe(case)
            still = o.get('err_or_none') is not None and o.get('handle') == 'x' and o.get('graph') == FIX['NodeSliver']
            return still, {'case': case, 'impl': o}

        def replay(case):
            def run():
                o = st.observe(case)
                return st.oracle(case, o) is not None, {'case': case, 'impl': o}
            return run
        return [('C16_handle_name_full_or_refuted', handle_name),
                ('C16_nonstring_elements_full_or_refuted', replay({'kind': 'mixed', 'entry': 0, 'k': 'numa', 'l': [5]})),
                ('C16_nonfield_keyword_full_or_refuted', replay({'kind': 'attr_kw', 'what': 'labels', 'entry': 0, 'k': 'to_json', 'forgiving': False})),
                ('C16_capacity_nonfield_keyword_full_or_refuted', replay({'kind': 'attr_kw', 'what': 'caps', 'entry': 0, 'k': 'to_json', 'forgiving': False})),
                ('C16_entry_point_table_full_or_refuted', replay({'kind': 'assign_attach', 'base': [], 'field': 'vlan', 'v': 'junk', 'how': 'attr'})),
                ('C16_tags_attach_full_or_refuted', replay({'kind': 'tags_attach', 'tags': ['a'], 'extra': ['bad tag'], 'how': 'attr'})),
                ('C16_capacities_attach_full_or_refuted', replay({'kind': 'caps_attach', 'fields': [['core', -5]], 'how': 'attr'}))]

    assumptions = [
        'label values are str, list of str, None or another scalar (a list with non-string elements is outside the modelled domain)',
        'keyword names are either Labels fields or names that are not attributes of the object at all',
        'a Labels/Capacities object is only changed through its constructor, update or from_json (plain attribute assignment is not validated by the library)',
        'the specification of each format is the language of its regenerated regular expression plus the regenerated range predicate',
    ]


if __name__ == '__main__':
    sys.exit(main(C16()))

"""C03 - attribute value codecs are lossless, canonical and never mutate their input.

Streams (each: real code run in observe(), model evaluated inside Coq through Model/CodecChk.v, and an
INDEPENDENT oracle that restates the property over the implementation's observables only):
  json   Base/Json.v (jprint / jsort / jparse) against json.dumps / json.loads
  field  the seven JSONField classes: construct, to_json, to_dict, from_json, re-encode, from_json of a text with
         extra unknown keys, update() with before/after snapshots of the original and of the keyword values
  misc   Tags, JSONData x3, Gateway, Path/PathInfo/ERO, typed tuples
  maint  MaintenanceInfo operation sequences (add/rem/pop/get/finalize), to_json / from_json, unknown keys
"""
import sys, copy, json, math, datetime
from . import common
from .common import *

sys.path.insert(0, os.path.join(VERIF, 'translator'))


class Tok(str):
    """a float literal / constant exactly as it stands in a JSON text"""
    pass


def loads_tok(t):
    return json.loads(t, parse_float=Tok, parse_constant=Tok)


def cjson(o):
    """python JSON-able value -> Coq term of type json (floats by their json.dumps text)"""
    if isinstance(o, Tok):
        return '(JFloat %s)' % cstr(str(o))
    if o is None:
        return 'JNull'
    if isinstance(o, bool):
        return '(JBool %s)' % cbool(o)
    if isinstance(o, int):
        return '(JInt %s)' % cZ(o)
    if isinstance(o, float):
        return '(JFloat %s)' % cstr(json.dumps(o))
    if isinstance(o, str):
        return '(JStr %s)' % cstr(o)
    if isinstance(o, (list, tuple)):
        return '(JArr %s)' % clist([cjson(x) for x in o])
    if isinstance(o, dict):
        return '(JObj %s)' % cobj(o)
    raise TypeError(repr(o))


def cobj(d):
    items = d.items() if isinstance(d, dict) else d
    return clist(['(%s, %s)' % (cstr(k), cjson(v)) for k, v in items])


def costr(s):
    return 'None' if s is None else '(Some %s)' % cstr(s)


def err(e):
    return {'err': type(e).__name__}


def is_err(o):
    return isinstance(o, dict) and set(o.keys()) == {'err'}


def canon(o):
    """deep copy with tuples -> lists and floats kept (for snapshots / equality by value and type)"""
    if isinstance(o, (list, tuple)):
        return [canon(x) for x in o]
    if isinstance(o, dict):
        return {k: canon(v) for k, v in o.items()}
    return o


def load_corpus(stream):
    """minimised cases kept in corpus/C03/<stream>_*.json ({"stream", "case", "why"})"""
    out = []
    for f in sorted(glob.glob(os.path.join(VERIF, 'corpus', 'C03', stream + '_*.json'))):
        with open(f) as fh:
            out.append(json.load(fh)['case'])
    return out


def has_nan(o):
    if isinstance(o, float):
        return o != o
    if isinstance(o, (list, tuple)):
        return any(has_nan(x) for x in o)
    if isinstance(o, dict):
        return any(has_nan(x) for x in o.values())
    return False


def same(a, b):
    """field-wise equality that also distinguishes True/1, 0/0.0 and NaN==NaN (value AND type)"""
    if type(a) != type(b):
        return False
    if isinstance(a, dict):
        return list(a.keys()) == list(b.keys()) and all(same(a[k], b[k]) for k in a)
    if isinstance(a, list):
        return len(a) == len(b) and all(same(x, y) for x, y in zip(a, b))
    if isinstance(a, float):
        return repr(a) == repr(b)
    return a == b


# ----------------------------------------------------------------------------------------------
# generators of JSON-able values
# ----------------------------------------------------------------------------------------------
CHARS = ['a', 'b', 'Z', '0', '9', ' ', '_', '-', ':', '/', '.', ',', '"', '\\', '\n', '\r', '\t', '\b', '\f', '\x00',
         '\x1f', '\x7f', '\x80', '\xe9', '\xa0', '\u20ac', '\ud7ff', '\ue000', '\uffff', '\U00010000', '\U0001f600',
         '\U0010ffff', '{', '}', '[', ']', "'", 'u', 'n']


def gen_str(rng, surrogates=False):
    m = rng.randrange(8)
    if m == 0:
        return ''
    n = rng.choice([1, 1, 2, 3, 5, 9])
    pool = CHARS + (['\ud800', '\udc00', '\udbff', '\udfff'] if surrogates else [])
    if m < 4:
        return ''.join(rng.choice('abcxyz019_-') for _ in range(n))
    return ''.join(rng.choice(pool) for _ in range(n))


FLOATS = [0.0, -0.0, 1.5, -2.25, 1e22, 1e-7, 123456.789, 5e-324, 1.7976931348623157e308, 35.7796, -78.6382, 1e16, 0.1]


def gen_scalar(rng, special=True, surrogates=False):
    k = rng.randrange(7)
    if k == 0:
        return None
    if k == 1:
        return rng.choice([True, False])
    if k == 2:
        return rng.choice([0, 1, -1, 7, 10, 42, -300, 4096, 2 ** 31, 2 ** 63, 10 ** 30, -10 ** 30 - 1, 1000000])
    if k == 3:
        f = rng.choice(FLOATS + ([float('inf'), float('-inf'), float('nan')] if special else []))
        return f
    return gen_str(rng, surrogates)


def gen_value(rng, depth=2, special=True, surrogates=False):
    k = rng.randrange(10)
    if depth <= 0 or k < 5:
        return gen_scalar(rng, special, surrogates)
    n = rng.choice([0, 1, 2, 3])
    if k < 8:
        return [gen_value(rng, depth - 1, special, surrogates) for _ in range(n)]
    return {gen_str(rng, surrogates): gen_value(rng, depth - 1, special, surrogates) for _ in range(n)}


def render(rng, v):
    """a JSON text of v with random whitespace and escape spellings (floats in repr form)"""
    ws = lambda: rng.choice(['', '', '', ' ', '  ', '\n', '\t', '\r\n '])
    if isinstance(v, str):
        out = ['"']
        for ch in v:
            o = ord(ch)
            r = rng.randrange(4)
            if ch == '/' and r == 0:
                out.append('\\/')
            elif ch in '"\\' or o < 32:
                out.append(json.dumps(ch)[1:-1] if r else '\\u%04X' % o)
            elif o > 126 and r == 0:
                out.append(ch)                       # raw, as with ensure_ascii=False
            elif o > 0xffff:
                out.append(json.dumps(ch)[1:-1] if r != 1 else json.dumps(ch)[1:-1].upper().replace('\\U', '\\u'))
            elif o > 126:
                out.append('\\u%04x' % o if r != 1 else '\\u%04X' % o)
            else:
                out.append(ch if r else '\\u%04x' % o)
        return ''.join(out) + '"'
    if isinstance(v, list):
        return '[' + ws() + (',' + ws()).join(render(rng, x) + ws() for x in v) + ']'
    if isinstance(v, dict):
        return '{' + ws() + (',' + ws()).join(render(rng, k) + ws() + ':' + ws() + render(rng, x) + ws()
                                              for k, x in v.items()) + '}'
    return json.dumps(v)


def corrupt(rng, t):
    if not t:
        return t
    i = rng.randrange(len(t))
    k = rng.randrange(4)
    junk = rng.choice(['"', '\\', ',', ':', '{', '}', '[', ']', '0', '1', '.', 'e', '-', '+', ' ', 'x', 'u', '\n', 'E',
                       'null', 'NaN', '00', '\x01'])
    if k == 0:
        return t[:i] + t[i + 1:]
    if k == 1:
        return t[:i] + junk + t[i:]
    if k == 2:
        return t[:i] + junk + t[i + 1:]
    return t[:i]


def expectation(t):
    """what json.loads does with t: ('R',) reject | ('V', value-with-Tok-floats)"""
    try:
        return ('V', loads_tok(t))
    except json.JSONDecodeError:
        return ('R',)
    except RecursionError:
        return None


class JsonStream(Stream):
    name = 'json'
    header = ('From Coq Require Import List ZArith NArith.\nImport ListNotations.\n'
              'From FIM Require Import Base.Str Base.Json Model.CodecChk.\n')
    case_type = 'jcase'
    check_fn = 'check_json'
    shard = 150
    rule = ('a JSON value (nested to depth 3; strings with quotes, backslashes, control characters, DEL, BMP and astral '
            'code points, lone surrogates; ints to 10^30; floats by repr incl. NaN/Infinity) printed with and without '
            'sort_keys and compared with json.dumps; json.loads compared with jparse on that text, on a re-rendering with '
            'random whitespace / escape spellings / duplicate keys, and on 3 corrupted texts (accept/reject and value); '
            'non-trivial = value contains a container or an escaped string; distinct by value')

    def gen(self, rng, tier):
        n = 250 if tier == 'quick' else 2500
        out = []
        for i in range(n):
            v = gen_value(rng, 3, True, surrogates=(i % 5 == 0))
            srt = rng.random() < 0.5
            alt = render(rng, v)
            if isinstance(v, dict) and v and rng.random() < 0.5:      # duplicate key: dict semantics of the decoder
                k = rng.choice(list(v.keys()))
                alt = alt[:-1] + ',' + json.dumps(k) + ': ' + json.dumps(rng.choice([1, None, 'dup'])) + '}'
            text = json.dumps(v, sort_keys=srt)
            cor = [corrupt(rng, rng.choice([text, alt])) for _ in range(3)]
            out.append({'v': v, 'sort': srt, 'texts': [alt] + cor})
        return out

    def corpus(self):
        mk = lambda v, texts=(): {'v': v, 'sort': True, 'texts': list(texts)}
        return [mk({}), mk([]), mk(''), mk({'b': {'d': 1, 'c': [2.5, None]}, 'a': '\U0001f600\x7f"\\'}),
                mk(0, ['01', '-0', '1.', '1.5e', '1e5', '-', '[1,]', '{"a":1,}', '"\\ud83d\\ude00"', '"\\ud83d"', '"\\ud83d\\u0041"',
                       ' [ ] x', '"\x01"', '"\\x"', 'nul', '-Infinity', '-Infinit', 'NaN', '[1 2]', '{"a" 1}', '{1:2}', '', '  ',
                       '{"a":1,"b":2,"a":3}', '1.5E+3', '-0.0', '0e0', '"\\u00e"', '"\\u12G4"', '"abc', '[', '{', '{"a"', '{"a":',
                       '"\\ud83d\\ude0"', '[[[[[[]]]]]]', '1 ', '\t\n\r 1', 'true', 'false', 'tru', '\ufeff1', '2e', '.5', '+1',
                       '"\\/"', '"\\b\\f\\n\\r\\t"', '0x10', '1_0', "'a'"])]

    def observe(self, case):
        v = case['v']
        text = json.dumps(v, sort_keys=case['sort'])
        ps = []
        for t in [text] + case['texts']:
            e = expectation(t)
            if e is not None:
                ps.append((t, e))
        return {'text': text, 'parses': ps}

    def to_coq(self, case, o):
        ps = []
        for t, e in o['parses']:
            ps.append('(%s, %s)' % (cstr(t), 'PReject' if e[0] == 'R' else '(PValue %s)' % cjson(e[1])))
        return '((%s, %s, %s), %s)' % (cjson(case['v']), cbool(case['sort']), cstr(o['text']), clist(ps))

    def oracle(self, case, o):
        return None          # json itself is not the subject of C03; this stream only validates Base/Json.v

    def key(self, case, o):
        v = case['v']
        if isinstance(v, (list, dict)) and v:
            return stable_hash(o['text'])
        if isinstance(v, str) and json.dumps(v) != '"' + v + '"':
            return stable_hash(o['text'])
        return None

    def describe(self, case, o):
        return {'case': {'text': o['text'][:200], 'sort_keys': case['sort']},
                'impl': {'parses': [[t[:80], e[0]] for t, e in o['parses'][:4]]}}

    def histogram(self, cases, obs):
        h = {'dict': 0, 'list': 0, 'scalar': 0, 'parse_checks': 0, 'rejects': 0, 'astral_or_escape': 0}
        for c, o in zip(cases, obs):
            v = c['v']
            h['dict' if isinstance(v, dict) else 'list' if isinstance(v, list) else 'scalar'] += 1
            h['parse_checks'] += len(o['parses'])
            h['rejects'] += sum(1 for _, e in o['parses'] if e[0] == 'R')
            h['astral_or_escape'] += '\\' in o['text']
        return h


# ----------------------------------------------------------------------------------------------
# stream field : the JSONField family
# ----------------------------------------------------------------------------------------------
def loose_same(a, b):
    """field-wise equality by value and type, except that bool and int compare by value (False == 0 in Python and
    in JSON-able dict equality); floats by repr"""
    if isinstance(a, bool) and isinstance(b, int) or isinstance(b, bool) and isinstance(a, int):
        return a == b
    if type(a) != type(b):
        return False
    if isinstance(a, dict):
        return list(a.keys()) == list(b.keys()) and all(loose_same(a[k], b[k]) for k in a)
    if isinstance(a, list):
        return len(a) == len(b) and all(loose_same(x, y) for x, y in zip(a, b))
    if isinstance(a, float):
        return repr(a) == repr(b)
    return a == b


LABEL_POOL = {
    'bdf': ['0000:25:00.0', 'a:1b:2c.3', 'FFFF:00:1f.7a'], 'mac': ['00:11:22:33:44:55', 'aA:bB:cC:dD:eE:fF'],
    'ipv4': ['192.168.1.1', '10.0.0.254', '0.0.0.0'], 'ipv4_range': ['192.168.1.1-192.168.1.10'],
    'ipv4_subnet': ['192.168.1.0/24', '10.0.0.0/8'], 'ipv6': ['2001:db8::1', '::', 'fe80::6bb4:4a90:a3a7:5529'],
    'ipv6_range': ['2001:db8::1-2001:db8::ff'], 'ipv6_subnet': ['2001:db8::/64', '::/0'],
    'asn': ['12345', '1', '4294967295'], 'vlan': ['100', '0', '4096', '0007'], 'vlan_range': ['100-200', '0-4096', '5-5'],
    'inner_vlan': ['5', '4096'], 'bgp_key': ['abcdef', 'key_with-+/.:chars'], 'account_id': ['acct-123', 'a/b.c'],
    'region': ['us-east-1', 'a.b'], 'usb_id': ['1234:abcd'], 'numa': ['-1', '0', '7'],
}
FREE_STR = ['', 'x', 'node-1', 'a b', 'caf\xe9 \u20ac', '\U0001f600', 'q"uo\\te', 'line\nbreak', 'None', '0', 'p1', '{"a": 1}']


def classes():
    import fim.slivers.capacities_labels as m
    import gen_codec
    return [getattr(m, n) for n in gen_codec.CLASSES]


def gen_field_value(rng, cname, f, valid=True):
    """a value for field f of class cname; valid=True: one the class accepts"""
    if not valid:
        if cname == 'Labels':      # type-invalid only: which strings the label validators accept is C16's subject
            return rng.choice([-1, 1.5, None, {'a': 1}, True, 0, -0.5, ['a', 1], [None], [['a']]])   # ec8752b: list elements too
        return rng.choice([-1, 'x', 1.5, None, [1], {'a': 1}, True, 0, -0.5, [], ''])
    if cname == 'Capacities':
        return rng.choice([0, 0, 1, 2, 5, 64, 1000, 10 ** 30, 2 ** 63, 4096, 1, 7, None, True, False])
    if cname == 'CapacityHints':
        return rng.choice(FREE_STR + ['fabric.c4.m16.d100'])
    if cname == 'Labels':
        pool = LABEL_POOL.get(f, FREE_STR)
        r = rng.random()
        if r < 0.15:
            return unsorted_list(rng, pool)
        if r < 0.35:
            return [rng.choice(pool) for _ in range(rng.choice([0, 1, 2, 3]))]
        return rng.choice(pool)
    if cname in ('ReservationInfo', 'StructuralInfo'):
        if rng.random() < 0.15:
            return unsorted_list(rng, ['guid-z', 'guid-a', 'guid-m', 'g1', 'g2', 'Active', 'x'])
        if rng.random() < 0.3:
            return [rng.choice(FREE_STR + [3, None, 2.5, True]) for _ in range(rng.choice([0, 1, 2, 3]))]
        return rng.choice(FREE_STR + ['Active', 'e7d8a1c4-0000-4000-8000-000000000001'])
    if cname == 'Location':
        if f == 'postal':
            return rng.choice(FREE_STR + ['100 Europa Dr., Chapel Hill, NC 27517'])
        return rng.choice([0.0, -0.0, 35.7796, -78.6382, 90.0, -180.0, 1e-7, 1e22, 5e-324, float('inf'), float('nan'), 1.0])
    if cname == 'Flags':
        return rng.choice([True, False])
    raise KeyError(cname)


def unsorted_list(rng, pool):
    """>= 2 elements, NOT in ascending order (descending, with a duplicate) whenever the pool allows it"""
    xs = sorted(set(x for x in pool if isinstance(x, str)), reverse=True)
    if len(xs) < 2:
        return [pool[0], pool[0]]
    k = rng.choice([2, 2, 3, 4])
    out = xs[:k]
    if rng.random() < 0.5:
        out.insert(rng.randrange(1, len(out) + 1), out[0])      # duplicate of the largest, not at the front
    return out


def compatible(cname, v):
    """does v pass the per-value assertions of class cname (restated here, independently of the model)"""
    if cname == 'Capacities':
        return v is None or (isinstance(v, int) and v >= 0)
    if cname == 'CapacityHints':
        return isinstance(v, str)
    if cname == 'Labels':
        return isinstance(v, str) or (isinstance(v, list) and all(isinstance(i, str) for i in v))
    if cname in ('ReservationInfo', 'StructuralInfo'):
        return isinstance(v, (str, list))
    if cname == 'Location':
        return isinstance(v, (str, float))
    return isinstance(v, bool)


def compatible_extra(rng, cname):
    """a value that passes cname's per-value assertions (so that an unknown key carrying it must be tolerated)"""
    f = {'Capacities': 'cpu', 'CapacityHints': 'instance_type', 'Labels': 'local_name', 'ReservationInfo': 'reservation_id',
         'StructuralInfo': 'sub_graph_id', 'Location': rng.choice(['postal', 'lat']), 'Flags': 'ptp'}[cname]
    return gen_field_value(rng, cname, f)


class FieldStream(Stream):
    name = 'field'
    header = ('From Coq Require Import List ZArith NArith.\nImport ListNotations.\n'
              'From FIM Require Import Base.Str Base.Json Model.CodecField Model.CodecChk.\n')
    case_type = 'fcase'
    check_fn = 'check_field'
    shard = 120
    rule = ('(class, constructor kwargs, unknown extra keys spliced into the encoded text, update kwargs) for the 7 JSONField '
            'classes: every field, scalar and list forms, 0 / 0.0 / -0.0 / False / "" / [] and 10^30, NaN/inf, None and '
            'ill-typed values, unknown field names; observed: __dict__, to_json, to_dict, from_json, re-encoded text, '
            'from_json of the text with extras, update result, snapshots of the original and of the kwargs; '
            'non-trivial = at least one field set to a non-default value; distinct by case')

    def __init__(self):
        self._fresh = None

    def fields(self, i):
        if self._fresh is None:
            self._fresh = [list(c().__dict__.keys()) for c in classes()]
        return self._fresh[i]

    def gen(self, rng, tier):
        n = 600 if tier == 'quick' else 6000
        cl = classes()
        out = []
        for _ in range(n):
            i = rng.randrange(len(cl))
            cname = cl[i].__name__
            fs = self.fields(i)
            mode = rng.randrange(20)
            k = rng.choice([0, 1, 1, 2, 3, len(fs)])
            chosen = rng.sample(fs, min(k, len(fs)))
            kw = [[f, gen_field_value(rng, cname, f)] for f in chosen]
            if mode == 0 and kw:
                kw[rng.randrange(len(kw))][1] = gen_field_value(rng, cname, kw[0][0], valid=False)
            if mode == 1:
                # an unknown name; for the classes whose setters test `k in self.__dict__` (a313e77) also the name of a method or
                # class attribute, which is an unknown field like any other
                names = ['bogus', 'gpu', 'Cpu'] + (['to_json', 'update', 'VALIDATORS', 'UNITS'] if cname in ('Capacities', 'Labels') else [])
                kw.append([rng.choice(names), compatible_extra(rng, cname)])
            extras = []
            for _e in range(rng.choice([0, 1, 1, 2, 3])):
                key = rng.choice(['future', 'gpu_model', 'x', 'new-field', 'cpu2', 'zz', '_private', 'Lat', 'fpga', 'nic',
                                  'accelerators', 'AAA', 'zz_future', '0first'])
                val = compatible_extra(rng, cname) if rng.random() < 0.8 else gen_value(rng, 1, False)
                # position among the keys of the text: first, last, or anywhere (the text is NOT re-sorted)
                extras.append([key, val, rng.choice([0, 0, 9999, rng.randrange(100)])])
            if mode == 2:
                extras.append(['forgiving', compatible_extra(rng, cname), 0])
            ukw = [[f, gen_field_value(rng, cname, f)] for f in rng.sample(fs, min(rng.choice([0, 1, 1, 2]), len(fs)))]
            if mode in (8, 9, 10) and kw:
                # update() that changes nothing: no kwargs at all, or kwargs repeating the values the object already has
                # (scalar and list forms) -- the result must still be a NEW object sharing nothing with the original
                ukw = [] if mode == 8 else [[k, copy.deepcopy(v)] for k, v in rng.sample(kw, rng.randrange(1, len(kw) + 1))]
            if mode == 3:
                ukw.append(['bogus', compatible_extra(rng, cname)])
            if mode == 4 and ukw:
                ukw[0][1] = gen_field_value(rng, cname, ukw[0][0], valid=False)
            fg = False
            if mode in (6, 7):
                # K(forgiving=True, ...): the keyword reaches _set_fields, unknown names are then skipped -- at any position,
                # and the known names after them must still be set
                fg = True
                for _u in range(rng.choice([1, 1, 2])):
                    kw.insert(rng.choice([0, 0, len(kw), rng.randrange(len(kw) + 1)]),
                              [rng.choice(['accelerators', 'zz_future', 'gpu_mem', 'Bogus']), compatible_extra(rng, cname)])
            out.append({'cls': i, 'kw': kw, 'extras': extras, 'ukw': ukw, 'absent': rng.choice(['', 'None']) if mode == 5 else None,
                        'fg': fg})
        return out

    def corpus(self):
        cl = [c.__name__ for c in classes()]
        ix = cl.index
        mk = lambda c, kw, extras=(), ukw=(), absent=None: {'cls': ix(c), 'kw': [list(x) for x in kw],
                                                           'extras': [list(x) for x in extras], 'ukw': [list(x) for x in ukw],
                                                           'absent': absent}
        return [mk('Location', [('lat', 0.0), ('lon', 10.5)]), mk('Location', [('lon', -0.0)]), mk('Location', []),
                mk('Flags', []), mk('Flags', [('ptp', True)], [('x', False, 1)]), mk('Capacities', []),
                mk('Capacities', [('core', 2), ('ram', 0)], [('gpu', 3, 0)], [('disk', 10)]),
                mk('Labels', [('vlan', []), ('local_name', '')], [('future', ['a'], 1)], [('vlan', ['1', '2'])]),
                mk('CapacityHints', [('instance_type', '')]), mk('ReservationInfo', [('reservation_id', ['a', 1, None])]),
                mk('StructuralInfo', [('adm_graph_ids', ['g1', 'g2'])], (), (), 'None')] + load_corpus('field')

    def textx(self, text, extras, absent):
        if absent is not None:
            return absent
        d = list(json.loads(text).items()) if text else []
        for k, v, pos in extras:
            d = [(a, b) for a, b in d if a != k]
            d.insert(min(pos, len(d)) if pos in (0, 9999) else pos % (len(d) + 1), (k, v))
        return json.dumps(dict(d))

    def observe(self, case):
        cls = classes()[case['cls']]
        kw = {k: copy.deepcopy(v) for k, v in case['kw']}
        o = {}
        try:
            x = cls(forgiving=True, **kw) if case.get('fg') else cls(**kw)
        except Exception as e:
            return {'ctor': err(e)}
        o['ctor'] = canon(dict(x.__dict__))
        snap = copy.deepcopy(x.__dict__)

        def dec(t):
            try:
                y = cls.from_json(t)
                return None if y is None else canon(dict(y.__dict__))
            except Exception as e:
                return err(e)
        # encode: the object's fields and the caller's argument lists are snapshotted BEFORE every to_json / repr / str /
        # to_dict call (o['ctor'] and snap above, case['kw'] for the arguments) and compared afterwards
        try:
            t = x.to_json()
            r1, r2 = repr(x), str(x)
            d = x.to_dict()
        except Exception as e:
            return {'ctor': o['ctor'], 'encode_error': err(e)}
        o['text'] = t
        o['repr_is_json'] = (r1 == t)          # JSONField.__repr__ claims to be the JSON form (the subclasses' __str__ are display forms)
        o['dict'] = None if d is None else canon(d)
        o['encode_mutated'] = None
        if not same(canon(dict(x.__dict__)), canon(snap)):
            o['encode_mutated'] = 'the object: %r -> %r' % (canon(snap), canon(dict(x.__dict__)))
        elif not same(canon([[k, v] for k, v in kw.items()]), canon(case['kw'] if not case.get('fg') else case['kw'])) \
                and len(kw) == len(case['kw']):
            o['encode_mutated'] = 'the caller\'s arguments: %r -> %r' % (case['kw'], [[k, v] for k, v in kw.items()])
        o['dec'] = dec(t)
        try:
            y = cls.from_json(t)
            o['reenc'] = None if y is None else y.to_json()
        except Exception:
            o['reenc'] = None
        # decode(T) depends only on T: decode, grow every list of that result in place, decode the SAME text again
        try:
            y1 = cls.from_json(t)
            if y1 is not None:
                for f, v in y1.__dict__.items():
                    if isinstance(v, list):
                        v.append('ZZ')
        except Exception:
            pass
        o['dec_again'] = dec(t)
        o['textx'] = self.textx(t, case['extras'], case['absent'])
        o['decx'] = dec(o['textx'])
        ukw = {k: copy.deepcopy(v) for k, v in case['ukw']}
        usnap = copy.deepcopy(ukw)
        try:
            y = cls.update(x, **ukw)
            o['upd'] = canon(dict(y.__dict__))
            o['upd_is_new'] = y is not x
        except Exception as e:
            o['upd'] = err(e)
            o['upd_is_new'] = True
        o['mutated'] = (not same(canon(x.__dict__), canon(snap))) or (not same(canon(ukw), canon(usnap)))
        # aliasing between the original and the result of update(): grow every list-valued field of the RESULT in
        # place, then look at the ORIGINAL again
        o['orig_after'] = None
        if not is_err(o['upd']):
            for f, v in y.__dict__.items():
                if isinstance(v, list):
                    v.append('ZZ')
            o['orig_after'] = [canon(dict(x.__dict__)), x.to_json()]
            # and overwrite every attribute of the result: the original must not notice
            for f in list(y.__dict__.keys()):
                y.__dict__[f] = 'overwritten'
            o['orig_after_overwrite'] = [canon(dict(x.__dict__)), x.to_json()]
            o['orig_before'] = [canon(snap), t]
        return o

    def to_coq(self, case, o):
        if 'encode_error' in o:
            obs = [o['ctor'], o['encode_error']]
            textx = ''
        elif 'text' not in o:
            obs = [o['ctor']]
            textx = ''
        else:
            obs = [o['ctor'], o['text'], o['dict'], o['dec'], o['reenc'], o['decx'], o['upd'], o['orig_after'], o['dec_again']]
            textx = o['textx']
        return '((%s, %s, %s, %s, %s), %s)' % (cnat(case['cls']), cbool(bool(case.get('fg'))), cobj([(k, v) for k, v in case['kw']]), cstr(textx),
                                           cobj([(k, v) for k, v in case['ukw']]), cjson(obs))

    def oracle(self, case, o):
        if 'encode_error' in o:
            return 'roundtrip: %s.to_json / repr / to_dict raises %s on a constructed value %r' % (
                classes()[case['cls']].__name__, o['encode_error']['err'], o['ctor'])
        if 'text' not in o:
            return None
        cls = classes()[case['cls']]
        cn = cls.__name__
        x = o['ctor']
        if o.get('encode_mutated'):
            return 'purity: encoding a %s (to_json / repr / str / to_dict) modified %s' % (cn, o['encode_mutated'])
        if not o.get('repr_is_json', True):
            return 'canonical: repr(%s) differs from to_json()' % cn
        if o['mutated']:
            return 'purity: %s.update modified its argument' % cn
        if not o['upd_is_new']:
            return 'purity: %s.update returned the original object' % cn
        fresh = canon(dict(cls().__dict__))
        if case.get('fg'):
            want = dict(fresh)
            for k, v in case['kw']:
                if k in want:
                    want[k] = v
            if not same(x, canon(want)):
                lost = [k for k in want if not same(x[k], canon(want)[k])]
                return 'forward-compat: %s(forgiving=True, ...) with unknown names lost known field %s (%r)' % (
                    cn, lost[0], [k for k, _ in case['kw']])
        t = o['text']
        nonev = [f for f in x if x[f] is None and fresh[f] is not None]
        tag = ' [None-valued field %s]' % nonev[0] if nonev else ''
        if t == '':
            if o['dec'] is not None:
                return 'roundtrip: %s empty text decoded to a value' % cn
            bad = [f for f in x if not loose_same(x[f], fresh[f])]
            if bad:
                return 'roundtrip: %s encodes a value with field %s set as empty text%s' % (cn, bad[0], tag)
        else:
            if is_err(o['dec']) or o['dec'] is None:
                return 'roundtrip: %s.from_json of its own encoding gives %r' % (cn, o['dec'])
            bad = [f for f in x if f not in o['dec'] or not loose_same(x[f], o['dec'][f])]
            if bad:
                return 'roundtrip: %s field %s = %r decodes as %r%s' % (cn, bad[0], x[bad[0]], o['dec'].get(bad[0]), tag)
            if o['reenc'] != t:
                return 'canonical: %s re-encoding differs' % cn
        if not same(o['dec_again'], o['dec']):
            return ('aliasing: %s.from_json of the SAME text %r gives %r after a list of the first result was grown in place '
                    '(first decode: %r)' % (cn, t, o['dec_again'], o['dec']))
        if case['absent'] is not None:
            if o['decx'] is not None:
                return 'roundtrip: %s absent text %r decoded to %r' % (cn, case['absent'], o['decx'])
        elif case['extras']:
            base = o['dec'] if t != '' else fresh
            if is_err(o['decx']):
                badv = [v for _, v, _ in case['extras'] if not compatible(cn, v)]
                if badv:
                    return ('forward-compat: %s.from_json raises %s on an unknown key whose value (%s) fails the class\'s '
                            'per-value type assertion' % (cn, o['decx']['err'], type(badv[0]).__name__))
                return 'forward-compat: %s.from_json raises %s on an unknown key with a class-compatible value' % (
                    cn, o['decx']['err'])
            if o['decx'] is None or not same(o['decx'], base):
                return 'forward-compat: %s known fields changed by unknown keys: %r vs %r' % (cn, o['decx'], base)
        u = o['upd']
        if not is_err(u) and same(o['orig_after'], o['orig_before']) and not same(o['orig_after_overwrite'], o['orig_before']):
            return 'purity: overwriting the attributes of the result of %s.update changed the original' % cn
        if not is_err(u) and not same(o['orig_after'], o['orig_before']):
            shared = [f for f in x if not same(o['orig_after'][0][f], x[f])]
            return ('purity: %s.update result shares list-valued field %s with the original (growing it in place through the '
                    'result changed the original to %r)' % (cn, shared[0] if shared else '?', o['orig_after'][1]))
        if not is_err(u):
            want = dict(x)
            for k, v in case['ukw']:
                want[k] = v
            if not same(u, canon(want)):
                return 'update: %s.update result %r, expected %r' % (cn, u, want)
        return None

    def key(self, case, o):
        if 'text' in o and o['text'] not in ('', '{}'):
            return stable_hash(case)
        return None

    def describe(self, case, o):
        return {'case': {**case, 'cls': classes()[case['cls']].__name__}, 'impl': o}

    def histogram(self, cases, obs):
        cl = [c.__name__ for c in classes()]
        h = {'per_class': {c: 0 for c in cl}, 'ctor_errors': {}, 'empty_text': 0, 'with_extras': 0, 'decx_errors': {},
             'update_errors': {}, 'list_values': 0, 'zero_like_values': 0}
        for c, o in zip(cases, obs):
            h['per_class'][cl[c['cls']]] += 1
            if 'encode_error' in o:
                h['encode_errors'] = h.get('encode_errors', 0) + 1
                continue
            if 'text' not in o:
                h['ctor_errors'][o['ctor']['err']] = h['ctor_errors'].get(o['ctor']['err'], 0) + 1
                continue
            h['empty_text'] += o['text'] == ''
            h['with_extras'] += bool(c['extras'])
            if is_err(o['decx']):
                h['decx_errors'][o['decx']['err']] = h['decx_errors'].get(o['decx']['err'], 0) + 1
            if is_err(o['upd']):
                h['update_errors'][o['upd']['err']] = h['update_errors'].get(o['upd']['err'], 0) + 1
            h['list_values'] += any(isinstance(v, list) for _, v in c['kw'])
            h['unsorted_list_values'] = h.get('unsorted_list_values', 0) + any(
                isinstance(v, list) and len(v) >= 2 and all(isinstance(e, str) for e in v) and v != sorted(v) for _, v in c['kw'])
            h['zero_like_values'] += any(v in (0, '', []) or v is False for _, v in c['kw'] if not (isinstance(v, float) and v != v))
        return h

    def shrink(self, case, failing):
        case = copy.deepcopy(case)
        for part in ('ukw', 'extras', 'kw'):
            i = 0
            while i < len(case[part]):
                c2 = copy.deepcopy(case)
                del c2[part][i]
                if failing(c2):
                    case = c2
                else:
                    i += 1
        return case


# ----------------------------------------------------------------------------------------------
# stream misc : Tags, JSONData, Gateway, PathInfo / ERO, typed tuples
# ----------------------------------------------------------------------------------------------
TAGS_OK = ['a', 'tag-1', 'A_b', '0', 'caf\xe9', '\u0434\u0430', 'x' * 255, '-', '__', 'blue', 'red']
JD_NAMES = ['MeasurementData', 'UserData', 'LayoutData']
TT_CLASSES = {'label': 'Label', 'cap': 'Capacity', 'location': 'Location', 'constraint': 'AllocationConstraint'}


def jd_classes():
    import fim.slivers.json_data as m
    return [getattr(m, n) for n in JD_NAMES]


def path_list(rng):
    k = rng.randrange(6)
    if k == 0:
        return None
    return [rng.choice(['n1', 'n2', 'RENC', 'UKY', 'p-1', 'caf\xe9', '']) for _ in range(rng.choice([0, 1, 2, 3]))]


class MiscStream(Stream):
    name = 'misc'
    header = ('From Coq Require Import List ZArith NArith.\nImport ListNotations.\n'
              'From FIM Require Import Base.Str Base.Json Model.CodecField Model.CodecMisc Model.CodecChk.\n')
    case_type = 'mcase * json'
    check_fn = 'check_misc'
    shard = 100
    rule = ('Tags (str / list / tuple arguments, unicode word characters, 255-character tags, invalid tags; decode of "[]", '
            'a bare JSON string, non-list JSON); JSONData x3 (None, JSON texts with whitespace / escapes / at MAX_SIZE and '
            'MAX_SIZE+1, invalid texts, Python objects); Gateway (None, IPv4, IPv6, both, optional mac, other label fields, '
            'list forms, extra keys); PathInfo / ERO (Path and Graph types, no payload, lists and None halves, strict flag, '
            'extra keys at both levels, missing/unknown type, missing payload); typed tuples of the 4 categories (str and int '
            'values, values with separators and outer whitespace, unknown types, strings without separator); '
            'non-trivial = the value has something set; distinct by case')

    # ---------------- generation
    def gen(self, rng, tier):
        n = 500 if tier == 'quick' else 5000
        out = []
        for _ in range(n):
            k = rng.randrange(5)
            out.append([self.gen_tags, self.gen_jdata, self.gen_gateway, self.gen_path, self.gen_tuple][k](rng))
        return out

    def gen_tags(self, rng):
        args = []
        for _ in range(rng.choice([0, 1, 1, 2, 3])):
            if rng.random() < 0.5:
                args.append(rng.choice(TAGS_OK))
            else:
                args.append([rng.choice(TAGS_OK) for _ in range(rng.choice([0, 1, 2, 3]))])
        if rng.random() < 0.1:
            args.append(rng.choice(['', 'a b', 'x' * 256, 5, None, ['ok', 'not ok'], {'a': 1}, 'a\n']))
        textx = rng.choice([None, '', 'None', '[]', '"abc"', '["a", "b"]', '{"a": 1}', '[1]', '5', '["a", "a"]', '[["a"]]',
                            '"not ok"', 'null', '[', '  ["x"] '])
        return {'k': 'tags', 'args': args, 'textx': textx}

    def gen_jdata(self, rng):
        idx = rng.randrange(3)
        mx = [4096, 2048, 1024][idx]
        m = rng.randrange(10)
        if m == 0:
            inp = ['none']
        elif m < 4:
            v = gen_value(rng, 2, False)
            if isinstance(v, str) or v is None:
                v = {'v': v}
            inp = ['obj', v]
        elif m < 7:
            inp = ['text', render(rng, gen_value(rng, 2, False))]
        elif m == 7:
            inp = ['text', corrupt(rng, json.dumps(gen_value(rng, 2, False)))]
        elif m == 9 and rng.random() < 0.5:
            # Python objects that JSON cannot hold as they are: tuples become lists, int / bool / None keys become strings
            inp = ['obj', rng.choice([{1: (1, 2), 2: (None,)}, [(1, 'x'), ()], {True: 1}, {None: 2}, {2.5: 3}, {'t': ((1,), [2])},
                                      (1, 2, 3)])]
        elif m == 8:
            # non-ASCII payload whose length in characters is around MAX_SIZE/3, /2 or MAX_SIZE (where character, escaped and
            # UTF-8 byte lengths part ways): whatever the constructor accepts must re-decode from its own .json
            ch = rng.choice(['a', '\xe9', '\u4e2d'])
            tot = rng.choice([mx // 3, mx // 2, mx, mx // 6]) + rng.choice([-2, -1, 0, 1, 2])
            inp = ['obj', {'p': ch * max(0, tot - len(json.dumps({'p': ''})))}]
        else:
            base = json.dumps({'k': gen_str(rng)})
            tot = mx + rng.choice([-1, 0, 1, 2])
            if rng.random() < 0.5:
                inp = ['text', base + ' ' * (tot - len(base))]
            else:
                pad = tot - len(json.dumps({'p': ''}))
                inp = ['obj', {'p': 'x' * pad}]
        return {'k': 'jdata', 'idx': idx, 'inp': inp}

    def gen_gateway(self, rng):
        if rng.random() < 0.08:
            return {'k': 'gw', 'kw': None, 'extras': [], 'absent': rng.choice([None, None, '', 'None'])}
        kw = []
        lst = rng.random() < 0.15
        val = lambda f: ([rng.choice(LABEL_POOL[f])] if lst else rng.choice(LABEL_POOL[f]))
        m = rng.randrange(8)
        if m in (0, 1, 2, 6):
            kw += [['ipv4_subnet', val('ipv4_subnet')], ['ipv4', val('ipv4')]]
        if m in (3, 4, 6):
            kw += [['ipv6_subnet', val('ipv6_subnet')], ['ipv6', val('ipv6')]]
        if m == 5:
            kw += [[rng.choice(['ipv4', 'ipv6_subnet', 'vlan']), None]]
            kw[-1][1] = val(kw[-1][0])
        if rng.random() < 0.5:
            kw.append(['mac', val('mac')])
        if rng.random() < 0.3:
            kw.append(['vlan', val('vlan')])
        rng.shuffle(kw)
        extras = []
        for _ in range(rng.choice([0, 0, 1, 2])):
            key = rng.choice(['future', 'vlan', 'local_name', 'gw6'])
            extras.append([key, rng.choice(LABEL_POOL['vlan']) if key == 'vlan' else rng.choice(['100', 'x', ['a'], []]),
                           rng.randrange(9)])
        return {'k': 'gw', 'kw': kw, 'extras': extras, 'absent': None}

    def gen_path(self, rng):
        ero = rng.random() < 0.5
        ptype = rng.choice(['Path', 'Path', 'Graph'])
        m = rng.randrange(10)
        if m == 0:
            payload = ['unset']
        elif ptype == 'Graph':
            payload = ['graph', rng.choice(['g1', '', 'e7d8a1c4-0000', 'caf\xe9 "q"'])]
        elif m < 3:
            payload = ['sym', [rng.choice(['n1', 'n2', 'n3', 'x']) for _ in range(rng.choice([0, 1, 2, 4]))]]
        elif m == 3:
            payload = ['path_unset']
        else:
            payload = ['path', path_list(rng), path_list(rng)]
        strict = rng.choice([True, False])
        extras = [[rng.choice(['future', 'hops', 'strict2']), rng.choice([1, 'x', [1], None]), rng.choice(['top', 'payload'])]
                  for _ in range(rng.choice([0, 0, 1, 2]))]
        raw = None
        if rng.random() < 0.15:
            raw = rng.choice(['{"payload": "x"}', '{"type": null, "payload": "x"}', '{"type": "zzz", "payload": {"a2z": [], "z2a": []}}',
                              '{"type": "Graph"}', '{"type": "Path", "payload": "g"}', '{"type": "Path", "payload": {"a2z": []}}',
                              '[1]', '"Path"', '5', 'null', '{"type": "Graph", "payload": "g", "strict": "true"}',
                              '{"type": "Graph", "payload": "g", "strict": "yes"}', '{"type": "Graph", "payload": "g", "strict": true}',
                              '{"type": 5, "payload": {"a2z": null, "z2a": ["q"]}}', '', '{', '{"type": "Graph", "payload": [1, {"b": 2}]}'])
        return {'k': 'path', 'ero': ero, 'ptype': ptype, 'payload': payload, 'strict': strict, 'extras': extras, 'raw': raw}

    def gen_tuple(self, rng):
        import gen_codec
        cat = rng.choice(list(TT_CLASSES))
        types = dict(self.tt_types())[cat]
        atype = rng.choice(types) if rng.random() < 0.9 else rng.choice(['zzz', '', 'mac ', ' vlan'])
        aval = rng.choice(['5', 'something', '00:11:22:33:44:55', 'fe80::1', '', ' 71.2345, 85.231', 'x ', ' ', 'a:b', '\t7\n',
                           'caf\xe9', 'v\xa0', 'v\u2003', 0, 5, 1000, -3, 10 ** 20, '  lead', 'trail\x1f'])
        s2 = rng.choice(['vlan:5', '  vlan:5  ', 'nocolon', 'bad:1', 'mac:00:11:22', ' mac:x', 'cpu:2', 'cpu: 2 ', 'latlon: 71.2345, 85.231',
                         ':', '', 'numa:1:2', '\u2003core:4\x85', 'core :4', 'pool:'])
        return {'k': 'tuple', 'cat': cat, 'atype': atype, 'aval': aval, 's2': s2}

    def tt_types(self):
        import glob as _g
        out = []
        files = {'label': 'label_types.json', 'cap': 'capacity_types.json', 'location': 'location_types.json',
                 'constraint': 'constraint_types.json'}
        for c, f in files.items():
            with open(os.path.join(REPO, 'fim/graph/data', f)) as fh:
                out.append((c, list(json.load(fh).keys())))
        return out

    def corpus(self):
        return [{'k': 'tags', 'args': [], 'textx': '[]'}, {'k': 'tags', 'args': [['a', 'b'], 'c'], 'textx': '"abc"'},
                {'k': 'jdata', 'idx': 1, 'inp': ['none']}, {'k': 'jdata', 'idx': 1, 'inp': ['text', '{"a":   1}']},
                {'k': 'jdata', 'idx': 2, 'inp': ['obj', {'a': [1, 2.5, None]}]}, {'k': 'jdata', 'idx': 0, 'inp': ['text', '']},
                {'k': 'gw', 'kw': None, 'extras': [], 'absent': None},
                {'k': 'gw', 'kw': [['ipv4_subnet', '192.168.1.0/24'], ['ipv4', '192.168.1.1'], ['vlan', '100'],
                                   ['mac', '00:11:22:33:44:55']], 'extras': [['future', 'x', 0]], 'absent': None},
                {'k': 'path', 'ero': False, 'ptype': 'Path', 'payload': ['unset'], 'strict': False, 'extras': [], 'raw': None},
                {'k': 'path', 'ero': True, 'ptype': 'Path', 'payload': ['unset'], 'strict': False, 'extras': [], 'raw': None},
                {'k': 'path', 'ero': True, 'ptype': 'Graph', 'payload': ['graph', 'gid'], 'strict': True, 'extras': [['future', 1, 'top']],
                 'raw': None},
                {'k': 'path', 'ero': False, 'ptype': 'Path', 'payload': ['sym', ['a', 'b', 'c']], 'strict': False,
                 'extras': [['hops', 3, 'payload']], 'raw': None},
                {'k': 'tuple', 'cat': 'cap', 'atype': 'ram', 'aval': 1000, 's2': 'cpu:2'},
                {'k': 'tuple', 'cat': 'label', 'atype': 'mac', 'aval': '00:00:12:12:12:12', 's2': 'mac:something else'},
                {'k': 'tuple', 'cat': 'location', 'atype': 'latlon', 'aval': ' 71.2345, 85.231', 's2': 'latlon: 71.2345, 85.231'}
                ] + load_corpus('misc')

    # ---------------- observation
    def observe(self, case):
        return getattr(self, 'obs_' + case['k'])(case)

    def obs_tags(self, case):
        from fim.slivers.tags import Tags
        args = copy.deepcopy(case['args'])
        try:
            t = Tags(*args)
        except Exception as e:
            return {'ctor': err(e)}
        o = {'ctor': list(t.tags), 'text': t.to_json()}

        def dec(s):
            try:
                y = Tags.from_json(s)
                return None if y is None else list(y.tags)
            except Exception as e:
                return err(e)
        o['dec'] = dec(o['text'])
        try:
            o['reenc'] = Tags.from_json(o['text']).to_json()
        except Exception as e:
            o['reenc'] = None
        o['decx'] = dec(case['textx'])
        o['mutated'] = not same(canon(args), canon(case['args']))
        return o

    def tags_ok(self, case):
        """the candidate strings of the case that Tags._check accepts (what it accepts is C16's subject)"""
        from fim.slivers.tags import Tags
        cand = []

        def walk(v):
            if isinstance(v, str):
                cand.append(v)
            elif isinstance(v, (list, tuple)):
                for x in v:
                    walk(x)
        walk(case['args'])
        try:
            walk(json.loads(case['textx']))
        except Exception:
            pass
        ok = []
        for c in cand:
            try:
                Tags._check(c)
                if c not in ok:
                    ok.append(c)
            except Exception:
                pass
        return ok

    def jd_input(self, inp):
        return None if inp[0] == 'none' else inp[1]

    def obs_jdata(self, case):
        cls = jd_classes()[case['idx']]
        data = copy.deepcopy(self.jd_input(case['inp']))
        try:
            x = cls(data)
        except Exception as e:
            return {'ctor': err(e)}
        o = {'text': x.json}
        try:
            o['data'] = loads_tok(x.json)
            o['data_eq'] = json.dumps(x.data, sort_keys=True) == json.dumps(json.loads(x.json), sort_keys=True)
        except Exception as e:
            o['data'] = err(e)
        try:
            y = cls(x.json)
            o['again'] = y.json
            # value equality through a canonical text, so that a NaN inside the data does not count as a difference
            o['eq'] = (json.dumps(y.data, sort_keys=True) == json.dumps(x.data, sort_keys=True) and type(y) is type(x)) \
                if has_nan(x.data) else bool(y == x)
        except Exception as e:
            o['again'] = err(e)
            o['eq'] = False
        o['mutated'] = not same(canon(data), canon(self.jd_input(case['inp'])))
        return o

    def gw_textx(self, text, case):
        if case['absent'] is not None or text is None:
            return case['absent']
        d = list(json.loads(text).items()) if text else []
        for k, v, pos in case['extras']:
            d = [(a, b) for a, b in d if a != k]
            d.insert(pos % (len(d) + 1), (k, v))
        return json.dumps(dict(d))

    def obs_gw(self, case):
        from fim.slivers.gateway import Gateway
        from fim.slivers.capacities_labels import Labels
        try:
            lab = None if case['kw'] is None else Labels(**{k: copy.deepcopy(v) for k, v in case['kw']})
            snap = None if lab is None else copy.deepcopy(lab.__dict__)
            g = Gateway(lab)
        except Exception as e:
            return {'ctor': err(e)}
        gd = lambda g: None if g.lab is None else canon(dict(g.lab.__dict__))
        o = {'ctor': gd(g), 'text': g.to_json()}

        def dec(s):
            # None = absent (no Gateway object at all); ['gw', lab] = a Gateway object and its labels
            try:
                y = Gateway.from_json(s)
                return None if y is None else ['gw', gd(y)]
            except Exception as e:
                return err(e)
        o['dec'] = dec(o['text'])
        try:
            y = Gateway.from_json(o['text'])
            o['reenc'] = None if y is None else y.to_json()
        except Exception:
            o['reenc'] = None
        o['textx'] = self.gw_textx(o['text'], case)
        o['decx'] = dec(o['textx'])
        o['mutated'] = lab is not None and not same(canon(lab.__dict__), canon(snap))
        o['accessors'] = [g.subnet, g.gateway, g.mac]
        return o

    def build_path(self, case):
        from fim.slivers.path_info import PathInfo, ERO, Path, PathRepresentationType as T
        pt = {'Path': T.Path, 'Graph': T.Graph}[case['ptype']]
        p = ERO(pt, case['strict']) if case['ero'] else PathInfo(pt)
        pl = case['payload']
        if pl[0] == 'graph':
            p.set(pl[1])
        elif pl[0] == 'sym':
            q = Path()
            q.set_symmetric(list(pl[1]))
            p.set(q)
        elif pl[0] == 'path_unset':
            p.set(Path())
        elif pl[0] == 'path':
            q = Path()
            q.set(a2z=copy.deepcopy(pl[1]), z2a=copy.deepcopy(pl[2]))
            p.set(q)
        return p

    def path_view(self, p):
        from fim.slivers.path_info import Path
        if p is None:
            return None
        pl = p.payload
        plv = ['path', canon(pl.a2z), canon(pl.z2a)] if isinstance(pl, Path) else ['raw', canon(pl)]
        return [str(p.type), plv, getattr(p, 'strict', None)]

    def path_textx(self, text, case):
        if case['raw'] is not None:
            return case['raw']
        if not text:
            return text
        d = json.loads(text)
        for k, v, where in case['extras']:
            if where == 'payload' and isinstance(d.get('payload'), dict):
                d['payload'][k] = v
            else:
                d = {k: v, **d} if isinstance(v, int) else {**d, k: v}
        return json.dumps(d)

    def obs_path(self, case):
        from fim.slivers.path_info import PathInfo, ERO
        cls = ERO if case['ero'] else PathInfo
        try:
            p = self.build_path(case)
        except Exception as e:
            return {'ctor': err(e)}
        o = {'ctor': self.path_view(p)}
        try:
            o['text'] = p.to_json()
        except Exception as e:
            o['text'] = err(e)

        def dec(s):
            try:
                return self.path_view(cls.from_json(s))
            except Exception as e:
                return err(e)
        if isinstance(o['text'], str):
            o['str_repr_are_json'] = (str(p) == o['text'] and repr(p) == o['text'])
            o['dec'] = dec(o['text'])
            try:
                back = cls.from_json(o['text'])
                o['reenc'] = None if back is None else back.to_json()
            except Exception as e:
                o['reenc'] = None if is_err(o['dec']) else err(e)
            o['textx'] = self.path_textx(o['text'], case)
        else:
            o['textx'] = case['raw']
        o['decx'] = dec(o['textx'])
        o['unchanged'] = same(self.path_view(p), o['ctor'])
        return o

    def obs_tuple(self, case):
        import fim.graph.typed_tuples as m
        cls = getattr(m, TT_CLASSES[case['cat']])

        def rej(e):
            n = type(e).__name__
            return {'err': 'Reject' if n in ('TypeError', 'TypedTupleException') else n}

        def dec(s):
            try:
                t = cls(fromstring=s)
                return [t.get_type(), t.get_val()]
            except Exception as e:
                return rej(e)
        o = {'decx': dec(case['s2'])}
        try:
            t = cls(atype=case['atype'], aval=case['aval'])
        except Exception as e:
            o['ctor'] = rej(e)
            return o
        o['ctor'] = [t.get_type(), t.get_val()]
        o['text'] = t.get_as_string()
        o['dec'] = dec(o['text'])
        try:
            o['reenc'] = cls(fromstring=o['text']).get_as_string()
        except Exception:
            o['reenc'] = None
        return o

    # ---------------- Coq terms
    def to_coq(self, case, o):
        k = case['k']
        if k == 'tags':
            term = 'MCTags %s %s %s' % (clist([cstr(x) for x in self.tags_ok(case)]), clist([cjson(a) for a in case['args']]),
                                        costr(case['textx']))
            obs = [o['ctor']] if 'text' not in o else [o['ctor'], o['text'], o['dec'], o['decx']]
        elif k == 'jdata':
            inp = case['inp']
            # an object reaches the model as the JSON value json.dumps makes of it (tuples -> lists, keys -> strings)
            ci = 'JDNone' if inp[0] == 'none' else '(JDText %s)' % cstr(inp[1]) if inp[0] == 'text' else \
                '(JDObj %s)' % cjson(json.loads(json.dumps(inp[1])) if not has_nan(inp[1]) else inp[1])
            term = 'MCJData %s %s' % (cnat(case['idx']), ci)
            obs = [o['ctor']] if 'text' not in o else [o['text'], o['data'], o['again']]
        elif k == 'gw':
            term = 'MCGateway %s %s' % ('None' if case['kw'] is None else '(Some %s)' % cobj([(a, b) for a, b in case['kw']]),
                                        costr(o.get('textx')))
            obs = [o['ctor']] if 'text' not in o else [o['ctor'], o['text'], o['dec'], o['decx']]
        elif k == 'path':
            if is_err(o['ctor']):
                raise RuntimeError('path construction failed: %r' % (case,))
            ty, pl, strict = o['ctor']
            cty = {'Path': '(Some PTPath)', 'Graph': '(Some PTGraph)', 'None': 'None'}[ty]
            cpl = '(PLPath %s %s)' % (cjson(pl[1]), cjson(pl[2])) if pl[0] == 'path' else '(PLRaw %s)' % cjson(pl[1])
            term = 'MCPath %s {| pi_type := %s; pi_payload := %s; pi_strict := %s |} %s' % (
                cbool(case['ero']), cty, cpl, 'None' if strict is None else '(Some %s)' % cbool(strict), costr(o['textx']))
            obs = [o['text'], o.get('dec'), o.get('reenc'), o['decx']]
        else:
            av = case['aval']
            term = 'MCTuple %s %s %s %s' % (cstr(case['cat']), cstr(case['atype']),
                                            '(TVInt %s)' % cZ(av) if isinstance(av, int) else '(TVStr %s)' % cstr(av), cstr(case['s2']))
            obs = [o['ctor'], o['decx']] if 'text' not in o else [o['text'], o['dec'], o['reenc'], o['decx']]
        return '(%s, %s)' % (term, cjson(obs))

    # ---------------- the property over implementation observables
    def oracle(self, case, o):
        k = case['k']
        if k != 'tuple' and k != 'path' and is_err(o.get('ctor')):
            return None
        if k == 'tags':
            if o['mutated']:
                return 'purity: Tags constructor modified its arguments'
            if not same(o['dec'], o['ctor']):
                return 'roundtrip: Tags %r decodes as %r' % (o['ctor'], o['dec'])
            if o['reenc'] != o['text']:
                return 'canonical: Tags re-encoding differs'
            if case['textx'] in (None, '', 'None') and o['decx'] is not None:
                return 'roundtrip: Tags absent text decoded to a value'
        elif k == 'jdata':
            if o['mutated']:
                return 'purity: JSONData constructor modified its argument'
            if is_err(o['again']):
                return ('roundtrip: %s accepted a value whose own .json (%d characters, %d UTF-8 bytes) it refuses to decode: %s' % (
                    JD_NAMES[case['idx']], len(o['text']), len(o['text'].encode('utf-8', 'surrogatepass')), o['again']['err']))
            if o['again'] != o['text']:
                return 'canonical: %s text %r re-encodes as %r' % (JD_NAMES[case['idx']], o['text'][:60], o['again'])
            if not o['eq'] or not o.get('data_eq'):
                return 'roundtrip: %s value not equal after decoding its own text' % JD_NAMES[case['idx']]
            if case['inp'][0] == 'text' and o['text'] != case['inp'][1]:
                return 'canonical: %s does not keep the given text' % JD_NAMES[case['idx']]
            if case['inp'][0] == 'obj' and not is_err(o['data']):
                if not same(canon(json.loads(o['text'])), canon(json.loads(json.dumps(case['inp'][1])))):
                    return 'roundtrip: %s object changed' % JD_NAMES[case['idx']]
        elif k == 'gw':
            if o['mutated']:
                return 'purity: Gateway modified the Labels it was given'
            if case['kw'] is None:
                # nothing recorded: no text, and what is read back is ABSENT (None), not an empty Gateway object
                if o['text'] not in (None, '') or o['dec'] is not None:
                    return 'roundtrip: empty Gateway encodes as %r / decodes as %r instead of absent' % (o['text'], o['dec'])
                if o['decx'] is not None:
                    return 'roundtrip: Gateway absent text %r decodes as %r instead of absent' % (o['textx'], o['decx'])
                return None
            if not same(o['dec'], ['gw', o['ctor']]):
                return 'roundtrip: Gateway %r decodes as %r' % (o['ctor'], o['dec'])
            if o['reenc'] != o['text']:
                return 'canonical: Gateway re-encoding differs'
            if case['extras'] and all(compatible('Labels', v) or kk not in o['ctor'] for kk, v, _ in case['extras']):
                unknown_only = all(kk not in o['ctor'] for kk, _, _ in case['extras'])
                if is_err(o['decx']):
                    return 'forward-compat: Gateway.from_json raises %s on extra keys' % o['decx']['err']
                if unknown_only and not same(o['decx'], ['gw', o['ctor']]):
                    return 'forward-compat: Gateway fields changed by unknown keys'
        elif k == 'path':
            if is_err(o.get('ctor')):
                return None
            name = 'ERO' if case['ero'] else 'PathInfo'
            if not o['unchanged']:
                return 'purity: %s.to_json modified the object' % name
            if is_err(o['text']):
                if case['payload'][0] == 'unset':
                    return 'roundtrip: %s with nothing set cannot be encoded (%s)' % (name, o['text']['err'])
                return 'roundtrip: %s.to_json raises %s' % (name, o['text']['err'])
            if not o.get('str_repr_are_json', True):
                return 'canonical: str/repr of %s differ from to_json()' % name
            if case['payload'][0] == 'unset':
                if o['text'] != '' or o['dec'] is not None:
                    return 'roundtrip: %s with nothing set encodes as %r and decodes as %r' % (name, o['text'], o['dec'])
                return None
            if not same(o['dec'], o['ctor']):
                return 'roundtrip: %s %r decodes as %r' % (name, o['ctor'], o['dec'])
            if o['reenc'] != o['text']:
                return 'canonical: %s re-encoding differs' % name
            if case['raw'] is None and case['extras']:
                if not same(o['decx'], o['ctor']):
                    return 'forward-compat: %s with unknown keys decodes as %r instead of %r' % (name, o['decx'], o['ctor'])
        else:
            if 'text' not in o:
                return None
            want = [case['atype'], case['aval']]
            if not same(o['dec'], want):
                av = case['aval']
                tag = '[int value]' if isinstance(av, int) else '[trailing whitespace]' if av != av.rstrip() else ''
                return 'roundtrip: typed tuple %r decodes as %r %s' % (want, o['dec'], tag)
            if o['reenc'] != o['text']:
                return 'canonical: typed tuple re-encoding differs'
        return None

    def key(self, case, o):
        if is_err(o.get('ctor')) and case['k'] != 'tuple':
            return None
        if case['k'] == 'tags' and not o['ctor']:
            return None
        if case['k'] == 'gw' and case['kw'] is None:
            return None
        return stable_hash(case)

    def describe(self, case, o):
        c = dict(case)
        if c['k'] == 'jdata' and c['inp'][0] != 'none' and len(str(c['inp'][1])) > 200:
            c['inp'] = [c['inp'][0], str(c['inp'][1])[:200] + '...']
        oo = {kk: (v[:200] + '...' if isinstance(v, str) and len(v) > 200 else v) for kk, v in o.items() if kk != 'data'}
        return {'case': c, 'impl': oo}

    def histogram(self, cases, obs):
        h = {'kinds': {}, 'ctor_errors': {}, 'decx_errors': {}, 'to_json_errors': 0}
        for c, o in zip(cases, obs):
            h['kinds'][c['k']] = h['kinds'].get(c['k'], 0) + 1
            if is_err(o.get('ctor')):
                e = c['k'] + ':' + o['ctor']['err']
                h['ctor_errors'][e] = h['ctor_errors'].get(e, 0) + 1
            if is_err(o.get('decx')):
                e = c['k'] + ':' + o['decx']['err']
                h['decx_errors'][e] = h['decx_errors'].get(e, 0) + 1
            h['to_json_errors'] += is_err(o.get('text'))
        return h

    def shrink(self, case, failing):
        case = copy.deepcopy(case)
        for part in ('extras', 'kw', 'args'):
            if isinstance(case.get(part), list):
                i = 0
                while i < len(case[part]):
                    c2 = copy.deepcopy(case)
                    del c2[part][i]
                    try:
                        ok = failing(c2)
                    except Exception:
                        ok = False
                    if ok:
                        case = c2
                    else:
                        i += 1
        return case


# ----------------------------------------------------------------------------------------------
# stream maint : MaintenanceInfo histories and codec
# ----------------------------------------------------------------------------------------------
MNAMES = ['n1', 'n2', 'RENC-w1', 'ALL', 'caf\xe9', 'n 3', '', 'q"x']
TZS = [None, datetime.timezone.utc, datetime.timezone(datetime.timedelta(hours=-5)),
       datetime.timezone(datetime.timedelta(hours=5, minutes=30)), datetime.timezone(datetime.timedelta(seconds=-3723))]


def gen_dt(rng):
    k = rng.randrange(5)
    if k == 0:
        return None
    d = datetime.datetime(rng.choice([1, 1970, 2024, 2026, 9999]), rng.randrange(1, 13), rng.randrange(1, 29), rng.randrange(24),
                          rng.randrange(60), rng.randrange(60), rng.choice([0, 0, 1, 500000, 999999]), tzinfo=rng.choice(TZS))
    return d.isoformat()


class MaintStream(Stream):
    name = 'maint'
    header = ('From Coq Require Import List ZArith NArith.\nImport ListNotations.\n'
              'From FIM Require Import Base.Str Base.Json Model.CodecField Model.CodecMisc Model.CodecChk.\n')
    case_type = '(list mop2 * option (list N)) * json'
    check_fn = 'check_maint'
    shard = 100
    rule = ('histories of add / rem / pop / get / finalize on one MaintenanceInfo, in 45% followed by copy() and 1-4 operations on '
            'the COPY with the ORIGINAL (entries and to_json) re-observed after each (0-8 operations, names incl. empty and '
            'non-ASCII, entries with every state incl. an unknown state name, naive / aware / microsecond / year 1 and 9999 '
            'datetimes given as datetime or ISO text), then to_json, from_json, re-encoding, an attempt to alter the decoded '
            '(finalized) record, and from_json of the text with extra node names / unknown entry fields / missing or '
            'ill-typed entry fields; non-trivial = at least one entry present at the end; distinct by case')

    def gen(self, rng, tier):
        n = 300 if tier == 'quick' else 3000
        out = []
        for _ in range(n):
            ops = []
            fin_at = rng.choice([None, None, 0, 1, 2, 3, 5])
            for j in range(rng.choice([0, 1, 2, 3, 4, 6, 8])):
                if fin_at == j:
                    ops.append(['fin'])
                k = rng.randrange(10)
                nm = rng.choice(MNAMES)
                if k < 5:
                    ops.append(['add', nm, rng.choice(['Active', 'PreMaint', 'Maint', 'Unknown', 'Maint', 'bogus']),
                                rng.random() < 0.5, gen_dt(rng), rng.random() < 0.5, gen_dt(rng), rng.random() < 0.5])
                elif k < 7:
                    ops.append(['rem', nm])
                elif k < 9:
                    ops.append(['pop', nm])
                else:
                    ops.append(['get', nm])
            if rng.random() < 0.8:
                ops.append(['fin'])
            if rng.random() < 0.45:
                # the documented route for changing a finalized record: copy(), change the copy -- then the ORIGINAL is
                # observed again after every operation on the copy
                ops.append(['copy'])
                for _j in range(rng.choice([1, 2, 3, 4])):
                    k = rng.randrange(6)
                    nm = rng.choice(MNAMES)
                    if k < 3:
                        ops.append(['c', ['add', nm, rng.choice(['Active', 'PreMaint', 'Maint', 'Unknown']), rng.random() < 0.5,
                                          gen_dt(rng), rng.random() < 0.5, gen_dt(rng), rng.random() < 0.5]])
                    elif k == 3:
                        ops.append(['c', ['rem', nm]])
                    elif k == 4:
                        ops.append(['c', ['pop', nm]])
                    else:
                        ops.append(['c', ['fin']])
                if rng.random() < 0.3:
                    ops.append(rng.choice([['rem', rng.choice(MNAMES)], ['get', rng.choice(MNAMES)], ['fin']]))
            x = None
            m = rng.randrange(12)
            if m == 0:
                x = ['field', rng.choice(['reason', 'ticket', 'State']), rng.choice(['x', 1, None])]
            elif m == 1:
                x = ['node', rng.choice(['zz-extra', 'n1']), {'state': 'Maint', 'deadline': gen_dt(rng), 'expected_end': None}]
            elif m == 2:
                x = ['raw', rng.choice(['', '{}', '[]', '5', 'null', '{"a": {"deadline": null}}', '{"a": {"state": "Maint"}}',
                                        '{"a": {"state": 5, "deadline": "", "expected_end": 0}}', '{"a": {"state": "Maint", "deadline": 5}}',
                                        '{"a": []}', '{"a": "Maint"}', '{"a": {"state": "Maint", "deadline": [], "expected_end": false}}',
                                        '{"a": {"state": null, "expected_end": "2024-01-02T03:04:05"}}', '{', '{"a": {"state": "Maint", "deadline": [1]}}'])]
            out.append({'ops': ops, 'x': x})
        return out

    def corpus(self):
        return [{'ops': [], 'x': None}, {'ops': [['fin']], 'x': None},
                {'ops': [['add', 'n1', 'Maint', True, '2024-01-02T03:04:05+00:00', True, None, False], ['fin'], ['add', 'n2', 'Active', False, None, False, None, False],
                         ['rem', 'n1'], ['pop', 'n1'], ['get', 'n1']], 'x': ['field', 'reason', 'x']},
                {'ops': [['add', 'n1', 'bogus', False, None, False, None, False], ['add', 'n1', 'Active', True, None, False, None, False], ['rem', 'zz'], ['pop', 'n1'], ['fin']],
                 'x': ['node', 'zz-extra', {'state': 'Maint', 'deadline': None, 'expected_end': None}]}] + load_corpus('maint')

    def entry(self, op):
        from fim.slivers.maintenance_mode import MaintenanceEntry, MaintenanceState
        _, _, st, st_enum, dl, dl_obj, en, en_obj = op
        state = MaintenanceState.from_string(st) if (st_enum and st != 'bogus') else st
        conv = lambda t, as_obj: (datetime.datetime.fromisoformat(t) if (as_obj and t is not None) else t)
        return MaintenanceEntry(state, conv(dl, dl_obj), conv(en, en_obj))

    def entry_view(self, e):
        iso = lambda d: None if d is None else d.isoformat()
        return {'state': None if e.state is None else e.state.name, 'deadline': iso(e.deadline), 'expected_end': iso(e.expected_end)}

    def info_view(self, m):
        return [[[n, self.entry_view(e)] for n, e in m._nodes.items()], bool(m._lock)]

    def textx(self, text, x):
        if x is None:
            return None
        if x[0] == 'raw':
            return x[1]
        if text is None:
            return None
        d = json.loads(text)
        if x[0] == 'node':
            d[x[1]] = x[2]
        elif d:
            d[list(d.keys())[-1]][x[1]] = x[2]
        else:
            return None
        return json.dumps(d)

    def observe(self, case):
        from fim.slivers.maintenance_mode import MaintenanceInfo, MaintenanceEntry
        m = MaintenanceInfo()
        cp = None

        def text_of(x):
            try:
                return x.to_json()
            except Exception as e:
                return err(e)

        def apply(target, op):
            if op[0] == 'add':
                e = self.entry(op)
                entries.append(self.entry_view(e))
                return target.add(op[1], e)
            if op[0] == 'rem':
                return target.rem(op[1])
            if op[0] == 'pop':
                return self.entry_view(target.pop(op[1]))
            if op[0] == 'get':
                r = target.get(op[1])
                return None if r is None else self.entry_view(r)
            return target.finalize()
        rets, views, entries = [], [self.info_view(m)], []
        otexts = [text_of(m)]          # the original's encoding (or the exception) before / after every operation
        cviews = [None]
        for op in case['ops']:
            try:
                if op[0] == 'copy':
                    cp = m.copy()
                    r = None
                elif op[0] == 'c':
                    r = None if cp is None else apply(cp, op[1])
                else:
                    r = apply(m, op)
            except Exception as e:
                r = err(e)
            rets.append(r)
            views.append(self.info_view(m))
            otexts.append(text_of(m))
            cviews.append(None if cp is None else self.info_view(cp))
        o = {'rets': rets, 'views': views, 'entries': entries, 'otexts': otexts, 'cviews': cviews}
        try:
            o['text'] = m.to_json()
        except Exception as e:
            o['text'] = err(e)

        def dec(s):
            try:
                y = MaintenanceInfo.from_json(s)
                return None if y is None else self.info_view(y)
            except Exception as e:
                return err(e)
        if isinstance(o['text'], str):
            o['dec'] = dec(o['text'])
            try:
                y = MaintenanceInfo.from_json(o['text'])
                o['reenc'] = y.to_json()
                o['eq'] = y._nodes == m._nodes
                alter = []
                for f in (lambda: y.add('n1', MaintenanceEntry('Active')), lambda: y.rem('n1'), lambda: y.pop('n1')):
                    try:
                        f()
                        alter.append(None)
                    except Exception as e:
                        alter.append(type(e).__name__)
                o['alter'] = alter
                o['dec_after_alter'] = self.info_view(y)
            except Exception as e:
                o['reenc'] = err(e)
        o['textx'] = self.textx(o['text'] if isinstance(o['text'], str) else None, case['x'])
        o['decx'] = dec(o['textx'])
        return o

    def to_coq(self, case, o):
        ents = iter(o['entries'])

        def centry(v):
            return '{| me_state := %s; me_deadline := %s; me_end := %s |}' % (
                'None' if v['state'] is None else '(Some M%s)' % v['state'], costr(v['deadline']), costr(v['expected_end']))
        def cop(op, r):
            if op[0] == 'add':
                if is_err(r) and r['err'] not in ('MaintenanceModeException',):
                    raise RuntimeError('entry construction failed %r' % (op,))
                # the entry is built before add() is called, so it exists even when add() raises
                return 'MAdd %s %s' % (cstr(op[1]), centry(next(ents)))
            if op[0] == 'fin':
                return 'MFinalize'
            return '%s %s' % ({'rem': 'MRem', 'pop': 'MPop', 'get': 'MGet'}[op[0]], cstr(op[1]))
        ops = []
        have_copy = False
        for op, r in zip(case['ops'], o['rets']):
            if op[0] == 'copy':
                ops.append('M2Copy')
                have_copy = True
            elif op[0] == 'c':
                if have_copy:
                    ops.append('M2OnCopy (%s)' % cop(op[1], r))
                else:
                    ops.append('M2OnCopy MFinalize')      # no copy yet: a no-op on both sides
            else:
                ops.append('M2Orig (%s)' % cop(op, r))
        obs = [o['rets'], o['views'][-1], o['text'], o.get('dec'), o.get('reenc'), o['decx'], o['cviews'][-1]]
        return '((%s, %s), %s)' % (clist(ops), costr(o['textx']), cjson(obs))

    def oracle(self, case, o):
        # a finalized record cannot be altered -- neither directly nor through a copy of it
        for i, op in enumerate(case['ops']):
            before, after = o['views'][i], o['views'][i + 1]
            if op[0] in ('copy', 'c'):
                if not same(before, after) or not same(o['otexts'][i], o['otexts'][i + 1]):
                    return ('aliasing: %s on a copy() changed the ORIGINAL MaintenanceInfo (%sfinalized): entries %r -> %r' % (
                        'copy()' if op[0] == 'copy' else op[1][0], '' if before[1] else 'not ', [p[0] for p in before[0]],
                        [p[0] for p in after[0]]))
                if op[0] == 'copy' and (not same(o['cviews'][i + 1][0], before[0]) or o['cviews'][i + 1][1]):
                    return 'copy: copy() is not an unfinalized record with the same entries'
                continue
            if before[1]:
                if not same(before, after):
                    return 'finalized: %s changed a finalized MaintenanceInfo' % op[0]
                if op[0] in ('add', 'rem', 'pop') and o['rets'][i] != {'err': 'MaintenanceModeException'}:
                    return 'finalized: %s on a finalized MaintenanceInfo returned %r' % (op[0], o['rets'][i])
            elif op[0] == 'fin' and not after[1]:
                return 'finalized: finalize() did not lock'
        final = o['views'][-1]
        if not final[1]:
            return None if is_err(o['text']) else 'finalized: to_json of a record that is not finalized succeeded'
        if is_err(o['text']):
            return 'roundtrip: MaintenanceInfo.to_json raises %s' % o['text']['err']
        if not same(o['dec'], final) or not o.get('eq'):
            return 'roundtrip: MaintenanceInfo %r decodes as %r' % (final, o['dec'])
        if o['reenc'] != o['text']:
            return 'canonical: MaintenanceInfo re-encoding differs'
        if o['alter'] != ['MaintenanceModeException'] * 3 or not same(o['dec_after_alter'], final):
            return 'finalized: the decoded MaintenanceInfo could be altered (%r)' % (o['alter'],)
        x = case['x']
        if x is not None and x[0] != 'raw' and o['textx'] is not None:
            if is_err(o['decx']):
                if x[0] == 'field':
                    return 'forward-compat: MaintenanceInfo.from_json raises %s on an unknown field of an entry' % o['decx']['err']
                return 'forward-compat: MaintenanceInfo.from_json raises %s on an additional node' % o['decx']['err']
            known = [p for p in o['decx'][0] if not (x[0] == 'node' and p[0] == x[1])]
            want = [p for p in final[0] if not (x[0] == 'node' and p[0] == x[1])]
            if not same(known, want):
                return 'forward-compat: MaintenanceInfo entries changed by unknown keys'
        return None

    def key(self, case, o):
        if o['views'][-1][0]:
            return stable_hash(case)
        return None

    def histogram(self, cases, obs):
        h = {'ops': {}, 'op_errors': {}, 'finalized_at_end': 0, 'ops_after_finalize': 0, 'decx_errors': {}, 'entries_at_end': {},
             'histories_with_copy_of_finalized': 0}
        for c, o in zip(cases, obs):
            h['histories_with_copy_of_finalized'] += any(op[0] == 'copy' and o['views'][i][1] for i, op in enumerate(c['ops']))
            for i, (op, r) in enumerate(zip(c['ops'], o['rets'])):
                name = op[0] if op[0] != 'c' else 'copy.' + op[1][0]
                h['ops'][name] = h['ops'].get(name, 0) + 1
                if is_err(r):
                    h['op_errors'][r['err']] = h['op_errors'].get(r['err'], 0) + 1
                h['ops_after_finalize'] += bool(o['views'][i][1])
            h['finalized_at_end'] += bool(o['views'][-1][1])
            n = str(len(o['views'][-1][0]))
            h['entries_at_end'][n] = h['entries_at_end'].get(n, 0) + 1
            if is_err(o['decx']):
                h['decx_errors'][o['decx']['err']] = h['decx_errors'].get(o['decx']['err'], 0) + 1
        return h

    def shrink(self, case, failing):
        case = copy.deepcopy(case)
        i = 0
        while i < len(case['ops']):
            c2 = copy.deepcopy(case)
            del c2['ops'][i]
            try:
                ok = failing(c2)
            except Exception:
                ok = False
            if ok:
                case = c2
            else:
                i += 1
        return case


# ----------------------------------------------------------------------------------------------
# stream foreign : JSON texts NOT produced by the encoders, through every decoder
# ----------------------------------------------------------------------------------------------
def py_equal(a, b):
    """Python-level equality of decoded values: dict order-insensitive, bool/int by value, floats by repr"""
    if isinstance(a, bool) and isinstance(b, int) or isinstance(b, bool) and isinstance(a, int):
        return a == b
    if type(a) != type(b):
        return False
    if isinstance(a, dict):
        return set(a.keys()) == set(b.keys()) and all(py_equal(a[k], b[k]) for k in a)
    if isinstance(a, list):
        return len(a) == len(b) and all(py_equal(x, y) for x, y in zip(a, b))
    if isinstance(a, float):
        return repr(a) == repr(b)
    return a == b


FREE_LABEL_FIELDS = ['instance', 'instance_parent', 'local_name', 'local_type', 'device_name']
SWAPS = ['1', 1, 0, True, False, None, 1.5, [], ['a'], [['a']], {'a': 1}, '', 10 ** 40, -1, 'None', [1, None]]


class ForeignStream(Stream):
    name = 'foreign'
    header = ('From Coq Require Import List ZArith NArith.\nImport ListNotations.\n'
              'From FIM Require Import Base.Str Base.Json Model.CodecField Model.CodecMisc Model.CodecChk.\n')
    case_type = '(fkind * list N) * json'
    check_fn = 'check_foreign'
    shard = 120
    rule = ('texts not written by the encoders, for each decoder (7 JSONField classes, Tags, Gateway, PathInfo, ERO, '
            'MaintenanceInfo, JSONData x3): members permuted, a key repeated with another value, random whitespace and escape '
            'spellings, unknown keys first / in the middle / last, value kinds swapped ("1" / 1 / true / null / nested / 1.5 / '
            '10^40 / -1), non-object texts; observed: accept or exception class, decoded value, re-encoded text, decode of the '
            're-encoded text; non-trivial = the text decodes to a value; distinct by (decoder, text)')

    def gen(self, rng, tier):
        n = 500 if tier == 'quick' else 6000
        out = []
        for _ in range(n):
            k = rng.randrange(13)
            if k < 7:
                out.append(self.gen_field(rng, k))
            else:
                out.append([self.gen_tags, self.gen_gw, self.gen_path, self.gen_path, self.gen_maint, self.gen_jdata][k - 7](rng))
        return out

    def corpus(self):
        return [{'kind': ['field', 0], 'text': '{"zz": [1], "ram": 1, "core": 0,  "ram": 2}'},
                {'kind': ['field', 0], 'text': '{"core": "1"}'}, {'kind': ['field', 5], 'text': '{"lat": 1}'},
                {'kind': ['field', 6], 'text': '{"ptp": 1}'}, {'kind': ['field', 2], 'text': '[1]'},
                {'kind': ['field', 3], 'text': '{"reservation_id": [{"b": 1, "a": 2}]}'},
                {'kind': ['path', False], 'text': '{"type": "Graph", "payload": null}'},
                {'kind': ['path', True], 'text': '{"payload": {"z2a": [], "a2z": null, "x": 1}, "type": "nope", "strict": "true"}'},
                {'kind': ['maint'], 'text': '{"a": {"state": "Maint", "deadline": ""}, "a": {"state": 5, "expected_end": 0}}'},
                {'kind': ['tags'], 'text': ' [ "a" , "a" ] '}, {'kind': ['gw'], 'text': '{"ipv6": "::", "ipv6_subnet": "::/0", "vlan": "100"}'},
                {'kind': ['jdata', 1], 'text': '{"a": 1, "a": [1.50, 2e0]}'}] + load_corpus('foreign')

    # ---- text builders
    def splice(self, rng, members, strdup=True):
        """members: list of (key, value); returns a JSON text with random order / whitespace / duplicates
        (strdup=False: the repeated key never gets a new STRING value -- label validators are C16's subject)"""
        members = list(members)
        if rng.random() < 0.5:
            rng.shuffle(members)
        if members and rng.random() < 0.3:
            k, v = rng.choice(members)
            members.insert(rng.randrange(len(members) + 1), (k, rng.choice([v, None, 1] + (['dup'] if strdup else []))))
        ws = lambda: rng.choice(['', '', ' ', '\n ', '\t'])
        return '{' + ws() + (',' + ws()).join(render(rng, k) + ws() + ':' + ws() + render(rng, v) for k, v in members) + ws() + '}'

    def unknowns(self, rng, members):
        members = list(members)
        for _ in range(rng.choice([0, 0, 1, 2])):
            pos = rng.choice([0, len(members), rng.randrange(len(members) + 1)])
            members.insert(pos, (rng.choice(['accelerators', 'zz_future', 'gpu', 'Core', 'to_json', 'forgiving']), rng.choice(SWAPS)))
        return members

    def nondict(self, rng):
        return rng.choice(['[1]', '"x"', '5', 'null', 'true', '{', '', 'None', '[]', '{}', ' {} ', '{"a"}', 'NaN'])

    def gen_field(self, rng, i):
        cl = classes()
        cname = cl[i].__name__
        fs = list(cl[i]().__dict__.keys())
        if rng.random() < 0.08:
            return {'kind': ['field', i], 'text': self.nondict(rng)}
        members = []
        for f in rng.sample(fs, min(rng.choice([0, 1, 2, 3]), len(fs))):
            r = rng.random()
            if r < 0.55:
                v = gen_field_value(rng, cname, f)
                if isinstance(v, float) and (v != v or v in (float('inf'), float('-inf'))):
                    v = 1.5
            elif cname == 'Labels' and f not in FREE_LABEL_FIELDS:
                v = rng.choice([1, True, None, 1.5, {'a': 1}, 0])          # type-invalid only (validators are C16's)
            elif cname == 'Location' and f != 'postal':
                v = rng.choice(['1', 1, True, None, [], ['a'], {'a': 1}, '', 10 ** 40, -1, 2.5, 0.0, -0.0])
            else:
                v = rng.choice(SWAPS)
            members.append((f, v))
        return {'kind': ['field', i], 'text': self.splice(rng, self.unknowns(rng, members), strdup=(cname != 'Labels'))}

    def gen_tags(self, rng):
        if rng.random() < 0.2:
            return {'kind': ['tags'], 'text': self.nondict(rng)}
        items = [rng.choice(TAGS_OK + ['a b', '', 5, None, ['a'], 'x' * 256]) for _ in range(rng.choice([0, 1, 2, 3]))]
        if rng.random() < 0.8:
            items = [x for x in items if isinstance(x, str) and x in TAGS_OK] + ([items[0]] if items and items[0] in TAGS_OK else [])
        return {'kind': ['tags'], 'text': render(rng, items) if rng.random() < 0.8 else render(rng, rng.choice(TAGS_OK + ['a b']))}

    def gen_gw(self, rng):
        if rng.random() < 0.1:
            return {'kind': ['gw'], 'text': self.nondict(rng)}
        members = []
        m = rng.randrange(6)
        if m in (0, 1, 4):
            members += [('ipv4_subnet', rng.choice(LABEL_POOL['ipv4_subnet'])), ('ipv4', rng.choice(LABEL_POOL['ipv4']))]
        if m in (2, 4):
            members += [('ipv6_subnet', rng.choice(LABEL_POOL['ipv6_subnet'])), ('ipv6', rng.choice(LABEL_POOL['ipv6']))]
        if m == 3:
            members += [('ipv4', rng.choice(LABEL_POOL['ipv4']))]
        if rng.random() < 0.5:
            members.append(('mac', rng.choice(LABEL_POOL['mac'] + [None, 5])))
        if rng.random() < 0.3:
            members.append((rng.choice(['vlan', 'local_name']), rng.choice(['100', ['100', '0']])))
        return {'kind': ['gw'], 'text': self.splice(rng, self.unknowns(rng, members), strdup=False)}

    def gen_path(self, rng):
        ero = rng.random() < 0.5
        if rng.random() < 0.1:
            return {'kind': ['path', ero], 'text': self.nondict(rng)}
        members = []
        if rng.random() < 0.9:
            members.append(('type', rng.choice(['Path', 'Path', 'Graph', 'Graph', 'path', 'None', None, 5, ['Path']])))
        if rng.random() < 0.9:
            pl = rng.choice(['gid', None, 5, [1, {'b': 2}], {'a2z': path_list(rng), 'z2a': path_list(rng)},
                             {'a2z': path_list(rng), 'z2a': path_list(rng), 'hops': 3}, {'a2z': []}, {'z2a': None, 'a2z': 'x'}, {}])
            members.append(('payload', pl))
        if rng.random() < 0.6:
            members.append(('strict', rng.choice(['True', 'true', 'False', 'yes', True, None, 1, 'TRUE'])))
        return {'kind': ['path', ero], 'text': self.splice(rng, self.unknowns(rng, members))}

    def gen_maint(self, rng):
        if rng.random() < 0.1:
            return {'kind': ['maint'], 'text': self.nondict(rng)}
        members = []
        for _ in range(rng.choice([0, 1, 2, 3])):
            e = []
            if rng.random() < 0.9:
                e.append(('state', rng.choice(['Active', 'PreMaint', 'Maint', 'Unknown', 'maint', None, 5, ['Maint'], ''])))
            for f in ('deadline', 'expected_end'):
                if rng.random() < 0.6:
                    e.append((f, rng.choice([gen_dt(rng), gen_dt(rng), None, '', 0, False, [], {}, 5, [1], True])))
            if rng.random() < 0.2:
                e.append((rng.choice(['reason', 'State']), rng.choice(['x', 1, None])))
            rng.shuffle(e)
            members.append((rng.choice(MNAMES), dict(e) if rng.random() < 0.9 else rng.choice([[], 'Maint', 5, None])))
        return {'kind': ['maint'], 'text': self.splice(rng, members)}

    def gen_jdata(self, rng):
        idx = rng.randrange(3)
        m = rng.randrange(4)
        v = gen_value(rng, 2, False)
        if m == 0:
            t = render(rng, v)
        elif m == 1 and isinstance(v, dict):
            t = self.splice(rng, list(v.items()))
        elif m == 2:
            t = corrupt(rng, json.dumps(v))
        else:
            t = rng.choice(['1.50', '2e0', '-0', '[1.0, 1e1]', '{"a": 1, "a": 2}', ' null ', 'Infinity'])
        return {'kind': ['jdata', idx], 'text': t}

    # ---- decoders
    def codec(self, kind):
        """(decode(text) -> obj|None, view(obj), encode(obj) -> text|None)"""
        k = kind[0]
        if k == 'field':
            cls = classes()[kind[1]]
            return cls.from_json, (lambda y: canon(dict(y.__dict__))), (lambda y: y.to_json())
        if k == 'tags':
            from fim.slivers.tags import Tags
            return Tags.from_json, (lambda y: list(y.tags)), (lambda y: y.to_json())
        if k == 'gw':
            from fim.slivers.gateway import Gateway
            return Gateway.from_json, (lambda g: ['gw', None if g.lab is None else canon(dict(g.lab.__dict__))]), (lambda g: g.to_json())
        if k == 'path':
            from fim.slivers.path_info import PathInfo, ERO
            cls = ERO if kind[1] else PathInfo
            return cls.from_json, MiscStream().path_view, (lambda p: p.to_json())
        if k == 'maint':
            from fim.slivers.maintenance_mode import MaintenanceInfo
            return MaintenanceInfo.from_json, MaintStream().info_view, (lambda m: m.to_json())
        cls = jd_classes()[kind[1]]
        return (lambda t: cls(t)), (lambda x: [x.json, loads_tok(x.json)]), (lambda x: x.json)

    def observe(self, case):
        dec, view, enc = self.codec(case['kind'])
        o = {}
        try:
            y = dec(case['text'])
        except Exception as e:
            return {'dec': err(e)}
        if y is None:
            return {'dec': None}
        o['dec'] = view(y)
        try:
            o['reenc'] = enc(y)
        except Exception as e:
            o['reenc'] = err(e)
            return o
        o['unchanged_by_encode'] = same(view(y), o['dec'])
        try:
            y2 = dec(o['reenc'])
            o['dec2'] = None if y2 is None else view(y2)
            o['reenc2'] = None if y2 is None else enc(y2)
        except Exception as e:
            o['dec2'] = err(e)
        return o

    def tags_ok(self, case):
        return MiscStream().tags_ok({'args': [], 'textx': case['text']})

    def to_coq(self, case, o):
        k = case['kind']
        ck = {'field': lambda: 'FKField %s' % cnat(k[1]), 'tags': lambda: 'FKTags %s' % clist([cstr(x) for x in self.tags_ok(case)]),
              'gw': lambda: 'FKGateway', 'path': lambda: 'FKPath %s' % cbool(k[1]), 'maint': lambda: 'FKMaint',
              'jdata': lambda: 'FKJData %s' % cnat(k[1])}[k[0]]()
        if is_err(o['dec']):
            obs = [o['dec']]
        elif o['dec'] is None:
            obs = [None]
        elif is_err(o.get('reenc')):
            obs = [o['dec'], o['reenc']]
        else:
            obs = [o['dec'], o['reenc'], o['dec2']]
        return '((%s, %s), %s)' % (ck, cstr(case['text']), cjson(obs))

    def nothing_set(self, case, o):
        """decoded values for which 'encodes as empty text, reads back as absent' is the stated behaviour"""
        k = case['kind'][0]
        if k == 'field':
            return o['reenc'] == ''
        if k == 'path':
            return o['dec'][1] == ['raw', None]
        return False

    def oracle(self, case, o):
        if is_err(o['dec']) or o['dec'] is None:
            return None              # which texts are refused is fixed by the model comparison, not by the property
        name = '/'.join(str(x) for x in case['kind'])
        if case['kind'][0] == 'field':
            name = classes()[case['kind'][1]].__name__
        if is_err(o['reenc']):
            return 'decode-closure: %s decoded %r but the decoded value cannot be encoded (%s)' % (name, case['text'][:80], o['reenc']['err'])
        if not o['unchanged_by_encode']:
            return 'purity: encoding the value %s decoded from %r modified it' % (name, case['text'][:80])
        if o['dec2'] is None and self.nothing_set(case, o):
            return None
        if is_err(o['dec2']) or o['dec2'] is None or not py_equal(o['dec2'], o['dec']):
            tag = ''
            if name == 'Capacities' and isinstance(o['dec'], dict) and isinstance(o['dec2'], dict):
                nonev = [f for f in o['dec'] if o['dec'][f] is None and o['dec2'].get(f) == 0]
                rest = [f for f in o['dec'] if f not in nonev and not py_equal(o['dec'][f], o['dec2'].get(f))]
                if nonev and not rest:
                    return 'roundtrip: Capacities decoded from a foreign text re-encodes to a text that decodes differently [None-valued field %s]' % nonev[0]
            return ('decode-closure: %s: the value decoded from %r re-encodes as %r, which decodes to something else: %r vs %r' % (
                name, case['text'][:80], o['reenc'], o['dec2'], o['dec']))
        if o.get('reenc2') != o['reenc']:
            return 'canonical: %s: re-encoding is not a fixed point (%r then %r)' % (name, o['reenc'], o.get('reenc2'))
        return None

    def key(self, case, o):
        if is_err(o['dec']) or o['dec'] is None:
            return None
        return stable_hash(case)

    def describe(self, case, o):
        return {'case': case, 'impl': {k: (v if not isinstance(v, str) or len(v) < 200 else v[:200]) for k, v in o.items()}}

    def histogram(self, cases, obs):
        h = {'decoders': {}, 'accepted': 0, 'absent': 0, 'rejected': {}, 'renormalised_to_absent': 0}
        for c, o in zip(cases, obs):
            k = c['kind'][0]
            h['decoders'][k] = h['decoders'].get(k, 0) + 1
            if is_err(o['dec']):
                h['rejected'][o['dec']['err']] = h['rejected'].get(o['dec']['err'], 0) + 1
            elif o['dec'] is None:
                h['absent'] += 1
            else:
                h['accepted'] += 1
                h['renormalised_to_absent'] += o.get('dec2') is None
        return h


# ----------------------------------------------------------------------------------------------
# replays of the ..._refuted witnesses of Properties/C03.v on the implementation
# ----------------------------------------------------------------------------------------------
def w_tuple_value():
    from fim.graph.typed_tuples import Capacity, Label
    a = Capacity(fromstring=Capacity(atype='ram', aval=1000).get_as_string()).get_val()
    b = Label(fromstring=Label(atype='mac', aval='x ').get_as_string()).get_val()
    return (not (same(a, 1000) and same(b, 'x ')), 'Capacity ram:1000 reads back %r, Label mac:"x " reads back %r' % (a, b))


def w_capacities_none():
    from fim.slivers.capacities_labels import Capacities
    x = Capacities(core=None, ram=1)
    y = Capacities.from_json(x.to_json())
    return (not same(canon(dict(x.__dict__)), canon(dict(y.__dict__))), 'core=None reads back as %r' % (y.core,))


class C03(Check):
    pid = 'C03'
    translators = ['gen_codec']
    model_targets = ['Model/CodecChk.vo']
    streams = [JsonStream(), FieldStream(), MiscStream(), MaintStream(), ForeignStream()]
    design_ref = 'DESIGN.md section 7, C03; notes/C03.md'
    trusted_base = [
        'Coq 8.16.1 kernel (coqc), vm_compute for the correspondence evaluation; no native_compute',
        'Print Assumptions of every C03 theorem: Closed under the global context (no axioms)',
        'translator/gen_codec.py + translator/pyast.py (Python ast -> Gen/CodecGen.v), fail-closed',
        'harness/c03.py + harness/common.py (case generation, recording of implementation results, cases.v writer)',
        'modelled not verified: CPython json.dumps/json.loads (Base/Json.v jprint/jsort/jparse, validated by the json stream '
        'on every run), str.strip / str.split, dict insertion order, dataclasses.asdict, enum str()',
        'floats are represented by their json.dumps text and datetimes by isoformat(): float(repr(f)) == f and '
        'fromisoformat(d.isoformat()) == d are CPython guarantees, exercised (not proved) by the oracle on every run',
        'the validators (Labels.VALIDATORS/LAMBDA_VALIDATORS, Tags.TAG_PATTERN, datetime.fromisoformat) are universally '
        'quantified parameters of the theorems; the correspondence instantiates them with the implementation\'s own verdicts',
        'non-mutation of arguments (update, constructors, to_json) is an aliasing fact outside a pure model: checked by '
        'deep before/after snapshots in every stream, not proved',
    ]
    assumptions = [
        'wf_obj: every field holds its default or a value the class\'s own assertions/validators accept and its encoder keeps '
        '(C03_drop_rule_lossless shows nothing else is excluded, except None/False for Capacities = recorded finding)',
        'jwfb: strings contain no lone surrogate code points, dict keys are distinct strings, floats are finite-or-NaN/Infinity tokens '
        'in repr form; field values of the JSONField classes contain no dict (documented types: int, bool, float, str, list of str)',
        'tval_plain: typed-tuple values are strings without trailing whitespace (ints / trailing whitespace = recorded finding)',
    ]

    def refuted_witnesses(self):
        return [('C03_tuple_value_refuted', w_tuple_value), ('C03_capacities_none_refuted', w_capacities_none)]


if __name__ == '__main__':
    sys.exit(main(C03()))

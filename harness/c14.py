"""C14 - combined broker model: merge is order-independent and unmerge is its inverse.

The REAL merge_adm / _update_node_delegations / unmerge_adm of Neo4jCBMGraph and snapshot / rollback of
ABCCBMPropertyGraph are run over the in-memory shared store (NetworkXPropertyGraph) through a harness-side class that
borrows the methods (DESIGN section 6); fim.graph.resources.neo4j_cbm.Neo4jADMGraph is set to NetworkXADMGraph and the
two modules' `uuid.uuid4` is replaced by a counter (the rest of the uuid module stays the real one) so that temporary /
snapshot graph ids are reproducible.  Nothing in the
repository is edited.

One case = a family of 1-4 hand-built delegation models (ADMs) sharing stitch nodes + several histories of
merge / unmerge / snapshot / rollback, each replayed from a fresh store.  After every step the harness records the
canonical snapshot of the combined graph, whether every source and every live snapshot is unchanged, and the number
of nodes in the whole store.  Coq replays the histories on Model/Cbm14Store.v (store level, exact) and on
Model/Cbm14Spec.v (abstract combined model, modulo the declared equivalence) and reports disagreements.
The oracle restates the property over implementation snapshots only.
"""
import sys, json, copy, itertools, collections
from . import common
from .common import *

# ----------------------------------------------------------------------------------------------
# implementation driver
# ----------------------------------------------------------------------------------------------
_I = {}
CBM_ID = 'cbm'


def impl():
    if _I:
        return _I
    import networkx as nx
    import fim.graph.resources.neo4j_cbm as ncbm
    import fim.graph.resources.abc_cbm as acbm
    from fim.graph.networkx_property_graph import NetworkXPropertyGraph, NetworkXGraphImporter
    from fim.graph.resources.abc_cbm import ABCCBMPropertyGraph
    from fim.graph.resources.networkx_adm import NetworkXADMGraph
    ncbm.Neo4jADMGraph = NetworkXADMGraph          # the "crude typecast" of merge_adm lands on the in-memory ADM class

    class FakeUuid:
        n = 0

        @classmethod
        def uuid4(cls):
            cls.n += 1
            return 'u-%d' % cls.n
    # a TRANSPARENT stand-in for the `uuid` module the two modules imported: everything is the real thing
    # (uuid1/3/5, UUID, NAMESPACE_*, ...), only uuid4 draws from the counter so that temporary / snapshot ids are
    # reproducible.  A change that uses another uuid function therefore runs as written.
    import uuid as _real_uuid, types
    proxy = types.ModuleType('uuid')
    proxy.__dict__.update({k: v for k, v in _real_uuid.__dict__.items() if k not in ('__name__',)})
    proxy.uuid4 = FakeUuid.uuid4
    ncbm.uuid = proxy
    acbm.uuid = proxy

    class MemCBM(NetworkXPropertyGraph, ABCCBMPropertyGraph):
        merge_adm = ncbm.Neo4jCBMGraph.merge_adm
        unmerge_adm = ncbm.Neo4jCBMGraph.unmerge_adm
        _update_node_delegations = ncbm.Neo4jCBMGraph._update_node_delegations
        get_delegations = ncbm.Neo4jCBMGraph.get_delegations

        def find_matching_nodes(self, *, other_graph):
            # the real method; the iteration order of the returned set (= the order in which merge_adm meets the common
            # nodes) is recorded, so that the partial effects of a merge refused half way can be predicted
            r = NetworkXPropertyGraph.find_matching_nodes(self, other_graph=other_graph)
            _I['order'] = list(r)
            return r

        def get_bqm(self, **kw): raise NotImplementedError
        def get_matching_nodes_with_components(self, **kw): raise NotImplementedError
        def get_intersite_links(self): raise NotImplementedError
        def get_sites(self): raise NotImplementedError
        def get_disconnected_sites(self): raise NotImplementedError
        def get_connected_sites(self): raise NotImplementedError
        def get_facility_ports(self): raise NotImplementedError
    # private helpers that a refactoring of Neo4jCBMGraph may introduce are borrowed too
    for name, fn in vars(ncbm.Neo4jCBMGraph).items():
        if name.startswith('_') and not name.startswith('__') and callable(fn) and name not in vars(MemCBM):
            setattr(MemCBM, name, fn)
    _I.update(nx=nx, MemCBM=MemCBM, Importer=NetworkXGraphImporter, ADM=NetworkXADMGraph, uuid=FakeUuid)
    return _I


# delegation contents used by the generator (name -> inner JSON object of one delegation)
CONTENT = {
    'c1': {"pool_id": "_", "capacities": {"core": 4}},
    'c2': {"pool_id": "_", "capacities": {"core": 8, "ram": 64}},
    'c3': {"pool_id": "pool1", "capacities": {"unit": 2}},
    'c4': {"pool": "pool1"},
    'l1': {"pool_id": "_", "labels": {"vlan_range": "100-200"}},
    'l2': {"pool_id": "_", "labels": {"bdf": "0000:01:00.0"}},
    'l3': {"pool": "lp"},
}
_CANON = {json.dumps(v, sort_keys=True): k for k, v in CONTENT.items()}


def content_of(c):
    return CONTENT[c] if c in CONTENT else json.loads(c[2:])      # 'x:<json>' = a literal inner object


def dtext(d):
    """case-level delegation value (None | '' | [[delegation id, content name]...]) -> property text"""
    if d is None or d == '':
        return d
    return json.dumps({k: content_of(c) for k, c in d})


def norm_inner(inner):
    """one delegation's inner object in the form Delegations.from_json -> to_json leaves it (merge_adm round-trips
    delegation properties through these; their exactness is C12's subject), sorted keys"""
    try:
        from fim.slivers.delegations import Delegations, DelegationType
        at = DelegationType.LABEL if ('labels' in inner or 'pool' in inner and 'capacities' not in inner) else DelegationType.CAPACITY
        for t in (at, DelegationType.CAPACITY, DelegationType.LABEL):
            try:
                return json.dumps(json.loads(Delegations.from_json(json_str=json.dumps({'k': inner}), atype=t).to_json())['k'],
                                  sort_keys=True)
            except Exception:
                continue
    except Exception:
        pass
    return json.dumps(inner, sort_keys=True)


def canon_del(text):
    if text is None:
        return None
    if text == '':
        return ''
    try:
        d = json.loads(text)
        out = []
        for k, v in d.items():
            t = json.dumps(v, sort_keys=True)
            out.append([k, _CANON[t] if t in _CANON else 'x:' + norm_inner(v)])
        return out
    except Exception:
        return [['bad', 'x:' + repr(text)]]


def canon_si(text):
    if text is None:
        return None
    try:
        d = json.loads(text)
        if isinstance(d, dict) and set(d.keys()) == {'adm_graph_ids'} and isinstance(d['adm_graph_ids'], list) \
                and all(isinstance(x, str) for x in d['adm_graph_ids']):
            return list(d['adm_graph_ids'])
    except Exception:
        pass
    return 'other:' + str(text)


SPECIAL = ('GraphID', 'NodeID', 'Class', 'StructuralInfo', 'LabelDelegations', 'CapacityDelegations')


def snapshot(imp, gid):
    """canonical snapshot of one graph of the shared store: [nodes sorted by NodeID, edges sorted by NodeID pair];
    node = [NodeID, Class, other properties sorted, adm_graph_ids, label delegations, capacity delegations];
    edge = [NodeID a <= NodeID b, Class, other properties sorted, carries a 'contraction' attribute]"""
    g = imp.storage.extract_graph(gid)
    if g is None:
        return None
    ns = []
    for n, d in g.nodes(data=True):
        oth = sorted([k, str(v)] for k, v in d.items() if k not in SPECIAL)
        ns.append([d.get('NodeID'), d.get('Class'), oth, canon_si(d.get('StructuralInfo')),
                   canon_del(d.get('LabelDelegations')), canon_del(d.get('CapacityDelegations'))])
    ns.sort(key=lambda x: x[0])
    es = []
    for a, b, d in g.edges(data=True):
        ab = sorted([g.nodes[a]['NodeID'], g.nodes[b]['NodeID']])
        oth = sorted([k, str(v)] for k, v in d.items() if k not in ('Class', 'contraction'))
        es.append([ab[0], ab[1], d.get('Class'), oth, 'contraction' in d])
    es.sort(key=lambda x: (x[0], x[1]))
    return [ns, es]


def build_family(case):
    I = impl()
    nx = I['nx']
    imp = I['Importer']()
    imp.delete_all_graphs()
    imp.storage.storage_instance.start_id = 1
    I['uuid'].n = 0
    adms = []
    for a in case['adms']:
        g = nx.Graph()
        idx = {}
        for i, (nid, cls, oth, si, ld, cd) in enumerate(a['nodes']):
            props = dict((k, v) for k, v in oth)
            if si is not None:
                props['StructuralInfo'] = si
            if ld is not None:
                props['LabelDelegations'] = dtext(ld)
            if cd is not None:
                props['CapacityDelegations'] = dtext(cd)
            g.add_node(i, NodeID=nid, Class=cls, **props)
            idx[nid] = i
        for x, y, cls, oth in a['edges']:
            g.add_edge(idx[x], idx[y], Class=cls, **dict((k, v) for k, v in oth))
        imp.storage.add_graph(a['gid'], g)
        adms.append(I['ADM'](graph_id=a['gid'], importer=imp))
    # some sources are re-keyed by the PUBLIC rewrite_delegations() before they are merged (merge_adm then re-keys the
    # temporary clone again, old id = new id); the re-keying must keep every delegation, under the graph's own id
    prerw = None
    for k in case.get('prerewrite', []):
        before = snapshot(imp, case['adms'][k]['gid'])
        try:
            adms[k].rewrite_delegations()
        except Exception as e:
            prerw = 'rewrite_delegations() of %s raised %s' % (case['adms'][k]['gid'], type(e).__name__)
            continue
        after = snapshot(imp, case['adms'][k]['gid'])
        want = rekeyed(before, case['adms'][k]['gid'])
        if after != want and prerw is None:
            bad = [n[0] for n, m in zip(after[0], want[0]) if n != m]
            prerw = ('rewrite_delegations() of %s did not keep the delegations of %s under the graph id '
                     '(delegations keyed by the contributing model)' % (case['adms'][k]['gid'], bad[:3]))
    _I['prerw'] = prerw
    return imp, adms


def rekeyed(snap, gid):
    """the snapshot with every (one-entry) delegation dictionary re-keyed to gid"""
    out = copy.deepcopy(snap)
    for n in out[0]:
        for f in (4, 5):
            if isinstance(n[f], list):
                n[f] = [[gid, c] for _, c in n[f]]
    return out


def run_history(case, hist):
    """one history on a fresh store -> (initial source snapshots, per-step observations)"""
    I = impl()
    imp, adms = build_family(case)
    try:
        cbm = I['MemCBM'](graph_id=CBM_ID, importer=imp)
        src0 = [snapshot(imp, a['gid']) for a in case['adms']]
        prerw = _I.get('prerw')
        snaps = []
        live = {}
        out = []
        for op in hist:
            res, ret = 'ok', None
            u0 = I['uuid'].n
            _I['order'] = None
            try:
                if op[0] == 'merge':
                    cbm.merge_adm(adm=adms[op[1]])
                elif op[0] == 'unmerge':
                    cbm.unmerge_adm(graph_id=op[1])
                elif op[0] == 'snap':
                    ret = cbm.snapshot()
                    snaps.append(ret)
                    live[ret] = snapshot(imp, ret)
                elif op[0] == 'rollback':
                    ret = snaps[op[1]] if op[1] < len(snaps) else 'u-none'
                    cbm.rollback(graph_id=ret)
                else:
                    raise ValueError(op)
            except Exception as e:
                res = type(e).__name__
            if op[0] == 'snap' and ret is None:
                snaps.append('u-%d' % (u0 + 1))     # the id was drawn, the clone failed
                ret = snaps[-1]
            for s in list(live):
                if snapshot(imp, s) is None:
                    live.pop(s)
            out.append({'res': res, 'ret': ret, 'cbm': snapshot(imp, CBM_ID),
                        'src_same': [snapshot(imp, a['gid']) for a in case['adms']] == src0,
                        'snaps_same': all(snapshot(imp, s) == v for s, v in live.items()),
                        'store_n': imp.storage.graphs.number_of_nodes(),
                        'tmp': 'u-%d' % (u0 + 1), 'order': _I.get('order') or []})
        if prerw and out:
            out[0]['prerw'] = prerw
        return src0, out
    finally:
        imp.delete_all_graphs()
        imp.storage.storage_instance.start_id = 1


# ----------------------------------------------------------------------------------------------
# generator
# ----------------------------------------------------------------------------------------------
SHARED = [('s1', 'ConnectionPoint'), ('s2', 'Link'), ('s3', 'ConnectionPoint'), ('s4', 'NetworkService'),
          ('s5', 'NetworkNode')]
SH_EDGES = [('s1', 's2', 'connects'), ('s2', 's3', 'connects'), ('s3', 's4', 'connects'), ('s4', 's5', 'has'),
            ('s1', 's4', 'connects')]
PCLS = ['NetworkNode', 'Component', 'NetworkService', 'ConnectionPoint', 'Link']
DELNAMES = ['del1', 'del2', 'del3', 'd\u00e9l "4"', 'del\\5', 'del']
MODES = ['consistent'] * 7 + ['nonadj', 'nonadj', 'props', 'edges', 'speakers', 'malformed', 'subset']


def gen_family(rng, nadm=None, mode=None):
    """modes: consistent (the documented domain), nonadj (consistent, no edge between two shared nodes),
    subset (consistent, some ADM has no node of its own), props / edges (a shared node / an edge between shared nodes
    described differently by two ADMs), speakers (two ADMs delegate the same shared resource), malformed (a delegation
    property that is not a one-entry dictionary)"""
    nadm = nadm or rng.choice([1, 2, 2, 3, 3, 3, 4, 4])
    mode = mode or rng.choice(MODES)
    nshared = rng.choice([0, 1, 2, 2, 3, 3, 4, 5]) if mode != 'nonadj' else rng.randint(1, 5)
    shared = SHARED[:nshared]
    shd = dict(shared)
    sh_edges = [e for e in SH_EDGES if e[0] in shd and e[1] in shd and rng.random() < 0.8]
    if mode == 'nonadj':
        sh_edges = []
    sh_props = {s: sorted([['StitchNode', 'true']] + ([['Name', 'n-' + s]] if rng.random() < 0.6 else []) +
                          ([['Type', rng.choice(['t1', 't2'])]] if rng.random() < 0.3 else []))
                for s, _ in shared}
    sh_eprops = {(a, b): ([['w', rng.choice(['1', '2'])]] if rng.random() < 0.2 else []) for a, b, _ in sh_edges}
    speaker = {}
    for s, _ in shared:
        for f in ('ld', 'cd'):
            if rng.random() < 0.35:
                speaker[(s, f)] = rng.randrange(nadm)
    adms = []
    for k in range(nadm):
        gid = 'adm-%d' % (k + 1)
        mine = [s for s in shared if rng.random() < 0.8]
        nodes, edges = [], []
        for s, cls in mine:
            ld = cd = None
            if speaker.get((s, 'ld')) == k:
                ld = [[rng.choice(DELNAMES), rng.choice(['l1', 'l2', 'l3'])]]
            if speaker.get((s, 'cd')) == k:
                cd = [[rng.choice(DELNAMES), rng.choice(['c1', 'c2', 'c3', 'c4'])]]
            nodes.append([s, cls, [list(p) for p in sh_props[s]], None, ld, cd])
        ids = [s for s, _ in mine]
        for a, b, c in sh_edges:
            if a in ids and b in ids:
                edges.append([a, b, c, [list(p) for p in sh_eprops[(a, b)]]])
        npriv = rng.choice([1, 1, 2, 2, 3, 4]) if mode != 'subset' else rng.choice([0, 0, 1])
        if not mine and npriv == 0:
            npriv = 1
        for j in range(npriv):
            nid = 'p%d-%d' % (k + 1, j + 1)
            ld = [[rng.choice(DELNAMES), rng.choice(['l1', 'l2', 'l3'])]] if rng.random() < 0.5 else None
            cd = [[rng.choice(DELNAMES), rng.choice(['c1', 'c2', 'c3', 'c4'])]] if rng.random() < 0.6 else None
            oth = [['Name', 'n-' + nid]] if rng.random() < 0.7 else []
            si = rng.choice([None, None, None, '{"parent_graph_id": "arm"}', '{"adm_graph_ids": ["zz"]}'])
            nodes.append([nid, rng.choice(PCLS), oth, si, ld, cd])
            if len(nodes) > 1 and rng.random() < 0.85:
                tgt = rng.choice(nodes[:-1])[0]
                edges.append([nid, tgt, rng.choice(['has', 'connects']), [['w', '3']] if rng.random() < 0.1 else []])
            if len(nodes) > 2 and rng.random() < 0.3:
                tgt = rng.choice(nodes[:-1])[0]
                if not any({e[0], e[1]} == {nid, tgt} for e in edges):
                    edges.append([nid, tgt, rng.choice(['has', 'connects']), []])
        rng.shuffle(nodes)
        adms.append({'gid': gid, 'nodes': nodes, 'edges': edges})
    if mode == 'props':
        a = rng.choice(adms)
        cand = [n for n in a['nodes'] if n[0].startswith('s')]
        if cand:
            n = rng.choice(cand)
            if rng.random() < 0.3:
                n[1] = 'Other'
            else:
                n[2] = sorted(n[2] + [['Extra', 'x%d' % rng.randrange(3)]])
    if mode == 'edges':
        a = rng.choice(adms)
        cand = [e for e in a['edges'] if e[0].startswith('s') and e[1].startswith('s')]
        if cand and rng.random() < 0.6:
            e = rng.choice(cand)
            r = rng.random()
            if r < 0.5:
                a['edges'].remove(e)
            elif r < 0.75:
                e[2] = 'has' if e[2] == 'connects' else 'connects'
            else:
                e[3] = [['w', '9']]
        else:
            ids = [n[0] for n in a['nodes'] if n[0].startswith('s')]
            if len(ids) >= 2:
                x, y = rng.sample(ids, 2)
                if not any({e[0], e[1]} == {x, y} for e in a['edges']):
                    a['edges'].append([x, y, 'connects', []])
    if mode == 'speakers':
        for _ in range(2):
            a = rng.choice(adms)
            cand = [n for n in a['nodes'] if n[0].startswith('s')]
            if cand:
                n = rng.choice(cand)
                if rng.random() < 0.5:
                    n[4] = [[rng.choice(DELNAMES), 'l1']]
                else:
                    n[5] = [[rng.choice(DELNAMES), 'c1']]
    if mode == 'malformed':
        a = rng.choice(adms)
        n = rng.choice(a['nodes'])
        f = rng.choice([4, 5])
        n[f] = rng.choice(['', [], [['del1', 'c1' if f == 5 else 'l1'], ['del2', 'c2' if f == 5 else 'l2']]])
    fam = {'adms': adms, 'mode': mode}
    if mode != 'malformed':
        r = rng.random()
        if r < 0.2:
            # delegation ids that coincide with the model's own graph id (generate_adms(delegation_guids={G: G}))
            for a in adms:
                if rng.random() < 0.7:
                    for n in a['nodes']:
                        for f in (4, 5):
                            if isinstance(n[f], list) and len(n[f]) == 1 and rng.random() < 0.8:
                                n[f] = [[a['gid'], n[f][0][1]]]
            fam['selfid'] = True
        elif r < 0.35:
            # sources re-keyed by the public rewrite_delegations() before the merge
            fam['prerewrite'] = [k for k in range(len(adms)) if rng.random() < 0.6] or [0]
    return fam


def gen_history(rng, nadm, maxlen=12):
    """an interleaving of merge / unmerge / snapshot / rollback: mostly sensible (merge what is not merged, unmerge a
    contributor, roll back to an unused snapshot), sometimes not"""
    merged = set()
    snapsets = []
    used = set()
    h = []
    n = rng.randint(2, maxlen)
    for _ in range(n):
        r = rng.random()
        cand = [k for k in range(nadm) if k not in merged]
        if (r < 0.45 and (cand or rng.random() < 0.2)) or not h:
            if cand and rng.random() < 0.95:
                k = rng.choice(cand)
            else:
                k = rng.randrange(nadm)
            h.append(['merge', k])
            merged.add(k)
        elif r < 0.75:
            if merged and rng.random() < 0.9:
                k = rng.choice(sorted(merged))
            else:
                k = rng.randrange(nadm + 1)
            if not merged and rng.random() < 0.8:
                continue
            h.append(['unmerge', 'adm-%d' % (k + 1)])
            merged.discard(k)
        elif r < 0.88:
            if not merged and rng.random() < 0.85:
                continue
            h.append(['snap'])
            snapsets.append(set(merged))
        else:
            cand = [j for j in range(len(snapsets)) if j not in used]
            if cand and rng.random() < 0.93:
                j = rng.choice(cand)
            elif snapsets and rng.random() < 0.5:
                j = rng.randrange(len(snapsets) + 1)
            else:
                continue
            h.append(['rollback', j])
            if j < len(snapsets) and j not in used:
                merged = set(snapsets[j])
            else:
                merged = set()
            used.add(j)
    return h


# ids the API accepts but that are awkward as text: non-ASCII characters, quotes, backslashes (json.dumps escapes all
# three inside the stored JSON properties), blanks, and ids that are substrings of one another
EXOTIC_GIDS = [lambda k: 'adm-net-Z\u00fcrich-%d' % k, lambda k: 'adm "site" RENC %d' % k, lambda k: 'adm-site\\RENC\\%d' % k,
               lambda k: 'adm-\u6771\u4eac-%d' % k, lambda k: 'adm' + '-1' * k, lambda k: "adm's {%d}" % k]
EXOTIC_NODES = [lambda x: x + '-\u00e9', lambda x: 'node "' + x + '"', lambda x: x + '\\port', lambda x: '\u30ce\u30fc\u30c9' + x,
                lambda x: x, lambda x: x + ':1']


def exoticize(case, rng, nodes=True, p=0.4):
    """rename graph ids (and, for the synthetic families, node ids) of a finished case, consistently in the sources, the
    histories (unmerge names a graph id) and the self-keyed delegations"""
    if rng.random() >= p:
        return case
    ren = {}
    for k, a in enumerate(case['adms']):
        f = rng.choice(EXOTIC_GIDS) if rng.random() < 0.8 else (lambda kk, g=a['gid']: g)
        new = f(k + 1)
        if new in ren.values() or new == CBM_ID:
            new = a['gid']
        ren[a['gid']] = new
    if len(set(ren.values())) != len(ren):
        return case
    nren = {}
    if nodes and rng.random() < 0.6:
        f = rng.choice(EXOTIC_NODES)
        for a in case['adms']:
            for n in a['nodes']:
                nren.setdefault(n[0], f(n[0]) if rng.random() < 0.7 else n[0])
        if len(set(nren.values())) != len(nren):
            nren = {}
    for a in case['adms']:
        old = a['gid']
        a['gid'] = ren[old]
        for n in a['nodes']:
            n[0] = nren.get(n[0], n[0])
            for f_ in (4, 5):
                if isinstance(n[f_], list):
                    n[f_] = [[ren.get(d, d), c] for d, c in n[f_]]
        for e in a['edges']:
            e[0], e[1] = nren.get(e[0], e[0]), nren.get(e[1], e[1])
    case['hists'] = [[[op[0], ren.get(op[1], op[1])] if op[0] == 'unmerge' else op for op in h] for h in case['hists']]
    case['exotic_ids'] = True
    return case


def perm_histories(nadm):
    return [[['merge', k] for k in p] for p in itertools.permutations(range(nadm))]


def inverse_histories(nadm, rng):
    """merge a subset in some order, then for one ADM not in it: merge; unmerge (and snapshot; merge; rollback)"""
    out = []
    for _ in range(2):
        ks = list(range(nadm))
        rng.shuffle(ks)
        a, rest = ks[0], ks[1:rng.randint(1, nadm)]
        base = [['merge', k] for k in rest]
        out.append(base + [['merge', a], ['unmerge', 'adm-%d' % (a + 1)]])
        if rest:
            out.append(base + [['snap'], ['merge', a], ['rollback', 0]])
            out.append(base + [['merge', a], ['unmerge', 'adm-%d' % (rest[0] + 1)], ['merge', rest[0]]])
    return out


def snapshot_histories(nadm, rng):
    """two (or three) snapshots outstanding at the same time, the combined model changed between them, rollbacks in
    both orders (to the earlier one first / to the later one first, then the earlier one)"""
    ks = list(range(nadm))
    rng.shuffle(ks)
    a, b = ks[0], ks[1]
    c = ks[2] if nadm > 2 else None
    third = [['merge', c]] if c is not None else [['unmerge', 'adm-%d' % (a + 1)]]
    out = [
        [['merge', a], ['snap'], ['merge', b], ['snap']] + third + [['rollback', 0]],
        [['merge', a], ['snap'], ['merge', b], ['snap']] + third + [['rollback', 1], ['rollback', 0]],
        [['merge', a], ['merge', b], ['snap'], ['unmerge', 'adm-%d' % (b + 1)], ['snap'], ['unmerge', 'adm-%d' % (a + 1)],
         ['rollback', 0], ['rollback', 1]],
    ]
    if c is not None:
        out.append([['merge', a], ['snap'], ['merge', b], ['snap'], ['merge', c], ['snap'], ['unmerge', 'adm-%d' % (a + 1)],
                    ['rollback', 1], ['rollback', 2], ['rollback', 0]])
    return out


# ----------------------------------------------------------------------------------------------
# Coq terms
# ----------------------------------------------------------------------------------------------
class Intern:
    def __init__(self):
        self.t = {CBM_ID: 0}

    def __call__(self, s):
        s = str(s)
        if s not in self.t:
            self.t[s] = len(self.t)
        return self.t[s]


def c_pairs(I, l):
    return clist(['(%s, %s)' % (cN(I(a)), cN(I(b))) for a, b in l])


def c_dval(I, d):
    if d is None:
        return 'DAbs'
    if d == '':
        return 'DStr0'
    return '(DDict %s)' % c_pairs(I, d)


def c_si(I, s):
    if s is None:
        return 'SAbs'
    if isinstance(s, list):
        return '(SIds %s)' % clist([cN(I(x)) for x in s])
    return '(SOther %s)' % cN(I(s))


def c_view(I, v):
    if v is None:
        return 'None'
    ns = ['(%s, %s, %s, %s, %s, %s)' % (cN(I(n[0])), cN(I(n[1])), c_pairs(I, n[2]), c_si(I, n[3]), c_dval(I, n[4]),
                                        c_dval(I, n[5])) for n in v[0]]
    # the model sorts by interned NodeID: re-sort the same way
    order = sorted(range(len(ns)), key=lambda i: I(v[0][i][0]))
    es = []
    for e in v[1]:
        a, b = sorted([I(e[0]), I(e[1])])
        es.append(((a, b), '(%s, %s, %s, %s, %s)' % (cN(a), cN(b), cN(I(e[2])), c_pairs(I, e[3]), cbool(e[4]))))
    es.sort(key=lambda x: x[0])
    return '(Some (%s, %s))' % (clist([ns[i] for i in order]), clist([t for _, t in es]))


RES_CODE = {'ok': 0, 'AssertionError': 1, 'AttributeError': 2, 'PropertyGraphQueryException': 3, 'KeyError': 4}


def c_store(I, case):
    """the initial store: the family loaded by add_graph (internal ids from 1)"""
    nodes, edges = [], []
    nxt = 1
    for ai, a in enumerate(case['adms']):
        idx = {}
        pre = ai in case.get('prerewrite', [])
        for (nid, cls, oth, si, ld, cd) in a['nodes']:
            idx[nid] = nxt
            if pre:
                ld = [[a['gid'], c] for _, c in ld] if isinstance(ld, list) else ld
                cd = [[a['gid'], c] for _, c in cd] if isinstance(cd, list) else cd
            nodes.append('mkNode %s %s %s %s %s %s %s %s' % (
                cN(nxt), cN(I(a['gid'])), cN(I(nid)), cN(I(cls)), c_pairs(I, sorted(oth)), c_si(I, canon_si(si)),
                c_dval(I, ld), c_dval(I, cd)))
            nxt += 1
        seen = {}
        for x, y, cls, oth in a['edges']:
            key = frozenset((idx[x], idx[y]))
            t = 'mkEdge %s %s %s %s false' % (cN(idx[x]), cN(idx[y]), cN(I(cls)), c_pairs(I, sorted(oth)))
            if key in seen:
                edges[seen[key]] = t
            else:
                seen[key] = len(edges)
                edges.append(t)
    return '(mkStore %s %s %s)' % (clist(nodes), clist(edges), cN(nxt))


def c_case(case, obs):
    I = Intern()
    for a in case['adms']:
        I(a['gid'])
    st = c_store(I, case)
    hs = []
    oss = []
    for hist, (src0, steps) in zip(case['hists'], obs['runs']):
        items = []
        oss.append(clist([clist([cN(I(x)) for x in (o.get('order') or [])]) for o in steps]))
        for op, o in zip(hist, steps):
            if op[0] == 'merge':
                t = 'OpMerge %s %s' % (cN(I(case['adms'][op[1]]['gid'])), cN(I(o['tmp'])))
            elif op[0] == 'unmerge':
                t = 'OpUnmerge %s' % cN(I(op[1]))
            elif op[0] == 'snap':
                t = 'OpSnap %s' % cN(I(o['ret']))
            else:
                t = 'OpRollback %s' % cN(I(o['ret']))
            ob = '(%s, %s, %s, %s, %s)' % (cN(RES_CODE.get(o['res'], 9)), c_view(I, o['cbm']), cbool(o['src_same']),
                                           cbool(o['snaps_same']), cN(o['store_n']))
            items.append('(%s, %s)' % (t, ob))
        hs.append(clist(items))
    return '((%s, %s, %s, %s), %s)' % (st, cN(0), clist([cN(I(a['gid'])) for a in case['adms']]), clist(hs), clist(oss))


# ----------------------------------------------------------------------------------------------
# the independent oracle: the property restated over implementation snapshots
# ----------------------------------------------------------------------------------------------
def wf_adm(snap):
    """every delegation property of the source is a one-entry dictionary (what rewrite_delegations insists on)"""
    for n in snap[0]:
        for d in (n[4], n[5]):
            if d is not None and not (isinstance(d, list) and len(d) == 1):
                return False
    return True


def consistent(src):
    """src: list of source snapshots.  At most one source delegates a shared node (per delegation kind): the code
    refuses the merge otherwise (C14_double_speaker_rejected).  Differing class / plain properties of a shared element
    are NOT excluded here: the code silently keeps those of whichever model was merged first (finding F4)."""
    for i, a in enumerate(src):
        for j, b in enumerate(src):
            if i >= j:
                continue
            na = {n[0]: n for n in a[0]}
            nb = {n[0]: n for n in b[0]}
            for k in set(na) & set(nb):
                if (na[k][4] is not None and nb[k][4] is not None) or (na[k][5] is not None and nb[k][5] is not None):
                    return False
    return True


def expected_union(src, gids, M, all_descriptions=False):
    """the combined model the property describes for the set M of merged sources (indices), modulo equivalence:
    [ {node id: (descriptions [(class, props)] given by the merged sources, contributor set, label delegations,
    capacity delegations)}, {pair: descriptions [(class, props)]} ]"""
    nodes, edges = {}, {}
    for k in sorted(M):
        for n in src[k][0]:
            ent = nodes.setdefault(n[0], [[], set(), None, None])
            if [n[1], n[2]] not in ent[0]:
                ent[0].append([n[1], n[2]])
            ent[1].add(gids[k])
            if n[4] is not None:
                ent[2] = [[gids[k], n[4][0][1]]]
            if n[5] is not None:
                ent[3] = [[gids[k], n[5][0][1]]]
        for e in src[k][1]:
            ent = edges.setdefault((e[0], e[1]), [])
            if [e[2], e[3]] not in ent:
                ent.append([e[2], e[3]])
    if all_descriptions:        # also accept the description given by a source that is not (or no longer) merged
        for k in range(len(src)):
            if k in M or src[k] is None:
                continue
            for n in src[k][0]:
                if n[0] in nodes and [n[1], n[2]] not in nodes[n[0]][0]:
                    nodes[n[0]][0].append([n[1], n[2]])
            for e in src[k][1]:
                if (e[0], e[1]) in edges and [e[2], e[3]] not in edges[(e[0], e[1])]:
                    edges[(e[0], e[1])].append([e[2], e[3]])
    return nodes, edges


def norm_del(d):
    return None if d in (None, '') else d


def equiv_view(snap):
    """implementation snapshot -> same shape as expected_union (adm_graph_ids as a set, '' = absent, flags dropped)"""
    if snap is None:
        return {}, {}, None
    dup = None
    nodes = {}
    for n in snap[0]:
        si = n[3] if isinstance(n[3], list) else None
        if si is None or len(set(si)) != len(si):
            dup = 'node %s has adm_graph_ids %r' % (n[0], n[3])
        nodes[n[0]] = [n[1], n[2], set(si or []), norm_del(n[4]), norm_del(n[5])]
    edges = {(e[0], e[1]): [e[2], e[3]] for e in snap[1]}
    return nodes, edges, dup


def diff_union(got, exp):
    gn, ge, dup = got
    en, ee = exp
    if dup:
        return dup
    if set(gn) != set(en):
        return 'node set differs: extra %s missing %s' % (sorted(set(gn) - set(en)), sorted(set(en) - set(gn)))
    for k in sorted(gn):
        if gn[k][2] != en[k][1]:
            return 'node %s records contributors %s, contributed by %s' % (k, sorted(gn[k][2]), sorted(en[k][1]))
        if gn[k][3] != en[k][2] or gn[k][4] != en[k][3]:
            return 'node %s delegations %s/%s, expected keyed by contributor %s/%s' % (k, gn[k][3], gn[k][4], en[k][2], en[k][3])
        if gn[k][:2] not in en[k][0]:
            return 'node %s class/properties %s, described by the merged sources as %s' % (k, gn[k][:2], en[k][0])
    if set(ge) != set(ee):
        return 'connections differ: extra %s missing %s' % (sorted(set(ge) - set(ee)), sorted(set(ee) - set(ge)))
    for k in sorted(ge):
        if ge[k] not in ee[k]:
            return 'connection %s is %s, described by the merged sources as %s' % (k, ge[k], ee[k])
    return None


def blank_descriptions(got):
    """the equivalence view with class / plain properties of nodes and connections blanked"""
    return ({k: v[2:] for k, v in got[0].items()}, sorted(got[1]))


F2 = 'F2-edge-residue: '
F4 = 'F4-order-dependent: '
F5 = 'F5-refused-merge-residue: '
F6 = 'F6-remerge-not-refused: '
F7 = 'F7-rollback-unknown-destroys: '
KNOWN_TAGS = (F2, F4, F5, F6)           # the open findings (fixed meanwhile: F1 contraction attribute 7e2b502, F3 raise after an
                                        # all-common merge 66c63a6, F7 rollback to an unknown snapshot da9eec1 - these are plain violations now)


def edge_residue(got, exp, src0, M2):
    """the combined model is exactly the expected union except for extra connections that were contributed
    (only) by sources no longer merged -> the sorted list of those connections, else None"""
    gn, ge, dup = got
    en, ee = exp
    if dup or set(gn) != set(en) or any(gn[k][2:] != en[k][1:] or gn[k][:2] not in en[k][0] for k in gn):
        return None
    extra = set(ge) - set(ee)
    if not extra or set(ee) - set(ge) or any(ge[k] not in ee[k] for k in ee):
        return None
    others = set()
    for k, s in enumerate(src0):
        if k not in M2:
            others |= {(e[0], e[1]) for e in s[1]}
    return sorted(extra) if extra <= others else None


def oracle_history(case, hist, src0, steps, by_set):
    """returns list of failure strings for one history.  by_set: contributor set -> first equivalent view seen in
    this case (shared by all histories of the case: permutation equality, merge;unmerge = id, rollback)"""
    fails = []
    gids = [a['gid'] for a in case['adms']]
    ok_family = all(s is not None and wf_adm(s) for s in src0) and consistent(src0)
    M = set()
    snapM = []          # per snapshot index: (contributor set, implementation snapshot at that time) or None
    used = set()
    prev = None
    last_cbm, last_n = None, sum(len(x[0]) for x in src0 if x)
    for i, (op, o) in enumerate(zip(hist, steps)):
        tag = 'step %d %s: ' % (i, op)
        if o.get('prerw'):
            fails.append('before the history: ' + o['prerw'])
        # a refusal must change nothing (the combined model, and the store: the temporary clone must not stay)
        if op[0] == 'merge' and o['res'] not in ('ok',) and not o['res'].startswith('driver'):
            if o['cbm'] != last_cbm:
                fails.append(F5 + tag + 'the merge raised %s but the combined model changed (the common nodes met before '
                             'the offending one are already merged)' % o['res'])
            elif o['store_n'] != last_n:
                fails.append(F5 + tag + 'the merge raised %s and left its temporary clone in the store (%d nodes more)' % (
                    o['res'], o['store_n'] - last_n))
        last_cbm, last_n = o['cbm'], o['store_n']
        if not o['src_same']:
            fails.append(tag + 'a source model was altered')
        if not o['snaps_same']:
            fails.append(tag + 'a snapshot was altered')
        if not ok_family:
            if o['res'] != 'ok':
                break
            prev = o['cbm']
            continue
        # is the operation inside the documented domain?
        sensible = True
        if op[0] == 'merge':
            sensible = op[1] not in M
        elif op[0] == 'unmerge':
            sensible = prev is not None
        elif op[0] == 'snap':
            sensible = prev is not None
        elif op[0] == 'rollback':
            sensible = op[1] < len(snapM) and snapM[op[1]] is not None and op[1] not in used
        if not sensible:
            if op[0] == 'merge' and (o['res'] == 'ok' or o['cbm'] != prev):
                fails.append(F6 + tag + 'merging a model that is already merged %s' % (
                    'is not refused: it is recorded twice' if o['res'] == 'ok' else 'raised %s and changed the combined model' % o['res']))
            if op[0] == 'rollback' and o['cbm'] != prev:
                fails.append(F7 + tag + 'rollback to an unknown or already used snapshot id raised %s after deleting the '
                             'combined model' % o['res'])
            break
        if op[0] == 'merge':
            M2 = M | {op[1]}
        elif op[0] == 'unmerge':
            M2 = M - {k for k in M if gids[k] == op[1]}
        elif op[0] == 'rollback':
            M2 = set(snapM[op[1]][0])
        else:
            M2 = set(M)
        got = equiv_view(o['cbm'])
        d = diff_union(got, expected_union(src0, gids, M2))
        if o['res'] != 'ok':
            fails.append(tag + 'raised %s' % o['res'])
            break
        if op[0] == 'snap':
            snapM.append((set(M), copy.deepcopy(o['cbm'])) if o['res'] == 'ok' else None)
        if d:
            # the two known ways of falling short may occur together: judge the connection residue while accepting
            # descriptions given by models that are not (or no longer) merged
            exp_all = expected_union(src0, gids, M2, all_descriptions=True)
            res_e = edge_residue(got, exp_all, src0, M2)
            stale = None if res_e else diff_union(got, exp_all)
            if not res_e and stale is None:
                fails.append(F4 + tag + 'an element keeps the class / plain properties given by a model that is no longer '
                             'merged: ' + d)
                M = M2
                prev = o['cbm']
                if op[0] == 'rollback':
                    used.add(op[1])
                continue
            if res_e:
                fails.append(F2 + tag + 'connections %s, contributed only by models that are no longer merged, stay in '
                             'the combined model (merged: %s)' % (res_e, sorted(gids[k] for k in M2)))
            else:
                fails.append(tag + 'combined model is not the union of the merged sources %s: %s' % (
                    sorted(gids[k] for k in M2), d))
            break
        if o['cbm'] is not None:
            for e in o['cbm'][1]:
                if e[4]:
                    fails.append(tag + "connection %s-%s carries networkx's 'contraction' attribute (a shared "
                                 "connection must appear once, as it was)" % (e[0], e[1]))
                    break
        # same contributor set => same combined model (order independence, merge;unmerge = id, rollback)
        key = frozenset(M2)
        if key in by_set:
            if by_set[key][0][:2] != got[:2]:
                if blank_descriptions(by_set[key][0]) == blank_descriptions(got):
                    dk = sorted(k for k in got[0] if got[0][k][:2] != by_set[key][0][0][k][:2]) + \
                        sorted('%s-%s' % k for k in got[1] if got[1][k] != by_set[key][0][1][k])
                    fails.append(F4 + tag + 'class / plain properties of %s (described differently by the sources) differ '
                                 'from the combined model for the same contributors %s reached by %s' % (
                                     dk[:4], sorted(gids[k] for k in M2), by_set[key][1]))
                else:
                    fails.append(tag + 'combined model for contributors %s differs from the one reached by %s' % (
                        sorted(gids[k] for k in M2), by_set[key][1]))
        else:
            by_set[key] = (got, '%s[:%d]' % (hist, i + 1))
        if op[0] == 'rollback':
            used.add(op[1])
            if o['cbm'] != snapM[op[1]][1]:
                fails.append(tag + 'rollback did not restore the combined model of the snapshot')
        if op[0] == 'unmerge' and i > 0 and hist[i - 1][0] == 'merge' and gids[hist[i - 1][1]] == op[1] and i >= 1:
            before = steps[i - 2]['cbm'] if i >= 2 else None
            if equiv_view(before)[:2] != got[:2]:
                fails.append(tag + 'merge followed by unmerge did not restore the previous combined model')
        M = M2
        prev = o['cbm']
    return fails


# ----------------------------------------------------------------------------------------------
# the stream
# ----------------------------------------------------------------------------------------------
class Histories(Stream):
    name = 'histories'
    header = ('From Coq Require Import List NArith Bool.\nImport ListNotations.\n'
              'From FIM Require Import Model.Cbm14Store Model.Cbm14Check Model.Cbm14Spec Model.Cbm14SpecCheck.\n')
    case_type = 'ocase'
    check_fn = 'check_ocase_both'
    shard = 40
    rule = ('one case = a family of 1-4 delegation models sharing up to 5 stitch nodes + 3-30 histories (random '
            'interleavings of merge/unmerge/snapshot/rollback up to 12 steps, all merge permutations, merge;unmerge and '
            'snapshot;merge;rollback probes, two or three snapshots outstanding with rollbacks in both orders); non-trivial = at least two sources share a node and some history merges '
            'two of them; distinct by family and histories')

    def gen(self, rng, tier):
        n = 110 if tier == 'quick' else 1000
        out = []
        for i in range(n):
            fam = gen_family(rng)
            k = len(fam['adms'])
            hs = [gen_history(rng, k) for _ in range(3)]
            r = rng.random()
            if r < (0.35 if tier == 'quick' else 0.5) or i < 12:
                hs += perm_histories(k)
            if r > 0.5 and k >= 2:
                hs += inverse_histories(k, rng)
            if k >= 2 and (i % 3 == 0 or i < 12):
                hs += snapshot_histories(k, rng)
            fam['hists'] = hs
            out.append(exoticize(fam, rng))
        return out

    def corpus(self):
        out = list(CORPUS)
        d = os.path.join(VERIF, 'corpus', 'C14')
        if os.path.isdir(d):
            for p in sorted(glob.glob(os.path.join(d, '*.json'))):
                with open(p) as f:
                    out.append(json.load(f))
        return out

    def observe(self, case):
        runs = []
        for h in case['hists']:
            try:
                runs.append(run_history(case, h))
            except Exception as e:      # the driver itself failed (never expected)
                runs.append(([None] * len(case['adms']), [{'res': 'driver:' + type(e).__name__, 'ret': 'u-none',
                                                          'cbm': None, 'src_same': False, 'snaps_same': False,
                                                          'store_n': 0, 'tmp': 'u-none'}] * len(h)))
        return {'runs': runs}

    def to_coq(self, case, obs):
        return c_case(case, obs)

    def all_failures(self, case, obs):
        by_set = {}
        fails = []
        for h, (src0, steps) in zip(case['hists'], obs['runs']):
            fails += ['%s' % f for f in oracle_history(case, h, src0, steps, by_set)]
        return fails

    def oracle(self, case, obs):
        # bookkeeping for known_signature (see there)
        calls = self.__dict__.setdefault('_oracle_calls', {})
        calls[id(case)] = calls.get(id(case), 0) + 1
        self._last_oracle_case = id(case)
        fails = self.all_failures(case, obs)
        new = [f for f in fails if not f.startswith(KNOWN_TAGS)]
        if new:
            return new[0]
        return fails[0] if fails else None

    def known_signature(self, case, obs, why):
        """The known findings F2 / F4 are failures of the PROPERTY that both models reproduce exactly; they explain an
        oracle failure, never a disagreement between the Coq models and the implementation.  The generic driver asks
        `is_known(case, oracle(case))` both for oracle failures (oracle evaluated once per case) and for model
        disagreements (it re-evaluates the oracle of that case just before asking): the second situation is recognised
        by the call count and answered with a text no known-finding signature matches, so that a disagreement on a case
        that also shows F2 / F4 is still reported."""
        if getattr(self, '_oracle_calls', {}).get(id(case), 0) >= 2 and getattr(self, '_last_oracle_case', None) == id(case):
            return 'MODEL-DISAGREEMENT (not excused by a known finding); oracle says: %s' % (why or 'nothing')
        return why or ''

    def key(self, case, obs):
        ids = [set(n[0] for n in a['nodes']) for a in case['adms']]
        share = any(ids[i] & ids[j] for i in range(len(ids)) for j in range(i))
        two = any(sum(1 for o, s in zip(h, st) if o[0] == 'merge' and s['res'] == 'ok') >= 2
                  for h, (_, st) in zip(case['hists'], obs['runs']))
        if share and two:
            return stable_hash([case['adms'], case['hists']])
        return None

    def histogram(self, cases, obs):
        h = collections.Counter()
        for c, o in zip(cases, obs):
            h['mode_' + c.get('mode', 'corpus')] += 1
            h['families_delegation_id_is_graph_id'] += bool(c.get('selfid'))
            h['families_pre_rewritten'] += bool(c.get('prerewrite'))
            h['families_exotic_ids'] += bool(c.get('exotic_ids'))
            h['adms_%d' % len(c['adms'])] += 1
            h['histories'] += len(c['hists'])
            for hist, (_, steps) in zip(c['hists'], o['runs']):
                prev = None
                if sum(1 for op in hist if op[0] == 'snap') >= 2 and any(op[0] == 'rollback' for op in hist):
                    h['histories_two_or_more_snapshots_and_rollback'] += 1
                for op, s in zip(hist, steps):
                    h['op_%s_%s' % (op[0], 'ok' if s['res'] == 'ok' else s['res'])] += 1
                    if s['cbm'] is not None:
                        h['cbm_nodes_%02d+' % (len(s['cbm'][0]) // 4 * 4)] += 1
                        if any(e[4] for e in s['cbm'][1]):
                            h['steps_with_contraction'] += 1
                        if any(isinstance(n[3], list) and len(n[3]) >= 2 for n in s['cbm'][0]):
                            h['steps_with_shared_node'] += 1
            fails = self.all_failures(c, o)
            h['cases_F2_edge_residue'] += any(f.startswith(F2) for f in fails)
            h['cases_F4_order_dependent'] += any(f.startswith(F4) for f in fails)
            h['cases_F5_refused_merge_residue'] += any(f.startswith(F5) for f in fails)
            h['cases_F6_remerge'] += any(f.startswith(F6) for f in fails)
            h['cases_F7_rollback_unknown'] += any(f.startswith(F7) for f in fails)
        return dict(sorted(h.items()))

    def describe(self, case, obs):
        h = case['hists'][0]
        return {'family': [{'gid': a['gid'], 'nodes': [n[0] for n in a['nodes']], 'edges': [e[:3] for e in a['edges']]}
                           for a in case['adms']], 'mode': case.get('mode'),
                'first_history': h, 'results': [s['res'] for s in obs['runs'][0][1]],
                'final_combined': obs['runs'][0][1][-1]['cbm'] if obs['runs'][0][1] else None}

    @staticmethod
    def kind(msg):
        """what sort of failure (the step prefix and the details dropped)"""
        if msg is None:
            return None
        if msg.startswith(KNOWN_TAGS):
            return msg[:3]
        m = re.sub(r'^step \d+ \[.*?\]: ', '', msg)
        return ' '.join(m.split()[:4])

    def shrink(self, case, failing):
        case = copy.deepcopy(case)
        kind0 = self.kind(self.oracle(case, self.observe(case)))

        def attempt(c2):
            # keep the same sort of failure while shrinking (never slide into a known finding)
            try:
                return self.kind(self.oracle(c2, self.observe(c2))) == kind0
            except Exception:
                return False
        # 1. histories: keep as few as possible
        if len(case['hists']) > 1:
            for h in case['hists']:
                c2 = dict(case, hists=[h])
                if attempt(c2):
                    case = c2
                    break
            else:
                for a, b in itertools.combinations(range(len(case['hists'])), 2):
                    c2 = dict(case, hists=[case['hists'][a], case['hists'][b]])
                    if attempt(c2):
                        case = c2
                        break
        # 2. operations
        changed = True
        while changed:
            changed = False
            for hi in range(len(case['hists'])):
                for i in reversed(range(len(case['hists'][hi]))):
                    h2 = case['hists'][hi][:i] + case['hists'][hi][i + 1:]
                    if any(op[0] == 'rollback' for op in h2) and case['hists'][hi][i][0] == 'snap':
                        continue
                    if not h2:
                        continue
                    c2 = copy.deepcopy(case)
                    c2['hists'][hi] = h2
                    if attempt(c2):
                        case = c2
                        changed = True
        # 3. nodes (with their edges), edges, properties
        for ai in range(len(case['adms'])):
            for n in list(case['adms'][ai]['nodes']):
                c2 = copy.deepcopy(case)
                a = c2['adms'][ai]
                if len(a['nodes']) <= 1:
                    break
                a['nodes'] = [m for m in a['nodes'] if m[0] != n[0]]
                a['edges'] = [e for e in a['edges'] if n[0] not in (e[0], e[1])]
                if attempt(c2):
                    case = c2
            for e in list(case['adms'][ai]['edges']):
                c2 = copy.deepcopy(case)
                c2['adms'][ai]['edges'] = [x for x in c2['adms'][ai]['edges'] if x != e]
                if attempt(c2):
                    case = c2
            for ni in range(len(case['adms'][ai]['nodes'])):
                for f, v in ((2, []), (3, None), (4, None), (5, None)):
                    if case['adms'][ai]['nodes'][ni][f] != v:
                        c2 = copy.deepcopy(case)
                        c2['adms'][ai]['nodes'][ni][f] = v
                        if attempt(c2):
                            case = c2
        return case


# ----------------------------------------------------------------------------------------------
# the real advertisements: the repository's own substrate tests build the RENCI / UKY / LBNL / Network site models
# (test/substrate_topology_test.py writes them as GraphML), the real generate_adms turns each into its delegation
# model(s); these four are the one fixed set the (Neo4j-only) suite merges in one order
# ----------------------------------------------------------------------------------------------
_REAL = {}


def real_family():
    if 'fam' in _REAL:
        return _REAL['fam']
    fam = None
    import tempfile, unittest, io, contextlib
    d = tempfile.mkdtemp(prefix='c14_ads_')
    cwd = os.getcwd()
    tdir = os.path.join(REPO, 'test')
    try:
        os.chdir(d)
        sys.path.insert(0, tdir)
        import substrate_topology_test as stt
        with contextlib.redirect_stdout(io.StringIO()):
            suite = unittest.TestSuite([stt.AdTest(m) for m in ('testRENCSiteAd', 'testUKYSiteAd', 'testLBNLSiteAd',
                                                                'testNetworkAd')])
            r = unittest.TextTestRunner(stream=io.StringIO()).run(suite)
        if not r.wasSuccessful():
            raise RuntimeError('substrate tests failed')
        I = impl()
        from fim.graph.networkx_property_graph import NetworkXPropertyGraph
        from fim.graph.resources.networkx_arm import NetworkXARMGraph
        imp = I['Importer']()
        imp.delete_all_graphs()
        adms = []
        for f in ('RENCI-ad.graphml', 'UKY-ad.graphml', 'LBNL-ad.graphml', 'Network-ad.graphml'):
            g = imp.import_graph_from_file_direct(graph_file=f)
            arm = NetworkXARMGraph(graph=NetworkXPropertyGraph(graph_id=g.graph_id, importer=imp))
            for k, a in sorted(arm.generate_adms().items()):
                gr = imp.storage.extract_graph(a.graph_id)
                nodes, edges = [], []
                for n, dd in gr.nodes(data=True):
                    oth = sorted([kk, str(v)] for kk, v in dd.items() if kk not in SPECIAL)
                    nodes.append([dd['NodeID'], dd['Class'], oth, dd.get('StructuralInfo'),
                                  canon_del(dd.get('LabelDelegations')), canon_del(dd.get('CapacityDelegations'))])
                for x, y, dd in gr.edges(data=True):
                    edges.append([gr.nodes[x]['NodeID'], gr.nodes[y]['NodeID'], dd.get('Class'),
                                  sorted([kk, str(v)] for kk, v in dd.items() if kk != 'Class')])
                adms.append({'gid': 'adm-%d' % (len(adms) + 1), 'from': '%s/%s' % (f, k), 'nodes': nodes, 'edges': edges})
        imp.delete_all_graphs()
        fam = {'adms': adms, 'mode': 'real-advertisements'}
    except Exception as e:
        _REAL['err'] = repr(e)
    finally:
        os.chdir(cwd)
        if tdir in sys.path:
            sys.path.remove(tdir)
        shutil.rmtree(d, ignore_errors=True)
    _REAL['fam'] = fam
    return fam


def N(nid, cls, oth=None, si=None, ld=None, cd=None):
    return [nid, cls, oth or [], si, ld, cd]


# hand-written cases that are always run first (the risk spots named in DESIGN.md / found while building)
CORPUS = [
    # two ADMs sharing two ADJACENT stitch nodes (second contraction meets an existing edge)
    {'mode': 'corpus-adjacent', 'adms': [
        {'gid': 'adm-1', 'nodes': [N('s1', 'ConnectionPoint', [['StitchNode', 'true']]), N('s2', 'Link', [['StitchNode', 'true']]),
                                   N('p1-1', 'NetworkNode', cd=[['del1', 'c1']])],
         'edges': [['s1', 's2', 'connects', []], ['p1-1', 's1', 'has', []]]},
        {'gid': 'adm-2', 'nodes': [N('s1', 'ConnectionPoint', [['StitchNode', 'true']]), N('s2', 'Link', [['StitchNode', 'true']]),
                                   N('p2-1', 'NetworkNode', cd=[['del1', 'c2']], ld=[['del1', 'l1']])],
         'edges': [['s1', 's2', 'connects', []], ['p2-1', 's2', 'has', []]]}],
     'hists': [[['merge', 0], ['merge', 1]], [['merge', 1], ['merge', 0]],
               [['merge', 0], ['merge', 1], ['unmerge', 'adm-2']],
               [['merge', 0], ['snap'], ['merge', 1], ['rollback', 0]],
               [['merge', 0], ['snap'], ['merge', 1], ['snap'], ['unmerge', 'adm-1'], ['rollback', 0]],
               [['merge', 0], ['snap'], ['merge', 1], ['snap'], ['unmerge', 'adm-1'], ['rollback', 1], ['rollback', 0]],
               [['merge', 0], ['merge', 1], ['unmerge', 'adm-1'], ['unmerge', 'adm-2'], ['merge', 1]]]},
    # an emptied combined model: graph_exists() is False again, unmerge / snapshot of it raise
    {'mode': 'corpus-emptied', 'adms': [
        {'gid': 'adm-1', 'nodes': [N('s1', 'ConnectionPoint'), N('p1-1', 'NetworkNode', cd=[['del1', 'c1']])],
         'edges': [['p1-1', 's1', 'has', []]]}],
     'hists': [[['merge', 0], ['unmerge', 'adm-1'], ['unmerge', 'adm-1']], [['unmerge', 'adm-1']], [['snap']],
               [['merge', 0], ['unmerge', 'adm-1'], ['merge', 0]],
               [['merge', 0], ['snap'], ['rollback', 0], ['rollback', 0]]]},
    # a shared resource whose delegation comes from the second / first source; unmerge of the speaker
    {'mode': 'corpus-speaker', 'adms': [
        {'gid': 'adm-1', 'nodes': [N('s1', 'ConnectionPoint', [['Name', 'x']]), N('p1-1', 'Component')], 'edges': []},
        {'gid': 'adm-2', 'nodes': [N('s1', 'ConnectionPoint', [['Name', 'x']], ld=[['del2', 'l2']], cd=[['del2', 'c3']]),
                                   N('p2-1', 'Component')], 'edges': [['s1', 'p2-1', 'connects', []]]},
        {'gid': 'adm-3', 'nodes': [N('s1', 'ConnectionPoint', [['Name', 'x']])], 'edges': []}],
     'hists': [[['merge', 0], ['merge', 1], ['unmerge', 'adm-2'], ['merge', 1], ['unmerge', 'adm-1']],
               [['merge', 1], ['merge', 0], ['merge', 2], ['unmerge', 'adm-2']],
               [['merge', 0], ['merge', 2]]] + perm_histories(3)},
    # the delegation id coincides with the model's graph id (re-keying old id = new id must be the identity)
    {'mode': 'corpus-selfid', 'selfid': True, 'adms': [
        {'gid': 'adm-1', 'nodes': [N('s1', 'ConnectionPoint', ld=[['adm-1', 'l1']]), N('p1-1', 'NetworkNode', cd=[['adm-1', 'c2']])],
         'edges': [['s1', 'p1-1', 'has', []]]},
        {'gid': 'adm-2', 'nodes': [N('s1', 'ConnectionPoint'), N('p2-1', 'NetworkNode', cd=[['adm-2', 'c1']], ld=[['del1', 'l2']])],
         'edges': [['s1', 'p2-1', 'has', []]]}],
     'hists': [[['merge', 0], ['merge', 1]], [['merge', 1], ['merge', 0], ['unmerge', 'adm-1'], ['merge', 0]]]},
    # graph / node / delegation ids with non-ASCII characters, quotes, backslashes, and ids that contain one another
    {'mode': 'corpus-exotic-ids', 'exotic_ids': True, 'adms': [
        {'gid': 'adm-net-Z\u00fcrich', 'nodes': [N('s1 "\u00e9"', 'ConnectionPoint', cd=[['d\u00e9l "4"', 'c1']]), N('s1', 'Link'),
                                            N('p\\1', 'NetworkNode')],
         'edges': [['s1 "\u00e9"', 's1', 'connects', []], ['p\\1', 's1', 'has', []]]},
        {'gid': 'adm "site" RENC', 'nodes': [N('s1 "\u00e9"', 'ConnectionPoint'), N('s1', 'Link'), N('\u30ce\u30fc\u30c92', 'NetworkNode', ld=[['del', 'l2']])],
         'edges': [['s1 "\u00e9"', 's1', 'connects', []], ['\u30ce\u30fc\u30c92', 's1 "\u00e9"', 'has', []]]},
        {'gid': 'adm', 'nodes': [N('s1', 'Link'), N('p3', 'NetworkNode', cd=[['adm', 'c2']])], 'edges': [['p3', 's1', 'has', []]]},
        {'gid': 'adm-site\\RENC', 'nodes': [N('s1', 'Link'), N('p4', 'NetworkNode')], 'edges': [['p4', 's1', 'has', []]]}],
     'hists': [[['merge', 0], ['merge', 1], ['unmerge', 'adm "site" RENC'], ['unmerge', 'adm-net-Z\u00fcrich']],
               [['merge', 1], ['merge', 2], ['merge', 3], ['merge', 0], ['unmerge', 'adm'], ['unmerge', 'adm-site\\RENC'],
                ['unmerge', 'adm-net-Z\u00fcrich'], ['merge', 2]],
               [['merge', 3], ['snap'], ['merge', 0], ['unmerge', 'adm-site\\RENC'], ['rollback', 0], ['unmerge', 'adm-site\\RENC']]]},
    # sources re-keyed by the public rewrite_delegations() before they are merged
    {'mode': 'corpus-prerewrite', 'prerewrite': [0, 1], 'adms': [
        {'gid': 'adm-1', 'nodes': [N('s1', 'ConnectionPoint', ld=[['del1', 'l1']]), N('p1-1', 'NetworkNode', cd=[['del2', 'c2']])],
         'edges': [['s1', 'p1-1', 'has', []]]},
        {'gid': 'adm-2', 'nodes': [N('s1', 'ConnectionPoint'), N('p2-1', 'NetworkNode', cd=[['adm-2', 'c1']])],
         'edges': [['s1', 'p2-1', 'has', []]]}],
     'hists': [[['merge', 0], ['merge', 1]], [['merge', 1], ['merge', 0], ['unmerge', 'adm-1'], ['merge', 0]]]},
]


class RealModels(Histories):
    name = 'real'
    shard = 1
    rule = ('the four advertisements (RENCI, UKY, LBNL, Network) built by test/substrate_topology_test.py, turned into '
            'delegation models by the real generate_adms (66-95 nodes each, the network model shares 13 nodes with each '
            'site); merge permutations (4 in quick, all 24 in thorough) and interleavings with unmerge/snapshot/rollback; '
            'non-trivial = always; distinct by histories')

    def gen(self, rng, tier):
        fam = real_family()
        if fam is None:
            log('C14: the real advertisements could not be built: %s' % _REAL.get('err'))
            return []
        k = len(fam['adms'])
        perms = perm_histories(k)
        if tier == 'quick':
            hs = [perms[0], perms[-1]] + rng.sample(perms[1:-1], 2) + [gen_history(rng, k, 8)] + inverse_histories(k, rng)[:3] + \
                snapshot_histories(k, rng)[:2]
            return [dict(copy.deepcopy(fam), hists=hs),
                    exoticize(dict(copy.deepcopy(fam), prerewrite=list(range(k)),
                                   hists=[perms[0], perms[-1]] + inverse_histories(k, rng)[:1]), rng, nodes=False, p=1.0)]
        out = []
        for i in range(0, len(perms), 6):
            out.append(exoticize(dict(copy.deepcopy(fam), hists=perms[i:i + 6] + [gen_history(rng, k, 12)] + inverse_histories(k, rng) +
                                      snapshot_histories(k, rng), **({'prerewrite': list(range(k))} if i == 6 else {})),
                                 rng, nodes=False, p=0.5))
        return out

    def corpus(self):
        return []

    def key(self, case, obs):
        return stable_hash([case['hists'], case.get('prerewrite')])

    def describe(self, case, obs):
        return {'family': [{'gid': a['gid'], 'from': a.get('from'), 'nodes': len(a['nodes']), 'edges': len(a['edges'])}
                           for a in case['adms']],
                'first_history': case['hists'][0], 'results': [s['res'] for s in obs['runs'][0][1]],
                'final_combined_nodes': len(obs['runs'][0][1][-1]['cbm'][0]) if obs['runs'][0][1][-1]['cbm'] else 0}

    def shrink(self, case, failing):
        # keep the real models; reduce to one history and drop operations
        case = copy.deepcopy(case)
        kind0 = self.kind(self.oracle(case, self.observe(case)))

        def attempt(c2):
            try:
                return self.kind(self.oracle(c2, self.observe(c2))) == kind0
            except Exception:
                return False
        for h in case['hists']:
            c2 = dict(case, hists=[h])
            if attempt(c2):
                case = c2
                break
        if len(case['hists']) == 1:
            changed = True
            while changed:
                changed = False
                for i in reversed(range(len(case['hists'][0]))):
                    h2 = case['hists'][0][:i] + case['hists'][0][i + 1:]
                    if not h2 or (any(op[0] == 'rollback' for op in h2) and case['hists'][0][i][0] == 'snap'):
                        continue
                    c2 = dict(case, hists=[h2])
                    if attempt(c2):
                        case = c2
                        changed = True
        return case


# ----------------------------------------------------------------------------------------------
# families from the REAL partitioner: random substrate models built and annotated by C13's generator
# (harness/c13.py, imported - not copied), partitioned by the real generate_adms; every partition becomes a source
# ----------------------------------------------------------------------------------------------
def extract_graph_case(imp, gid, new_gid):
    gr = imp.storage.extract_graph(gid)
    nodes, edges = [], []
    for n, dd in gr.nodes(data=True):
        oth = sorted([kk, str(v)] for kk, v in dd.items() if kk not in SPECIAL)
        nodes.append([dd['NodeID'], dd['Class'], oth, dd.get('StructuralInfo'),
                      canon_del(dd.get('LabelDelegations')), canon_del(dd.get('CapacityDelegations'))])
    for x, y, dd in gr.edges(data=True):
        edges.append([gr.nodes[x]['NodeID'], gr.nodes[y]['NodeID'], dd.get('Class'),
                      sorted([kk, str(v)] for kk, v in dd.items() if kk != 'Class')])
    return {'gid': new_gid, 'nodes': nodes, 'edges': edges}


def partition_family(rng, big=False):
    """-> family dict (sources = the partitions, 'dids' = their delegation ids, 'arm' = snapshot of the aggregate) or None"""
    from . import c13
    impl()
    recipe = c13.Topo().recipe(rng, big)
    c13._reset()
    arm = c13.build_topo(copy.deepcopy(recipe))
    snap = c13.snapshot(arm.storage, arm.graph_id)
    nodes = {nid: (v['Class'], v['Stitch'] == 'true') for nid, v in snap['nodes'].items()}
    k = rng.choice([1, 2, 2, 3, 3])
    recipe['via'] = rng.choice(['annotate', 'direct'])
    recipe['ann'] = c13.gen_annotations(rng, nodes, k, recipe['via'])
    c13.annotate(arm, recipe, set(snap['nodes'].keys()))
    imp = arm.importer
    arm_snap = snapshot(imp, arm.graph_id)
    try:
        parts = arm.generate_adms()
    except Exception:
        c13._reset()
        return None
    dids = sorted(parts.keys())
    if not dids:
        c13._reset()
        return None
    adms = [extract_graph_case(imp, parts[d].graph_id, 'adm-%d' % (i + 1)) for i, d in enumerate(dids)]
    c13._reset()
    return {'adms': adms, 'mode': 'partitions', 'dids': dids, 'arm': arm_snap, 'recipe': recipe}


class Partitions(Histories):
    name = 'partitions'
    shard = 4
    check_fn = 'check_ocase_part'
    rule = ('families produced by the real generate_adms from random substrate models of C13\'s generator (1-2 sites, workers, '
            'components, switches, facilities, links; 1-3 delegation ids, single and pooled): all merge orders of the '
            'partitions, merge;unmerge;re-merge, snapshot/rollback probes, one random interleaving; end-to-end clause: after '
            'merging ALL partitions in any order the combined model is determined by the aggregate (node properties = the '
            'aggregate\'s, every delegation of a merged id present keyed by its partition); Coq also checks that any two '
            'partitions describe common nodes / connections identically (partition_domain) and the refinement domain '
            '(refine_hyp); non-trivial = at least two partitions sharing a node; distinct by aggregate and histories')

    def gen(self, rng, tier):
        n = 14 if tier == 'quick' else 150
        out = []
        tries = 0
        while len(out) < n and tries < 4 * n:
            tries += 1
            fam = partition_family(rng, big=(tier != 'quick' and tries % 3 == 0))
            if fam is None:
                continue
            k = len(fam['adms'])
            hs = perm_histories(k) + [gen_history(rng, k, 8)]
            if k >= 2:
                hs += inverse_histories(k, rng)[:3] + snapshot_histories(k, rng)[:1]
            fam['hists'] = hs
            out.append(exoticize(fam, rng, nodes=False))
        return out

    def corpus(self):
        return []

    def all_failures(self, case, obs):
        fails = Histories.all_failures(self, case, obs)
        # end-to-end: merging ALL partitions, in any order, gives what the aggregate says
        arm = case.get('arm')
        if not arm:
            return fails
        an = {n[0]: n for n in arm[0]}
        gids = [a['gid'] for a in case['adms']]
        by_did = dict(zip(case['dids'], gids))
        k = len(gids)
        for h, (src0, steps) in zip(case['hists'], obs['runs']):
            if len(h) != k or sorted(op[1] for op in h if op[0] == 'merge') != list(range(k)):
                continue
            if any(s['res'] != 'ok' for s in steps):
                continue          # two partitions delegate one resource: refused as documented
            cbm = steps[-1]['cbm']
            tag = 'all partitions merged in order %s: ' % [op[1] for op in h]
            if cbm is None:
                fails.append(tag + 'the combined model holds no node')
                continue
            got = {n[0]: n for n in cbm[0]}
            for nid, n in got.items():
                a = an.get(nid)
                if a is None:
                    fails.append(tag + 'node %s is not in the aggregate model' % nid)
                    break
                if [n[1], n[2]] != [a[1], a[2]]:
                    fails.append(tag + 'node %s class/properties %s, the aggregate has %s' % (nid, [n[1], n[2]], [a[1], a[2]]))
                    break
                for f, nm in ((4, 'label'), (5, 'capacity')):
                    want = None
                    if isinstance(a[f], list):
                        ent = [[by_did[d], c] for d, c in a[f] if d in by_did]
                        want = ent or None
                    if norm_del(n[f]) != want:
                        fails.append(tag + 'node %s %s delegations %s, the aggregate delegates %s' % (nid, nm, n[f], want))
                        break
            for nid, a in an.items():
                if nid not in got and any(isinstance(a[f], list) and a[f] for f in (4, 5)):
                    fails.append(tag + 'node %s is delegated in the aggregate but missing from the combined model' % nid)
                    break
        return fails

    def key(self, case, obs):
        ids = [set(n[0] for n in a['nodes']) for a in case['adms']]
        if any(ids[i] & ids[j] for i in range(len(ids)) for j in range(i)):
            return stable_hash([case['arm'], case['hists']])
        return None

    def histogram(self, cases, obs):
        h = collections.Counter(Histories.histogram(self, cases, obs))
        for c, o in zip(cases, obs):
            h['partitions_%d' % len(c['adms'])] += 1
            h['aggregate_nodes_%03d+' % (len(c['arm'][0]) // 20 * 20)] += 1
            full = [st for hh, (_, st) in zip(c['hists'], o['runs']) if len(hh) == len(c['adms']) and all(op[0] == 'merge' for op in hh)]
            if full and all(all(s['res'] == 'ok' for s in st) for st in full):
                h['families_all_partitions_mergeable'] += 1
            elif full:
                h['families_refused_two_partitions_delegate_one_resource'] += 1
        return dict(sorted(h.items()))

    def describe(self, case, obs):
        return {'aggregate_nodes': len(case['arm'][0]), 'delegation_ids': case['dids'],
                'partitions': [{'gid': a['gid'], 'nodes': len(a['nodes']), 'edges': len(a['edges'])} for a in case['adms']],
                'first_history': case['hists'][0], 'results': [s['res'] for s in obs['runs'][0][1]]}

    def shrink(self, case, failing):
        return RealModels.shrink(self, case, failing)


class C14(Check):
    pid = 'C14'
    translators = ['gen_cbm14']     # Gen/Cbm14Gen.v: statement order of ABCCBMPropertyGraph.rollback (behaviour flag of the model)
    model_targets = ['Model/Cbm14Store.vo', 'Model/Cbm14Check.vo', 'Model/Cbm14Spec.vo', 'Model/Cbm14SpecCheck.vo']
    streams = [Histories(), RealModels(), Partitions()]
    trusted_base = [
        'Coq 8.16.1 kernel (coqc), vm_compute for the correspondence evaluation; no native_compute',
        'Print Assumptions of every C14 theorem: Closed under the global context (no axioms)',
        'translator/gen_cbm14.py (Python ast -> Gen/Cbm14Gen.v: which of delete_graph / cast_graph comes first in rollback), fail-closed',
        'harness/c14.py + harness/common.py: the borrowing class MemCBM (merge_adm, unmerge_adm, _update_node_delegations of '
        'Neo4jCBMGraph run over NetworkXPropertyGraph), neo4j_cbm.Neo4jADMGraph := NetworkXADMGraph, counter in place of uuid4, '
        'canonical snapshots, interning of strings to N, cases.v writer',
        'modelled not verified: networkx Graph (node/edge dictionaries, contracted_nodes, to_dict_of_dicts/from_dict_of_dicts, '
        'convert_node_labels_to_integers), networkx_query search by GraphID/NodeID, Delegations.from_json/to_json and '
        'StructuralInfo.from_json/to_json as the identity on canonical contents (C12/C03 territory), Python set iteration '
        'order in the common-node loop (shown irrelevant by the tie, not proved)',
        'the Neo4j execution of the same methods is out of reach (no server) and is not claimed',
    ]
    assumptions = [
        'node ids are unique inside each delegation model; no self-loops; every delegation property of a source is a '
        'one-entry dictionary (rewrite_delegations raises otherwise - modelled)',
        'consistent family: a node id shared by two sources has the same class and plain properties in both, at most one '
        'source delegates it per delegation kind (the code raises otherwise - modelled), a connection described by two '
        'sources has the same class and properties in both',
        'unmerge restores the previous combined model only when the unmerged model brought no connection between two '
        'elements that stay (connections carry no contributor record: known finding F2)',
        "equivalence of combined models: adm_graph_ids compared as a set, a delegation property that is absent and one "
        "that is '' (what unmerge writes) are the same observable",
        'unmerge / snapshot of a combined model without nodes raise (loud failure, modelled); merging a source twice and '
        'rolling back to an unknown or already used snapshot are outside the documented domain (modelled, not claimed)',
    ]

    def refuted_witnesses(self):
        return [('C14_unmerge_edge_refuted', witness_edge), ('C14_order_refuted', witness_order),
                ('C14_refused_merge_refuted', witness_refused), ('C14_remerge_refuted', witness_remerge),
                ('C14_rollback_unknown_refuted', witness_rollback_unknown)]


def witness_edge():
    """Proofs/Cbm14Dec.v unmerge_inverse_edge_refuted: B1 has s1, B3 has s2, B2 has both and the connection between
    them (a consistent family): merge B1; merge B3; merge B2; unmerge B2 leaves the connection behind"""
    case = {'adms': [
        {'gid': 'adm-1', 'nodes': [N('s1', 'ConnectionPoint', [['k', 'v']])], 'edges': []},
        {'gid': 'adm-3', 'nodes': [N('s2', 'Link', [['k', 'v']])], 'edges': []},
        {'gid': 'adm-2', 'nodes': [N('s1', 'ConnectionPoint', [['k', 'v']]), N('s2', 'Link', [['k', 'v']])],
         'edges': [['s1', 's2', 'connects', []]]}]}
    _, st = run_history(case, [['merge', 0], ['merge', 1], ['merge', 2], ['unmerge', 'adm-2']])
    still = st[1]['cbm'] is not None and st[3]['cbm'] is not None and st[1]['cbm'][1] != st[3]['cbm'][1]
    return still, {'case': case, 'after_merge_B1_B3': st[1]['cbm'], 'after_merge_B2_unmerge_B2': st[3]['cbm']}


def witness_refused():
    """Proofs/Cbm14Refusal.v refused_merge_not_atomic: adm-2 also delegates s1, which adm-1 delegates: merge adm-1; merge
    adm-2 raises - and leaves the temporary clone in the store (and, depending on the order in which the common nodes
    are met, adm-2 recorded as a contributor of the nodes met before s1)"""
    sh = [N('s%d' % i, 'ConnectionPoint') for i in range(2, 8)]
    case = {'adms': [
        {'gid': 'adm-1', 'nodes': [N('s1', 'ConnectionPoint', cd=[['del1', 'c1']])] + copy.deepcopy(sh) + [N('p1-1', 'NetworkNode')], 'edges': []},
        {'gid': 'adm-2', 'nodes': [N('s1', 'ConnectionPoint', cd=[['del2', 'c2']])] + copy.deepcopy(sh) + [N('p2-1', 'NetworkNode')], 'edges': []}]}
    _, st = run_history(case, [['merge', 0], ['merge', 1]])
    still = st[1]['res'] != 'ok' and (st[1]['cbm'] != st[0]['cbm'] or st[1]['store_n'] != st[0]['store_n'])
    return still, {'case': case, 'second_merge': st[1]['res'], 'store_nodes_before_after': [st[0]['store_n'], st[1]['store_n']],
                   'combined_changed': st[1]['cbm'] != st[0]['cbm']}


def witness_remerge():
    """merge adm-1; merge adm-1 again is not refused: every node lists adm-1 twice; unmerge adm-1 then leaves them all"""
    case = {'adms': [{'gid': 'adm-1', 'nodes': [N('s1', 'ConnectionPoint'), N('p1-1', 'NetworkNode')],
                      'edges': [['s1', 'p1-1', 'has', []]]}]}
    _, st = run_history(case, [['merge', 0], ['merge', 0], ['unmerge', 'adm-1']])
    still = st[1]['res'] == 'ok' and st[2]['cbm'] is not None
    return still, {'case': case, 'after_second_merge': st[1]['cbm'], 'after_unmerge': st[2]['cbm']}


def witness_rollback_unknown():
    """merge adm-1; rollback to a snapshot id that does not exist: AssertionError, the combined model is gone"""
    case = {'adms': [{'gid': 'adm-1', 'nodes': [N('s1', 'ConnectionPoint'), N('p1-1', 'NetworkNode')],
                      'edges': [['s1', 'p1-1', 'has', []]]}]}
    _, st = run_history(case, [['merge', 0], ['rollback', 5]])
    still = st[1]['res'] != 'ok' and st[0]['cbm'] is not None and st[1]['cbm'] is None
    return still, {'case': case, 'rollback': st[1]['res'], 'combined_after': st[1]['cbm']}


def witness_order():
    """Proofs/Cbm14Dec.v order_dependent_refuted: P1 and P2 describe their common node differently"""
    case = {'adms': [
        {'gid': 'adm-1', 'nodes': [N('s1', 'ConnectionPoint', [['StitchNode', 'true']]), N('p1-1', 'NetworkNode')],
         'edges': [['s1', 'p1-1', 'has', []]]},
        {'gid': 'adm-2', 'nodes': [N('s1', 'ConnectionPoint', [['StitchNode', 'false']]), N('p2-1', 'Link', cd=[['del1', 'c1']])],
         'edges': [['s1', 'p2-1', 'connects', []]]}]}
    _, a = run_history(case, [['merge', 0], ['merge', 1]])
    _, b = run_history(case, [['merge', 1], ['merge', 0]])
    va, vb = equiv_view(a[1]['cbm']), equiv_view(b[1]['cbm'])
    still = a[1]['res'] == 'ok' and b[1]['res'] == 'ok' and va[:2] != vb[:2]
    return still, {'case': case, 'merge_1_then_2': a[1]['cbm'], 'merge_2_then_1': b[1]['cbm']}


if __name__ == '__main__':
    sys.exit(main(C14()))

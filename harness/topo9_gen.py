"""C09 - history generator with fault injection.

A history is a list of call specs run on ONE live topology (harness/topo9_impl.Impl).  The generator looks at
the current snapshot to choose the next call, so that references are meaningful.  About two thirds of the
tested calls carry one deliberately injected fault (the `fault` field names it, `pos` the position of the bad
argument); the rest are valid.  Failing calls stay in the history: states with debris are reachable states.
Every random choice comes from the rng handed in.
"""
import json
from .topo9_impl import Impl, observe_step, observe_case

NIC_MODELS = [('SharedNIC_ConnectX_6', 'SharedNIC', 'ConnectX-6', 1), ('SmartNIC_ConnectX_6', 'SmartNIC', 'ConnectX-6', 2),
              ('SmartNIC_ConnectX_5', 'SmartNIC', 'ConnectX-5', 2), ('FPGA_Xilinx_U280', 'FPGA', 'Xilinx-U280', 2)]
PLAIN_MODELS = [('GPU_Tesla_T4', 'GPU', 'Tesla T4', 0), ('NVME_P4510', 'NVME', 'P4510', 0)]
SVC_TYPES = ['L2Bridge', 'L2STS', 'L2PTP', 'FABNetv4', 'L2Multisite']
VALID_KW = [['capacities', ['cap', {'core': 2, 'ram': 8}]], ['labels', ['labels', {'local_name': 'ln'}]],
            ['details', ['raw', 'some details']], ['capacities', ['cap', {'bw': 10}]], ['boot_script', ['raw', 'echo hi']]]
BAD_KW = [['foo', ['raw', 1]], ['capacities', ['raw', 'not-a-capacities-object']], ['labels', ['raw', 7]],
          ['boot_script', ['long', 2000]], ['tags', ['raw', 'x']], ['nosuchproperty', ['raw', None]]]


class View:
    """structure read off a snapshot"""

    def __init__(self, snap):
        self.nodes = {n[0]: n for n in snap['nodes']}
        self.adj = {}
        for a, b, r, _ in snap['edges']:
            self.adj.setdefault(a, []).append((b, r))
            self.adj.setdefault(b, []).append((a, r))

    def of_class(self, c):
        return [n for n in self.nodes.values() if n[1] == c]

    def nb(self, x, rel, cls):
        return [y for (y, r) in self.adj.get(x, []) if r == rel and self.nodes[y][1] == cls]

    def net_nodes(self):
        return [n for n in self.of_class('NetworkNode') if n[3] != 'Facility']

    def facilities(self):
        return [n for n in self.of_class('NetworkNode') if n[3] == 'Facility']

    def top_services(self):
        return [n for n in self.of_class('NetworkService')
                if not self.nb(n[0], 'has', 'NetworkNode') and not self.nb(n[0], 'has', 'Component')]

    def node_services(self, nid):
        return [self.nodes[s] for s in self.nb(nid, 'has', 'NetworkService')]

    def components(self, nid):
        return [self.nodes[c] for c in self.nb(nid, 'has', 'Component')]

    def node_cps(self, nid):
        """ids of the interfaces node.interface_list shows"""
        out = []
        for s in self.nb(nid, 'has', 'NetworkService'):
            out += self.nb(s, 'connects', 'ConnectionPoint')
        for c in self.nb(nid, 'has', 'Component'):
            for s in self.nb(c, 'has', 'NetworkService'):
                out += self.nb(s, 'connects', 'ConnectionPoint')
        return out

    def connected(self, cp):
        for l in self.nb(cp, 'connects', 'Link'):
            if [x for x in self.nb(l, 'connects', 'ConnectionPoint') if x != cp]:
                return True
        return False

    def all_node_cps(self, with_subs=True):
        """(owner node, interface id) for every interface connect_interface accepts: ports of the services of a node
        or of its components (dedicated, shared, facility, trunk ..., ALSO ServicePorts added to a node-level / switch
        service) and, with_subs, the sub-interfaces under them"""
        out = []
        for n in self.net_nodes() + self.facilities():
            for cp in self.node_cps(n[0]):
                out.append((n, cp))
                if with_subs:
                    out += [(n, c) for c in self.nb(cp, 'connects', 'ConnectionPoint') if self.nodes[c][3] == 'SubInterface']
        return out

    def service_ports(self):
        return [n[0] for n in self.of_class('ConnectionPoint') if n[3] == 'ServicePort']


class HistGen:
    def __init__(self, rng, flavour, cache, long_names=False):
        self.rng, self.flavour, self.cache = rng, flavour, cache
        self.im = Impl(flavour)
        self.steps = []
        self.cases = []
        self.k = 0
        self.stale = []       # keys of saved handles whose element was removed
        self.long_names = long_names
        self.kit = {}
        self.sub = flavour == 'sub'

    # ------------------------------------------------------------ helpers
    def fresh_name(self, p):
        self.k += 1
        return '%s%d' % (p, self.k)

    def nid(self, p='id'):
        """caller-supplied id: mandatory in substrate topologies, sometimes in experiment ones"""
        if self.sub or self.rng.random() < 0.3:
            self.k += 1
            return '%s-%d' % (p, self.k)
        return None

    def view(self):
        return View(self.im.snapshot())

    def do(self, spec, tested):
        if tested:
            o = observe_step(self.im, spec)
            case = {'flavour': self.flavour, 'build': list(self.steps), 'call': spec}
            if o['prep_err'] is None:
                self.cache[json.dumps(case, sort_keys=True)] = o
                self.cases.append(case)
        else:
            self.im.step(spec)
        self.steps.append(spec)

    def kw(self, bad=False):
        r = self.rng
        kw = [list(x) for x in r.sample(VALID_KW, r.randrange(0, 3))]
        seen = set()
        kw = [x for x in kw if not (x[0] in seen or seen.add(x[0]))]
        pos = -1
        if bad:
            b = r.choice(BAD_KW)
            kw = [x for x in kw if x[0] != b[0]]
            pos = r.randrange(0, len(kw) + 1)
            kw.insert(pos, list(b))
        return kw, pos

    def bad_name(self, lo):
        r = self.rng
        return r.choice(['x' * 256, 'a' if lo > 1 else '', 'bad*name', 'tab\tname', 'x' * 300, ''])

    # ------------------------------------------------------------ valid building blocks
    def s_add_node(self, **over):
        s = {'op': 'add_node', 'name': self.fresh_name('n'), 'site': self.rng.choice(['S1', 'S2', 'S3']),
             'ntype': self.rng.choice(['VM', 'VM', 'Server', 'Switch']), 'node_id': self.nid('n')}
        if self.long_names and self.rng.random() < 0.7:
            s['name'] = s['name'] + 'L' * self.rng.choice([120, 180, 200, 235, 240])
        s.update(over)
        return s

    def s_add_component(self, v, **over):
        r = self.rng
        n = r.choice(v.net_nodes())
        mt, ct, model, nif = r.choice(NIC_MODELS if r.random() < 0.8 else PLAIN_MODELS)
        s = {'op': 'add_component', 'node': n[2], 'name': self.fresh_name('c')}
        others = [c[2] for m in v.net_nodes() if m[0] != n[0] for c in v.components(m[0])
                  if c[2] not in [x[2] for x in v.components(n[0])] and len(c[2]) < 40]
        if others and r.random() < 0.3:
            s['name'] = r.choice(others)      # same component (hence child interface) names on another node
        if r.random() < 0.6:
            s['model_type'] = mt
        else:
            s['ctype'], s['model'] = ct, model
        if self.long_names and r.random() < 0.7:
            s['name'] = s['name'] + 'M' * r.choice([5, 10, 30, 50, 60, 100])
        if self.sub:
            s['node_id'] = self.nid('c')
            if nif:
                s['ns_id'] = self.nid('cs')
                s['if_ids'] = [self.nid('ci') for _ in range(nif)]
                s['if_labels'] = nif
        elif r.random() < 0.2:
            s['node_id'] = self.nid('c') or 'c-x%d' % self.k
        s.update(over)
        return s

    def free_cps(self, v, any_length=False):
        """unconnected node interfaces; by default only those whose derived peer/link names fit 255 characters"""
        return [(n, cp) for (n, cp) in v.all_node_cps() if not v.connected(cp)
                and (any_length or len(n[2]) + 1 + len(v.nodes[cp][2]) + 5 <= 255)]

    def s_add_service(self, v, **over):
        r = self.rng
        free = self.free_cps(v)
        r.shuffle(free)
        k = r.randrange(0, min(4, len(free)) + 1)
        ifs = [['cp', cp] for (_, cp) in free[:k]]
        t = r.choice(SVC_TYPES)
        if t == 'L2PTP' and any(v.nodes[x[1]][3] == 'SharedPort' for x in ifs):
            t = 'L2Bridge'
        s = {'op': 'add_service', 'name': self.fresh_name('s'), 'nstype': t, 'ifs': ifs}
        if r.random() < 0.2:
            s['node_id'] = 'sid-%d' % self.k
        if r.random() < 0.1:
            s['ifs'] = None
        s.update(over)
        return s

    def s_add_facility(self, **over):
        r = self.rng
        s = {'op': 'add_facility', 'name': self.fresh_name('f'), 'site': r.choice(['S1', 'S9']), 'node_id': self.nid('f')}
        m = r.randrange(0, 4)
        if m:
            s['interfaces'] = [[self.fresh_name('fp'), r.choice([None, ['labels', {'vlan_range': '100-200'}]]),
                                r.choice([None, ['cap', {'bw': 10}]])] for _ in range(m)]
            if self.long_names and r.random() < 0.6:
                # a facility port whose name makes the derived peer-interface (or only the link) name too long
                it = r.choice(s['interfaces'])
                it[0] = it[0] + 'P' * (r.choice([246, 247, 250, 251, 253]) - len(s['name']) - len(it[0]))
        elif r.random() < 0.5:
            s['kw'] = self.kw()[0]
        if r.random() < 0.3:
            s['nslabels'] = ['labels', {'vlan_range': '1-100'}]
        s.update(over)
        return s

    def s_add_switch(self, **over):
        r = self.rng
        s = {'op': 'add_switch', 'name': self.fresh_name('sw'), 'site': r.choice(['S1', 'S4']), 'node_id': self.nid('sw'),
             'nports': r.randrange(1, 4)}
        if r.random() < 0.3:
            s['nslabels'] = ['labels', {'vlan_range': '1-100'}]
        if r.random() < 0.3:
            s['portcapacities'] = ['cap', {'bw': 25}]
        if r.random() < 0.2:
            s['nstype'] = r.choice(['P4', 'OVS'])
        s.update(over)
        return s

    def s_add_node_service(self, v, **over):
        r = self.rng
        n = r.choice(v.net_nodes() + v.facilities())
        s = {'op': 'add_node_service', 'node': n[2], 'name': self.fresh_name('ns'),
             'nstype': r.choice(['OVS', 'P4', 'VLAN', 'MPLS']), 'node_id': self.nid('ns')}
        s.update(over)
        return s

    def svc_refs(self, v):
        out = [(['top', s[2]], s) for s in v.top_services()]
        for n in v.net_nodes() + v.facilities():
            out += [(['node', n[2], s[2]], s) for s in v.node_services(n[0])]
        return out

    def s_add_interface(self, v, **over):
        r = self.rng
        ref, sv = r.choice(self.svc_refs(v))
        s = {'op': 'add_interface', 'svc': ref, 'name': self.fresh_name('p'),
             'itype': r.choice(['TrunkPort', 'AccessPort', 'DedicatedPort', 'FacilityPort', 'ServicePort', 'ServicePort']),
             'node_id': self.nid('p')}
        s.update(over)
        return s

    def s_add_link(self, v, **over):
        r = self.rng
        cps = [n[0] for n in v.of_class('ConnectionPoint')]
        r.shuffle(cps)
        s = {'op': 'add_link', 'name': self.fresh_name('l'), 'ltype': r.choice(['Patch', 'L2Path', 'L1Path']),
             'ifs': [['cp', c] for c in cps[:r.choice([1, 2, 2, 3])]], 'node_id': self.nid('l')}
        s.update(over)
        return s

    # ------------------------------------------------------------ faults
    def tested_call(self, v):
        """one call, valid (1/3) or with one injected fault; None if not applicable in this state"""
        r = self.rng
        ops = ['add_node', 'add_service', 'add_service', 'add_facility', 'add_switch']
        if v.net_nodes():
            ops += ['add_component', 'add_component', 'add_node_service']
        if self.svc_refs(v):
            ops += ['add_interface']
        if len(self.svc_refs(v)) >= 2:
            ops += ['peer', 'peer']
        if v.of_class('ConnectionPoint'):
            ops += ['add_link', 'add_link']
        if v.nodes:
            ops += ['rename', 'rename', 'set_props']
        if v.of_class('Link'):
            ops += ['remove_link']
        if len(self.svc_refs(v)) >= 2:
            ops += ['unpeer']
        if v.all_node_cps():
            ops += ['connect', 'connect', 'add_child'] + ([] if self.sub else ['port_mirror'])
        op = r.choice(ops)
        x = r.random()
        if self.kit and x < 0.22:
            sp = self.handle_fault(v, op)
            if sp is not None:
                return sp
        valid = r.random() < 0.3
        fn = getattr(self, 'f_' + op)
        return fn(v, valid)

    # ------------------------------------------------------------ stale receivers, handles of another topology
    RECEIVER = {'add_component': ('node', 'zn'), 'add_node_service': ('node', 'zn'), 'add_interface': ('svc', 'zs'),
                'connect': ('svc', 'zs'), 'peer': ('a', 'zs'), 'unpeer': ('a', 'zs'), 'add_child': ('if', 'zif'),
                'rename': ('el', None), 'set_props': ('el', None)}
    FOREIGN = ('add_service', 'add_link', 'port_mirror', 'connect', 'peer', 'unpeer')

    def handle_fault(self, v, op):
        """a VALID call of kind `op` in which one handle is replaced: the receiver by the stale handle of a removed
        (possibly re-added) element, or a handle-valued argument by a handle of the second live topology"""
        r = self.rng
        kinds = []
        if 'stale' in self.kit and op in self.RECEIVER:
            kinds.append('stale')
        if 'stale' in self.kit and op in ('peer', 'unpeer'):
            kinds.append('stale_arg')
        if 'other' in self.kit and op in self.FOREIGN:
            kinds += ['foreign'] * 2
        if not kinds:
            return None
        base = getattr(self, 'f_' + op)(v, True)
        if base is None:
            if op in ('peer', 'unpeer') and len(self.svc_refs(v)) >= 1:
                x = r.choice(self.svc_refs(v))
                base = {'op': op, 'a': x[0], 'b': x[0], 'kw': []}
            elif op == 'add_child' and v.all_node_cps():
                base = {'op': 'add_child', 'name': self.fresh_name('ch'), 'node_id': self.nid('ch'), 'vlan': '300',
                        'if': ['cp', v.all_node_cps()[0][1]]}
            else:
                return None
        k = r.choice(kinds)
        suffix = '_readded' if self.kit.get('stale') == 'readded' else ''
        if k == 'stale':
            field, key = self.RECEIVER[op]
            if key is None:
                key = r.choice(['zn', 'zc', 'zs', 'zif'])
            base[field] = ['saved', key]
            base['fault'] = 'stale_receiver' + suffix
        elif k == 'stale_arg':
            base['b'] = ['saved', 'zs']
            base['fault'] = 'stale_handle_arg' + suffix
        else:
            base['fault'] = 'foreign_handle'
            if op in ('add_service', 'add_link'):
                ifs = list(base.get('ifs') or [])
                pos = r.choice([0, len(ifs) // 2, len(ifs)])
                ifs.insert(pos, ['other_if', r.randrange(2)])
                base['ifs'], base['pos'] = ifs, pos
            elif op == 'port_mirror':
                base['to'] = ['other_if', r.randrange(2)]
            elif op == 'connect':
                base['if'] = ['other_if', r.randrange(2)]
            else:
                base['b'] = ['other_svc', 'o1']
        return base

    def make_kits(self):
        """the elements whose handles the handle faults use"""
        r = self.rng
        self.kit = {}
        if r.random() < 0.6:
            nic = {'op': 'add_component', 'node': 'zn', 'name': 'znic', 'model_type': 'SmartNIC_ConnectX_6'}
            if self.sub:
                nic.update(node_id='zc-id', ns_id='zc-ns', if_ids=['zc-p1', 'zc-p2'], if_labels=2)
            mk = [{'op': 'add_node', 'name': 'zn', 'site': 'S1', 'ntype': 'VM', 'node_id': 'zn-id' if self.sub else None}, nic,
                  {'op': 'add_service', 'name': 'zs', 'nstype': 'L2Bridge', 'ifs': [], 'node_id': 'zs-id' if self.sub else None}]
            for st in mk:
                self.do(st, False)
            for ref, key in ((['node', 'zn'], 'zn'), (['comp', 'zn', 'znic'], 'zc'), (['svc', ['top', 'zs']], 'zs')):
                self.do({'op': 'save', 'ref': ref, 'as': key}, False)
            self.do({'op': 'save_if', 'ref': ['node_if', 'zn', 0], 'as': 'zif'}, False)
            self.stale.append('zif')
            self.do({'op': 'remove_node', 'name': 'zn'}, False)
            self.do({'op': 'remove_service', 'name': 'zs'}, False)
            self.kit['stale'] = 'removed'
            if r.random() < 0.5:
                for st in mk:       # the same names (and, in a substrate topology, ids) again
                    self.do(dict(st), False)
                self.kit['stale'] = 'readded'
        if r.random() < 0.5:
            nic = {'op': 'add_component', 'node': 'om1', 'name': 'onic', 'model_type': 'SmartNIC_ConnectX_6', 'on': 'other'}
            if self.sub:
                nic.update(node_id='oc-id', ns_id='oc-ns', if_ids=['oc-p1', 'oc-p2'], if_labels=2)
            for st in ({'op': 'add_node', 'name': 'om1', 'site': 'S1', 'ntype': 'VM', 'on': 'other', 'node_id': 'om1-id' if self.sub else None},
                       nic,
                       {'op': 'add_service', 'name': 'o1', 'nstype': 'L2Bridge', 'ifs': [], 'on': 'other',
                        'node_id': 'o1-id' if self.sub else None}):
                self.do(st, False)
            self.kit['other'] = True

    # ------------------------------------------------------------ calls on existing elements
    def elements(self, v):
        """(ref, node tuple, ids of the other elements of its naming scope)"""
        out = []
        allnn = [n[0] for n in v.of_class('NetworkNode')]
        for n in v.net_nodes() + v.facilities():
            out.append((['node', n[2]], n, [x for x in allnn if x != n[0]]))
        for n in v.net_nodes():
            comps = v.components(n[0])
            for c in comps:
                out.append((['comp', n[2], c[2]], c, [x[0] for x in comps if x[0] != c[0]]))
        allns = [x[0] for x in v.of_class('NetworkService')]
        for ref, sv in self.svc_refs(v):
            if ref[0] == 'top':
                sibs = [x for x in allns if x != sv[0]]
            else:
                owner = [n for n in v.net_nodes() + v.facilities() if n[2] == ref[1]][0]
                sibs = [x[0] for x in v.node_services(owner[0]) if x[0] != sv[0]]
            out.append((['svc', ref], sv, sibs))
            if ref[0] == 'top':
                cps = v.nb(sv[0], 'connects', 'ConnectionPoint')
                for c in cps:
                    out.append((['cp', c], v.nodes[c], [x for x in cps if x != c]))
        for n, cp in v.all_node_cps():
            owner_svc = v.nb(cp, 'connects', 'NetworkService')
            sibs = [x for o in owner_svc for x in v.nb(o, 'connects', 'ConnectionPoint') if x != cp]
            out.append((['cp', cp], v.nodes[cp], sibs))
        alll = [x[0] for x in v.of_class('Link')]
        for l in v.of_class('Link'):
            out.append((['link', l[2]], l, [x for x in alll if x != l[0]]))
        # names must identify the element for the by-name references
        return out

    def f_rename(self, v, valid):
        r = self.rng
        els = self.elements(v)
        if not els:
            return None
        ref, n, sibs = r.choice(els)
        if valid:
            return {'op': 'rename', 'el': ref, 'new': self.fresh_name('rn')}
        faults = ['bad_name', 'bad_name']
        if sibs:
            faults += ['dup_in_scope'] * 4
        ft = r.choice(faults)
        if ft == 'bad_name':
            new = r.choice(['x' * 256, '', 'bad*name', 'x' * 300] + (['a'] if ref[0] != 'cp' else []))
        else:
            new = v.nodes[r.choice(sibs)][2]
        return {'op': 'rename', 'el': ref, 'new': new, 'fault': ft}

    def f_set_props(self, v, valid):
        """set_properties on an existing element of any class; about half of the calls also carry keywords whose
        value is None (preferably naming a property the element currently has), among good and bad ones"""
        r = self.rng
        els = self.elements(v)
        if not els:
            return None
        # elements that have something set are more interesting for the None-valued keywords
        rich = [e for e in els if any(k in e[1][4] for k in ('"Capacities"', '"Labels"', '"Details"'))]
        ref, n, sibs = r.choice(rich if rich and r.random() < 0.7 else els)
        rest = json.loads(n[4])
        have = [kw for (prop, kw) in (('Capacities', 'capacities'), ('Labels', 'labels'), ('Details', 'details')) if prop in rest]
        nones = []
        if r.random() < 0.6:
            pool = have if have and r.random() < 0.8 else ['capacities', 'labels', 'details']
            nones = [[k, None] for k in r.sample(pool, r.randrange(1, len(pool) + 1))]
        def mix(kw):
            kw = [x for x in kw if x[0] not in [y[0] for y in nones]]
            out = list(kw)
            for x in nones:
                out.insert(r.randrange(0, len(out) + 1), x)
            return out
        if valid:
            kw = self.kw()[0] or [['details', ['raw', 'd%d' % self.k]]]
            return {'op': 'set_props', 'el': ref, 'kw': mix(kw) or kw}
        kw, pos = self.kw(bad=True)
        bad = kw[pos]
        kw = mix(kw)
        if bad not in kw:
            kw.append(bad)
        return {'op': 'set_props', 'el': ref, 'kw': kw, 'pos': kw.index(bad),
                'fault': 'bad_prop_with_none' if nones else 'bad_prop'}

    def f_remove_link(self, v, valid):
        r = self.rng
        links = v.of_class('Link')
        peering = [l for l in links if any(v.nodes[c][3] == 'ServicePort' for c in v.nb(l[0], 'connects', 'ConnectionPoint'))]
        plain = [l for l in links if l not in peering]
        names = [l[2] for l in links]
        if valid:
            cand = [l for l in plain if names.count(l[2]) == 1]
            if not cand:
                return None
            return {'op': 'remove_link', 'name': r.choice(cand)[2]}
        faults = ['unknown']
        if peering:
            faults += ['peering_link'] * 4
        ft = r.choice(faults)
        if ft == 'unknown':
            return {'op': 'remove_link', 'name': 'no-such-link-%d' % self.k, 'fault': ft}
        return {'op': 'remove_link', 'name': r.choice(peering)[2], 'fault': ft}

    def f_unpeer(self, v, valid):
        r = self.rng
        refs = self.svc_refs(v)
        pairs = [(x, y) for x in refs for y in refs if x[1][0] != y[1][0]]
        def peered(x, y):
            for cp in v.nb(x[1][0], 'connects', 'ConnectionPoint'):
                if v.nodes[cp][3] != 'ServicePort':
                    continue
                for l in v.nb(cp, 'connects', 'Link'):
                    for q in v.nb(l, 'connects', 'ConnectionPoint'):
                        if q != cp and v.nodes[q][3] == 'ServicePort' and y[1][0] in v.nb(q, 'connects', 'NetworkService'):
                            return True
            return False
        yes = [p for p in pairs if peered(*p)]
        no = [p for p in pairs if not peered(*p)]
        if valid:
            if not yes:
                return None
            x, y = r.choice(yes)
            return {'op': 'unpeer', 'a': x[0], 'b': y[0]}
        if not no:
            return None
        x, y = r.choice(no)
        return {'op': 'unpeer', 'a': x[0], 'b': y[0], 'fault': 'not_peering'}

    def f_port_mirror(self, v, valid):
        r = self.rng
        free = self.free_cps(v)
        conn = [(n, cp) for (n, cp) in v.all_node_cps() if v.connected(cp)]
        s = {'op': 'port_mirror', 'name': self.fresh_name('pm'), 'from': 'some-port', 'node_id': None}
        if valid:
            if not free:
                return None
            s['to'] = ['cp', r.choice(free)[1]]
            if r.random() < 0.3:
                s['vlan'] = '100'
            return s
        faults = ['no_to', 'no_from', 'bad_prop', 'bad_name']
        if conn:
            faults += ['to_already_connected'] * 3
        if self.stale:
            faults += ['to_stale'] * 2
        if v.top_services():
            faults += ['dup_name']
        ft = r.choice(faults)
        s['fault'] = ft
        s['to'] = ['cp', r.choice(free)[1]] if free else None
        if ft == 'no_to':
            s['to'] = None
        elif s['to'] is None and ft not in ('to_already_connected', 'to_stale'):
            return None
        if ft == 'no_from':
            s['from'] = None
        elif ft == 'bad_prop':
            s['kw'], s['pos'] = self.kw(bad=True)
        elif ft == 'bad_name':
            s['name'] = self.bad_name(2)
        elif ft == 'to_already_connected':
            s['to'] = ['cp', r.choice(conn)[1]]
        elif ft == 'to_stale':
            s['to'] = ['saved', r.choice(self.stale)]
        elif ft == 'dup_name':
            s['name'] = r.choice(v.top_services())[2]
        return s

    def f_connect(self, v, valid):
        r = self.rng
        tops = [(ref, sv) for (ref, sv) in self.svc_refs(v) if ref[0] == 'top']
        if not tops:
            return None
        ref, sv = r.choice(tops)
        free = self.free_cps(v)
        free_all = self.free_cps(v, any_length=True)
        conn = [(n, cp) for (n, cp) in v.all_node_cps() if v.connected(cp)]
        if valid:
            ok = [(n, cp) for (n, cp) in free if not (sv[3] == 'L2PTP' and v.nodes[cp][3] == 'SharedPort')]
            if not ok:
                return None
            return {'op': 'connect', 'svc': ref, 'if': ['cp', r.choice(ok)[1]]}
        faults = []
        if conn:
            faults += ['already_connected'] * 2
        if len(free_all) > len(free):
            faults += ['long_derived_name'] * 6
        if self.stale:
            faults += ['stale'] * 2
        if v.service_ports():
            faults += ['not_owned']
        if free:
            faults += ['peer_name_taken', 'link_name_taken']
        shared = [(n, cp) for (n, cp) in free if v.nodes[cp][3] == 'SharedPort']
        l2ptp = [(rf, x) for (rf, x) in tops if x[3] == 'L2PTP']
        if shared and l2ptp:
            faults += ['l2ptp_shared'] * 2
        if not faults:
            return None
        ft = r.choice(faults)
        s = {'op': 'connect', 'svc': ref, 'fault': ft}
        if ft == 'already_connected':
            s['if'] = ['cp', r.choice(conn)[1]]
        elif ft == 'long_derived_name':
            s['if'] = ['cp', r.choice([x for x in free_all if x not in free])[1]]
        elif ft == 'stale':
            s['if'] = ['saved', r.choice(self.stale)]
        elif ft == 'not_owned':
            s['if'] = ['cp', r.choice(v.service_ports())]
        elif ft == 'l2ptp_shared':
            s['svc'] = r.choice(l2ptp)[0]
            s['if'] = ['cp', r.choice(shared)[1]]
        else:
            n0, cp0 = r.choice(free)
            s['if'] = ['cp', cp0]
            derived = n0[2] + '-' + v.nodes[cp0][2]
            if ft == 'peer_name_taken':
                self.do({'op': 'add_interface', 'svc': ref, 'name': derived, 'itype': 'TrunkPort', 'node_id': self.nid('p')}, False)
            else:
                other = [c[0] for c in v.of_class('ConnectionPoint') if c[0] != cp0]
                if not other:
                    return None
                self.do({'op': 'add_link', 'name': derived + '-link', 'ltype': 'L2Path', 'ifs': [['cp', r.choice(other)]],
                         'node_id': self.nid('l')}, False)
        return s

    def f_add_child(self, v, valid):
        r = self.rng
        ded = [(n, cp) for (n, cp) in v.all_node_cps(False) if v.nodes[cp][3] == 'DedicatedPort']
        other = [(n, cp) for (n, cp) in v.all_node_cps(False) if v.nodes[cp][3] != 'DedicatedPort']
        s = {'op': 'add_child', 'name': self.fresh_name('ch'), 'node_id': self.nid('ch'), 'vlan': str(100 + self.k)}
        withkids = [(n, cp) for (n, cp) in ded if v.nb(cp, 'connects', 'ConnectionPoint')]
        if valid:
            if not ded:
                return None
            s['if'] = ['cp', r.choice(ded)[1]]
            return s
        faults = []
        if ded:
            faults += ['no_vlan', 'bad_prop', 'bad_name', 'dup_id']
        if withkids:
            faults += ['dup_name'] * 2 + ['dup_vlan'] * 2
        if other:
            faults += ['not_dedicated']
        if self.sub and ded:
            faults += ['sub_no_id']
        if not faults:
            return None
        ft = r.choice(faults)
        s['fault'] = ft
        s['if'] = ['cp', r.choice(ded)[1]] if ded else None
        if ft == 'no_vlan':
            s['vlan'] = None
        elif ft == 'bad_prop':
            s['kw'], s['pos'] = self.kw(bad=True)
            s['kw'] = [x for x in s['kw'] if x[0] != 'labels']
            if not any(x in BAD_KW or x[0] in ('foo', 'nosuchproperty') or x[1][0] in ('raw', 'long') for x in s['kw']):
                s['kw'].append(['foo', ['raw', 1]])
        elif ft == 'bad_name':
            s['name'] = self.bad_name(1)
        elif ft == 'dup_id':
            s['node_id'] = r.choice(list(v.nodes))
        elif ft == 'sub_no_id':
            s['node_id'] = None
        elif ft == 'not_dedicated':
            s['if'] = ['cp', r.choice(other)[1]]
        else:
            n0, cp0 = r.choice(withkids)
            s['if'] = ['cp', cp0]
            kid = r.choice(v.nb(cp0, 'connects', 'ConnectionPoint'))
            if ft == 'dup_name':
                s['name'] = v.nodes[kid][2]
            else:
                lab = json.loads(json.loads(v.nodes[kid][4]).get('Labels', '{}'))
                if not lab.get('vlan'):
                    return None
                s['vlan'] = lab['vlan']
        return s

    def image_kw(self, kw):
        """keywords that are only meaningful in combination: image_ref and image_type are stored as ONE graph property;
        a lone half (HEAD drops it silently: the call succeeds) or the pair, at random positions among the others"""
        r = self.rng
        which = r.choice(['lone_image_ref', 'lone_image_type', 'image_pair'])
        add = {'lone_image_ref': [['image_ref', ['raw', 'default_ubuntu_20']]],
               'lone_image_type': [['image_type', ['raw', 'qcow2']]],
               'image_pair': [['image_ref', ['raw', 'default_ubuntu_20']], ['image_type', ['raw', 'qcow2']]]}[which]
        kw = list(kw)
        for x in add:
            kw.insert(r.randrange(0, len(kw) + 1), x)
        return kw, which

    def f_add_node(self, v, valid):
        r = self.rng
        if valid:
            kw, _ = self.kw()
            if r.random() < 0.5:
                kw, which = self.image_kw(kw)
                return self.s_add_node(kw=kw, fault=which)
            return self.s_add_node(kw=kw)
        faults = ['bad_prop', 'bad_name', 'no_ntype']
        if v.net_nodes():
            faults += ['dup_name', 'dup_name']
        if v.facilities():
            faults += ['dup_facility_name']
        if v.nodes:
            faults += ['dup_id']
        if self.sub:
            faults += ['sub_no_id']
        ft = r.choice(faults)
        s = self.s_add_node(fault=ft)
        if ft == 'bad_prop':
            s['kw'], s['pos'] = self.kw(bad=True)
        elif ft == 'bad_name':
            s['name'] = self.bad_name(2)
        elif ft == 'no_ntype':
            s['ntype'] = None
        elif ft == 'dup_name':
            s['name'] = r.choice(v.net_nodes())[2]
        elif ft == 'dup_facility_name':
            s['name'] = r.choice(v.facilities())[2]
        elif ft == 'dup_id':
            s['node_id'] = r.choice(list(v.nodes))
        elif ft == 'sub_no_id':
            s['node_id'] = None
        if ft != 'bad_prop' and r.random() < 0.5:
            s['kw'] = self.kw()[0]
        return s

    def f_add_component(self, v, valid):
        r = self.rng
        if valid:
            return self.s_add_component(v, kw=self.kw()[0])
        faults = ['bad_prop', 'bad_name', 'unknown_model', 'no_spec', 'dup_id',
                  'derived_ns_name_taken', 'derived_ns_name_taken', 'derived_names_other_node', 'derived_if_name_taken']
        if any(v.components(n[0]) for n in v.net_nodes()):
            faults += ['dup_name', 'dup_name']
        if self.sub:
            faults += ['sub_no_id', 'sub_missing_ids', 'dup_child_ns_id', 'dup_child_if_id', 'same_child_if_ids',
                       'wrong_id_count']
        ft = r.choice(faults)
        s = self.s_add_component(v, fault=ft)
        if ft == 'bad_prop':
            s['kw'], s['pos'] = self.kw(bad=True)
        elif ft == 'bad_name':
            s['name'] = self.bad_name(2)
        elif ft == 'unknown_model':
            s.pop('model_type', None)
            s['ctype'], s['model'] = r.choice(['SmartNIC', 'GPU', 'SharedNIC']), 'NoSuchModel'
        elif ft == 'no_spec':
            s.pop('model_type', None)
            s.pop('model', None)
        elif ft == 'dup_id':
            s['node_id'] = r.choice(list(v.nodes))
        elif ft in ('derived_ns_name_taken', 'derived_names_other_node', 'derived_if_name_taken'):
            # the names the catalogue derives for the component's service ('<node>-<comp>-l2ovs') and interfaces
            # ('<comp>-p<k>') are already used elsewhere in the graph; the library has no rule against that, so
            # the call is expected to succeed - or, if it does raise, to leave nothing behind
            s.pop('ctype', None), s.pop('model', None)
            s['model_type'] = r.choice(NIC_MODELS[:3])[0]
            if self.sub and 'if_ids' in s:
                nif = dict((m[0], m[3]) for m in NIC_MODELS)[s['model_type']]
                s['if_ids'] = [self.nid('ci') for _ in range(nif)]
                s['if_labels'] = nif
                s['ns_id'] = s.get('ns_id') or self.nid('cs')
            cname = 'k%d' % self.k
            self.k += 1
            s['name'] = cname
            if ft == 'derived_ns_name_taken':
                # a slice-level service with exactly the derived name
                self.do({'op': 'add_service', 'name': s['node'] + '-' + cname + '-l2ovs', 'nstype': 'L2Bridge', 'ifs': [],
                         'node_id': ('sid-%d' % self.k) if self.sub else None}, False)
            elif ft == 'derived_names_other_node':
                # node 'X-1' with NIC 'k', then node 'X' with NIC '1-k': both derive 'X-1-k-l2ovs'
                base = 'rk%d' % self.k
                self.do(self.s_add_node(name=base + '-1', ntype='VM'), False)
                self.do(self.s_add_node(name=base, ntype='VM'), False)
                v2 = self.view()
                first = self.s_add_component(v2, node=base + '-1', name=cname)
                first.pop('ctype', None), first.pop('model', None)
                first['model_type'] = s['model_type']
                if self.sub:
                    nif = dict((m[0], m[3]) for m in NIC_MODELS)[s['model_type']]
                    first['node_id'] = self.nid('c')
                    first['ns_id'] = self.nid('cs'); first['if_ids'] = [self.nid('ci') for _ in range(nif)]
                    first['if_labels'] = nif
                self.do(first, False)
                s['node'], s['name'] = base, '1-' + cname
            else:
                # an interface named '<comp>-p1' on some service
                refs = self.svc_refs(v)
                if not refs:
                    return None
                self.do({'op': 'add_interface', 'svc': r.choice(refs)[0], 'name': cname + '-p1', 'itype': 'TrunkPort',
                         'node_id': self.nid('p')}, False)
        elif ft == 'dup_name':
            n = r.choice([n for n in v.net_nodes() if v.components(n[0])])
            s['node'], s['name'] = n[2], r.choice(v.components(n[0]))[2]
        elif ft == 'sub_no_id':
            s['node_id'] = None
        elif ft == 'sub_missing_ids':
            s.pop('model_type', None)
            s['ctype'], s['model'] = 'SmartNIC', 'ConnectX-6'
            s.pop(r.choice(['ns_id', 'if_ids', 'if_labels']), None)
            s.setdefault('ns_id', None)
        elif ft in ('dup_child_ns_id', 'dup_child_if_id', 'same_child_if_ids', 'wrong_id_count'):
            s.pop('model_type', None)
            s['ctype'], s['model'] = 'SmartNIC', 'ConnectX-6'
            s['ns_id'] = self.nid('cs')
            s['if_ids'] = [self.nid('ci'), self.nid('ci')]
            s['if_labels'] = 2
            if ft == 'dup_child_ns_id':
                # preferably the id of an element of ANOTHER class than the one the id is meant for
                pool = [i for i, n in v.nodes.items() if n[1] != 'NetworkService'] if r.random() < 0.7 else list(v.nodes)
                s['ns_id'] = r.choice(pool or list(v.nodes))
            elif ft == 'dup_child_if_id':
                s['pos'] = r.randrange(2)
                pool = [i for i, n in v.nodes.items() if n[1] != 'ConnectionPoint'] if r.random() < 0.7 else list(v.nodes)
                s['if_ids'][s['pos']] = r.choice(pool or list(v.nodes))
            elif ft == 'same_child_if_ids':
                s['if_ids'][1] = s['if_ids'][0]
            else:
                s['if_ids'] = s['if_ids'][:1]
        return s

    def f_add_service(self, v, valid):
        r = self.rng
        if valid:
            return self.s_add_service(v, kw=self.kw()[0])
        free = self.free_cps(v)
        free_all = self.free_cps(v, any_length=True)
        conn = [(n, cp) for (n, cp) in v.all_node_cps() if v.connected(cp)]
        shared = [(n, cp) for (n, cp) in free if v.nodes[cp][3] == 'SharedPort']
        faults = ['bad_prop', 'bad_name', 'no_nstype']
        if v.nodes:
            faults += ['dup_id']
        if v.top_services():
            faults += ['dup_name']
        if conn:
            faults += ['if_already_connected'] * 3
        if free:
            faults += ['if_twice'] * 2
        if shared:
            faults += ['if_l2ptp_shared'] * 2
        if self.stale:
            faults += ['if_stale'] * 3
        if v.service_ports():
            faults += ['if_not_owned'] * 2
        if len(free_all) > len(free):
            faults += ['if_long_derived_name'] * 8
        if free and len(v.of_class('ConnectionPoint')) >= 2:
            faults += ['if_link_name_taken'] * 3
        ft = r.choice(faults)
        s = self.s_add_service(v, fault=ft)
        if s['ifs'] is None:
            s['ifs'] = []
        # interfaces of every connectable kind in front of the failing one: one free interface per type, if there
        if ft.startswith('if_') and r.random() < 0.6:
            by_type = {}
            for (n0, cp) in free:
                by_type.setdefault(v.nodes[cp][3], cp)
            pre = [['cp', c] for t0, c in sorted(by_type.items()) if not (s['nstype'] == 'L2PTP' and t0 == 'SharedPort')]
            r.shuffle(pre)
            s['ifs'] = pre + [x for x in s['ifs'] if x not in pre][:1]
        if ft == 'bad_prop':
            s['kw'], s['pos'] = self.kw(bad=True)
        elif ft == 'bad_name':
            s['name'] = self.bad_name(2)
        elif ft == 'no_nstype':
            s['nstype'] = None
        elif ft == 'dup_id':
            s['node_id'] = r.choice(list(v.nodes))
        elif ft == 'dup_name':
            s['name'] = r.choice(v.top_services())[2]
        else:
            good = s['ifs']
            if ft == 'if_l2ptp_shared':
                s['nstype'] = 'L2PTP'
                good = [x for x in good if v.nodes[x[1]][3] != 'SharedPort'][:1]
                bad = ['cp', r.choice(shared)[1]]
            elif ft == 'if_already_connected':
                bad = ['cp', r.choice(conn)[1]]
            elif ft == 'if_twice':
                if not good:
                    good = [['cp', r.choice(free)[1]]]
                bad = list(r.choice(good))
            elif ft == 'if_stale':
                bad = ['saved', r.choice(self.stale)]
            elif ft == 'if_not_owned':
                bad = ['cp', r.choice(v.service_ports())]
            elif ft == 'if_link_name_taken':
                # a link that already carries the name connect_interface derives for this interface
                n0, cp0 = r.choice(free)
                bad = ['cp', cp0]
                other = [c[0] for c in v.of_class('ConnectionPoint') if c[0] != cp0]
                self.do({'op': 'add_link', 'name': n0[2] + '-' + v.nodes[cp0][2] + '-link', 'ltype': 'L2Path',
                         'ifs': [['cp', r.choice(other)]], 'node_id': self.nid('l')}, False)
                v = self.view()
                good = [x for x in good if x[1] != cp0 and not v.connected(x[1])]
            else:   # if_long_derived_name: an interface whose owner name + '-' + name (+ '-link') exceeds 255
                bad = ['cp', r.choice([x for x in free_all if x not in free])[1]]
            good = [x for x in good if x != bad or ft == 'if_twice']
            if ft == 'if_twice':
                pos = r.randrange(1, len(good) + 1)
            else:
                pos = r.randrange(0, len(good) + 1)
            s['ifs'] = good[:pos] + [bad] + good[pos:]
            s['pos'] = pos
            if ft == 'if_l2ptp_shared':
                s['ifs'] = s['ifs'][:2] if pos < 2 else [s['ifs'][0], bad]
                s['pos'] = s['ifs'].index(bad)
        return s

    def f_add_node_service(self, v, valid):
        r = self.rng
        if valid:
            return self.s_add_node_service(v, kw=self.kw()[0])
        faults = ['bad_prop', 'bad_name', 'no_nstype', 'dup_id']
        withsvc = [n for n in v.net_nodes() + v.facilities() if v.node_services(n[0])]
        if withsvc:
            faults += ['dup_name'] * 2
        ft = r.choice(faults)
        s = self.s_add_node_service(v, fault=ft)
        if ft == 'bad_prop':
            s['kw'], s['pos'] = self.kw(bad=True)
        elif ft == 'bad_name':
            s['name'] = self.bad_name(2)
        elif ft == 'no_nstype':
            s['nstype'] = None
        elif ft == 'dup_id':
            s['node_id'] = r.choice(list(v.nodes))
        elif ft == 'dup_name':
            n = r.choice(withsvc)
            s['node'], s['name'] = n[2], r.choice(v.node_services(n[0]))[2]
        return s

    def f_add_interface(self, v, valid):
        r = self.rng
        if valid:
            return self.s_add_interface(v, kw=self.kw()[0])
        faults = ['bad_prop', 'bad_name', 'no_itype', 'dup_id']
        withif = [(ref, sv) for (ref, sv) in self.svc_refs(v) if v.nb(sv[0], 'connects', 'ConnectionPoint')]
        if withif:
            faults += ['dup_name'] * 2
        if self.sub:
            faults += ['sub_no_id']
        ft = r.choice(faults)
        s = self.s_add_interface(v, fault=ft)
        if ft == 'bad_prop':
            s['kw'], s['pos'] = self.kw(bad=True)
        elif ft == 'bad_name':
            s['name'] = self.bad_name(1)
        elif ft == 'no_itype':
            s['itype'] = None
        elif ft == 'dup_id':
            s['node_id'] = r.choice(list(v.nodes))
        elif ft == 'sub_no_id':
            s['node_id'] = None
        elif ft == 'dup_name':
            ref, sv = r.choice(withif)
            s['svc'] = ref
            s['name'] = v.nodes[r.choice(v.nb(sv[0], 'connects', 'ConnectionPoint'))][2]
        return s

    def f_add_link(self, v, valid):
        r = self.rng
        if valid:
            return self.s_add_link(v, kw=self.kw()[0])
        faults = ['bad_prop', 'bad_name', 'no_ltype', 'dup_id', 'no_ifs']
        if v.of_class('Link'):
            faults += ['dup_name']
        if self.stale:
            faults += ['if_stale'] * 4
        if self.sub:
            faults += ['sub_no_id']
        ft = r.choice(faults)
        s = self.s_add_link(v, fault=ft)
        if ft == 'bad_prop':
            s['kw'], s['pos'] = self.kw(bad=True)
        elif ft == 'bad_name':
            s['name'] = self.bad_name(2)
        elif ft == 'no_ltype':
            s['ltype'] = None
        elif ft == 'dup_id':
            s['node_id'] = r.choice(list(v.nodes))
        elif ft == 'sub_no_id':
            s['node_id'] = None
        elif ft == 'no_ifs':
            s['ifs'] = r.choice([None, []])
        elif ft == 'dup_name':
            s['name'] = r.choice(v.of_class('Link'))[2]
        elif ft == 'if_stale':
            pos = r.randrange(0, len(s['ifs']) + 1)
            s['ifs'].insert(pos, ['saved', r.choice(self.stale)])
            s['pos'] = pos
        return s

    def f_add_facility(self, v, valid):
        r = self.rng
        if valid:
            return self.s_add_facility()
        faults = ['dup_name', 'bad_name', 'late_bad_ifname', 'late_bad_iflabels', 'late_ns_name_too_long', 'late_bad_nslabels',
                  'late_bad_kw', 'late_dup_ifname']
        if v.nodes:
            faults += ['dup_id', 'late_derived_id_collision']
        if self.sub:
            faults += ['sub_no_id']
        ft = r.choice(faults)
        s = self.s_add_facility(fault=ft)
        if ft == 'dup_name':
            pool = v.net_nodes() + v.facilities()
            if not pool:
                return None
            s['name'] = r.choice(pool)[2]
        elif ft == 'bad_name':
            s['name'] = self.bad_name(2)
        elif ft == 'dup_id':
            s['node_id'] = r.choice(list(v.nodes))
        elif ft == 'sub_no_id':
            s['node_id'] = None
        elif ft in ('late_bad_ifname', 'late_bad_iflabels'):
            m = r.randrange(1, 4)
            s.pop('kw', None)
            s['interfaces'] = [[self.fresh_name('fp'), None, None] for _ in range(m)]
            pos = r.randrange(m)
            s['pos'] = pos
            if ft == 'late_bad_ifname':
                s['interfaces'][pos][0] = r.choice(['', 'y' * 256, 'bad*'])
            else:
                s['interfaces'][pos][r.choice([1, 2])] = ['raw', 'not-an-object']
        elif ft == 'late_dup_ifname':
            m = r.randrange(2, 5)
            s.pop('kw', None)
            s['interfaces'] = [[self.fresh_name('fp'), None, None] for _ in range(m)]
            pos = r.randrange(1, m)
            s['interfaces'][pos][0] = s['interfaces'][r.randrange(0, pos)][0]
            s['pos'] = pos
        elif ft == 'late_ns_name_too_long':
            s['name'] = 'F' * r.choice([253, 254, 255])
        elif ft == 'late_bad_nslabels':
            s['nslabels'] = ['raw', 5]
        elif ft == 'late_bad_kw':
            s.pop('interfaces', None)
            s['kw'], s['pos'] = self.kw(bad=True)
        elif ft == 'late_derived_id_collision':
            base = 'fx-%d' % self.k
            s['node_id'] = base
            suffix = r.choice(['-ns', '-int', '-int0', '-int1'])
            # a node whose id is the derived id must already be there: create it as a build step
            pre = self.s_add_node(node_id=base + suffix)
            self.do(pre, False)
            if suffix == '-int':
                s.pop('interfaces', None)
            elif suffix in ('-int0', '-int1'):
                s['interfaces'] = [[self.fresh_name('fp'), None, None] for _ in range(2)]
                s.pop('kw', None)
                s['pos'] = int(suffix[-1])
        return s

    def svc_if_names(self, v, sv):
        return [v.nodes[c][2] for c in v.nb(sv[0], 'connects', 'ConnectionPoint')]

    def f_peer(self, v, valid):
        r = self.rng
        refs = self.svc_refs(v)
        pairs = [(x, y) for x in refs for y in refs if x[1][0] != y[1][0]]
        if not pairs:
            return None
        def names(x, y):
            return x[1][2] + '-' + y[1][2], y[1][2] + '-' + x[1][2]
        fresh = [(x, y) for (x, y) in pairs if names(x, y)[0] not in self.svc_if_names(v, x[1])
                 and names(x, y)[1] not in self.svc_if_names(v, y[1]) and len(names(x, y)[0]) + 5 <= 255]
        done = [(x, y) for (x, y) in pairs if names(x, y)[0] in self.svc_if_names(v, x[1])]
        longl = [(x, y) for (x, y) in pairs if names(x, y)[0] not in self.svc_if_names(v, x[1])
                 and names(x, y)[1] not in self.svc_if_names(v, y[1]) and 251 <= len(names(x, y)[0]) <= 255]
        toolong = [(x, y) for (x, y) in pairs if len(names(x, y)[0]) > 255]
        if valid:
            if not fresh:
                return None
            x, y = r.choice(fresh)
            return {'op': 'peer', 'a': x[0], 'b': y[0], 'kw': self.kw()[0] if r.random() < 0.4 else []}
        faults = ['bad_prop']
        if done:
            faults += ['dup'] * 2
        if fresh:
            faults += ['late_other_name_taken'] * 3
        if longl:
            faults += ['late_link_name_too_long'] * 6
        if toolong:
            faults += ['bad_name'] * 2
        ft = r.choice(faults)
        if ft == 'bad_prop':
            x, y = r.choice(fresh or pairs)
            kw, pos = self.kw(bad=True)
            return {'op': 'peer', 'a': x[0], 'b': y[0], 'kw': kw, 'pos': pos, 'fault': ft}
        if ft == 'dup':
            x, y = r.choice(done)
        elif ft == 'late_link_name_too_long':
            x, y = r.choice(longl)
        elif ft == 'bad_name':
            x, y = r.choice(toolong)
        else:
            x, y = r.choice(fresh)
            # the other service already has an interface with the name peer() is going to use there
            self.do({'op': 'add_interface', 'svc': y[0], 'name': names(x, y)[1], 'itype': 'TrunkPort',
                     'node_id': self.nid('p')}, False)
        return {'op': 'peer', 'a': x[0], 'b': y[0], 'kw': [], 'fault': ft}

    def f_add_switch(self, v, valid):
        r = self.rng
        if valid:
            return self.s_add_switch()
        faults = ['bad_name', 'late_bad_nslabels', 'late_bad_portlabels', 'late_ns_name_too_long']
        if v.net_nodes() + v.facilities():
            faults += ['dup_name'] * 2
        if v.nodes:
            faults += ['dup_id', 'late_derived_id_collision', 'late_derived_id_collision']
        if self.sub:
            faults += ['sub_no_id']
        ft = r.choice(faults)
        s = self.s_add_switch(fault=ft)
        if ft == 'dup_name':
            s['name'] = r.choice(v.net_nodes() + v.facilities())[2]
        elif ft == 'bad_name':
            s['name'] = self.bad_name(2)
        elif ft == 'dup_id':
            s['node_id'] = r.choice(list(v.nodes))
        elif ft == 'sub_no_id':
            s['node_id'] = None
        elif ft == 'late_bad_nslabels':
            s['nslabels'] = ['raw', 5]
        elif ft == 'late_bad_portlabels':
            s[r.choice(['portlabels', 'portcapacities'])] = ['raw', 'not-an-object']
        elif ft == 'late_ns_name_too_long':
            s['name'] = 'W' * r.choice([253, 254, 255])
        elif ft == 'late_derived_id_collision':
            base = 'swx-%d' % self.k
            s['node_id'] = base
            s['nports'] = 3
            suffix = r.choice(['-ns', '-int1', '-int2', '-int3'])
            self.do(self.s_add_node(node_id=base + suffix), False)
            if suffix != '-ns':
                s['pos'] = int(suffix[-1])
        return s

    # ------------------------------------------------------------ the history
    def build_step(self, v):
        r = self.rng
        nn = v.net_nodes()
        choices = ['add_node'] * 2
        if nn:
            choices += ['add_component'] * 4 + ['add_node_service']
        if len(self.free_cps(v)) >= 1:
            choices += ['add_service'] * 3
        choices += ['add_facility']
        if r.random() < 0.3:
            choices += ['add_switch']
        if self.svc_refs(v) and r.random() < 0.3:
            choices += ['add_interface']
        if self.sub and len(v.of_class('ConnectionPoint')) >= 2:
            choices += ['add_link'] * 2
        removable = [n for n in nn if v.node_cps(n[0])]
        if removable and r.random() < 0.35:
            choices += ['remove_node_saving'] * 3
        if v.top_services() and r.random() < 0.2:
            choices += ['remove_service']
        if len(v.top_services()) >= 2 and r.random() < 0.3:
            choices += ['peer'] * 2
        if r.random() < 0.25:
            choices += ['add_child'] * 2 + ['connect', 'rename']
        node_svcs = [(ref, sv) for (ref, sv) in self.svc_refs(v) if ref[0] == 'node']
        if node_svcs and r.random() < 0.5:
            choices += ['node_service_port'] * 3
        c = r.choice(choices)
        if c == 'add_node':
            return [self.s_add_node()]
        if c == 'add_component':
            return [self.s_add_component(v)]
        if c == 'add_node_service':
            return [self.s_add_node_service(v)]
        if c == 'add_service':
            return [self.s_add_service(v)]
        if c == 'add_facility':
            return [self.s_add_facility()]
        if c == 'add_switch':
            return [self.s_add_switch()]
        if c == 'add_interface':
            return [self.s_add_interface(v)]
        if c == 'add_link':
            return [self.s_add_link(v)]
        if c == 'remove_node_saving':
            n = r.choice(removable)
            cps = v.node_cps(n[0])
            key = 'k%d' % len(self.steps)
            self.stale.append(key)
            return [{'op': 'save_if', 'ref': ['cp', r.choice(cps)], 'as': key}, {'op': 'remove_node', 'name': n[2]}]
        if c == 'peer':
            sp = self.f_peer(v, True)
            return [sp] if sp else []
        if c == 'node_service_port':
            ref, sv = r.choice(node_svcs)
            return [{'op': 'add_interface', 'svc': ref, 'name': self.fresh_name('sp'), 'itype': 'ServicePort',
                     'node_id': self.nid('sp')}]
        if c in ('add_child', 'connect', 'rename'):
            sp = getattr(self, 'f_' + c)(v, True)
            return [sp] if sp else []
        if c == 'remove_service':
            return [{'op': 'remove_service', 'name': r.choice(v.top_services())[2]}]

    def run(self, n_build, n_tested):
        r = self.rng
        # initial topology
        self.make_kits()
        if self.long_names:
            # a node and a NIC whose names make the derived peer-interface / link names hit the 255 limit
            total = r.choice([250, 251, 251, 252, 252])     # len(node)+1+len(comp)+3; the NIC's own service name needs +6 <= 255
            ln = r.randrange(100, 200)
            nm = self.fresh_name('n')
            nm = nm + 'L' * (ln - len(nm))
            self.do(self.s_add_node(name=nm, ntype='VM'), False)
            cn = self.fresh_name('c')
            cn = cn + 'M' * (total - ln - 4 - len(cn))
            mt = r.choice(NIC_MODELS[:3])
            over = {'node': nm, 'name': cn, 'model_type': mt[0]}
            sp = self.s_add_component(self.view(), **over)
            sp.pop('ctype', None), sp.pop('model', None)
            if self.sub:
                sp['ns_id'] = self.nid('cs')
                sp['if_ids'] = [self.nid('ci') for _ in range(mt[3])]
                sp['if_labels'] = mt[3]
            self.do(sp, False)
        if self.long_names and not self.sub and r.random() < 0.6:
            tot = r.choice([251, 252, 253, 254, 255, 256])          # len(A) + 1 + len(B)
            la = r.randrange(100, 140)
            for ln in (la, tot - 1 - la):
                nm = self.fresh_name('s')
                self.do({'op': 'add_service', 'name': nm + 'S' * (ln - len(nm)), 'nstype': 'L2Bridge', 'ifs': []}, False)
        for _ in range(n_build):
            for s in self.build_step(self.view()):
                self.do(s, False)
        done = 0
        guard = 0
        while done < n_tested and guard < 4 * n_tested:
            guard += 1
            v = self.view()
            if r.random() < 0.25:
                for s in self.build_step(v):
                    self.do(s, False)
                continue
            s = self.tested_call(v)
            if s is None:
                continue
            self.do(s, True)
            done += 1
        self.im.close()
        return self.cases


def generate(rng, tier, cache):
    n_hist = 70 if tier == 'quick' else 900
    cases = []
    for h in range(n_hist):
        flavour = 'sub' if rng.random() < 0.3 else 'exp'
        g = HistGen(rng, flavour, cache, long_names=(rng.random() < 0.25))
        cases += g.run(n_build=rng.randrange(2, 9), n_tested=rng.randrange(6, 12))
    # self-check of the caching shortcut: the observation recorded while generating must be what a
    # replay of the case from scratch gives
    for c in cases[::max(1, len(cases) // 12)]:
        k = json.dumps(c, sort_keys=True)
        o2 = observe_case(c)
        if json.dumps(cache[k], sort_keys=True) != json.dumps(o2, sort_keys=True):
            raise RuntimeError('C09 harness: cached observation differs from a replay from scratch')
    return cases


def corpus():
    import os
    d = os.path.join(os.path.dirname(os.path.dirname(os.path.abspath(__file__))), 'corpus', 'C09')
    out = []
    if os.path.isdir(d):
        for fn in sorted(os.listdir(d)):
            if fn.endswith('.json'):
                with open(os.path.join(d, fn)) as f:
                    out.append(json.load(f))
    return out


WITNESS_CASES = {}      # no `_refuted` theorem describes the running library any more (all repairs landed)


def refuted_witnesses():
    """the witnesses of the ..._refuted theorems replayed on the real code: same scenario as the Coq term
    (corpus/C09/<name>.json); still failing = the call raises and the snapshot differs"""
    import os
    d = os.path.join(os.path.dirname(os.path.dirname(os.path.abspath(__file__))), 'corpus', 'C09')
    out = []
    for thm, fn in WITNESS_CASES.items():
        def run(fn=fn):
            with open(os.path.join(d, fn + '.json')) as f:
                case = json.load(f)
            o = observe_case(case)
            changed = json.dumps(o['pre'], sort_keys=True) != json.dumps(o['post'], sort_keys=True)
            still = bool(o['exc']) and changed
            return still, {'case': fn, 'exception': o['exc'], 'nodes_before': len(o['pre']['nodes']),
                           'nodes_after': len(o['post']['nodes'])}
        out.append((thm, run))
    return out

"""C04 - graphs sharing the in-memory store are isolated; clones are independent.

Streams: random interleaved histories (and an exhaustive small-depth enumeration) over 3 graph ids on the
shared store and on the one-graph-per-id store.  After every step the harness records the result /
exception class and the whole-store snapshot (internal ids included); Coq evaluates Model/Store.v resp.
Model/StoreDisjoint.v on the same history and compares every step.  The oracle restates the property
over the implementation's snapshots only."""
import sys, json, itertools
from . import common
from .common import *
from . import store_common as sc

HEADER = ('From Coq Require Import List NArith.\nImport ListNotations.\n'
          'From FIM Require Import Base.Assoc Model.Store Model.StoreDisjoint.\nOpen Scope N_scope.\n')


def import_content(op, view):
    """an (effective) import installs exactly the imported nodes and links"""
    k = op[0]
    want = []
    for key, d in op[2]:
        d = dict(d)
        d['GraphID'] = op[1] if k == 'import' else d.get('GraphID')
        want.append(sc.cprops({a: b for a, b in d.items() if b is not None}))
    got = [n[1] for n in view[0]]
    if got != want:
        return 'graph %s does not hold exactly the imported nodes' % op[1]
    pos = {key: j for j, (key, _) in enumerate(op[2])}
    idx = {n[0]: j for j, n in enumerate(view[0])}
    want_e = sorted(json.dumps([sorted([pos[a], pos[b]]), sc.cprops(d)]) for a, b, d in op[3])
    got_e = sorted(json.dumps([sorted([idx[e[0]], idx[e[1]]]), e[2]]) for e in view[1])
    if want_e != got_e:
        return 'graph %s does not hold exactly the imported links' % op[1]
    return None


def clone_content(kind, a, b, dst):
    """a clone has the content of its source under the new id"""
    strip = lambda ps: [kv for kv in ps if kv[0] != sc.GID]
    if [strip(n[1]) for n in a[0]] != [strip(n[1]) for n in b[0]] or any(sc.pget(n[1], sc.GID) != dst for n in b[0]):
        return 'clone: node content differs from the source'
    ia = {n[0]: j for j, n in enumerate(a[0])}
    ib = {n[0]: j for j, n in enumerate(b[0])}
    ea = sorted(json.dumps([sorted([ia[e[0]], ia[e[1]]]), e[2]]) for e in a[1])
    eb = sorted(json.dumps([sorted([ib[e[0]], ib[e[1]]]), e[2]]) for e in b[1])
    if ea != eb:
        return 'clone: link content differs from the source'
    if set(ia) & set(ib) and kind == 'shared':
        return 'clone shares internal ids with its source'
    return None


def frame_oracle(kind, ops, obs):
    """the property over implementation observables: an operation addressed to g (other than the
    deliberate re-homing of nodes by rewriting GraphID, and node merging, which is cross-graph by
    contract) leaves what every other graph id can see unchanged - internal ids included; an effective
    import installs exactly the imported nodes (nothing stored is overwritten); a clone has the content
    of its source under the new id."""
    empty = [[], []] if kind == 'shared' else []
    if sc.uncanonical(obs):
        return sc.uncanonical(obs)
    snaps = sc.snapshots(obs, empty)
    prev = sc.views(kind, empty)
    rehomed = False
    known = None
    for i, (op, o) in enumerate(zip(ops, obs)):
        raw, op = op, sc.norm_op(op)       # an importer call counts as the storage call it must amount to
        # graph ids whose per-id nx.Graph holds nodes (whatever their GraphID property says)
        stored = set() if kind == 'shared' or i == 0 else {e[0] for e in snaps[i - 1]}
        cur = sc.views(kind, snaps[i])
        k = op[0]
        # every graph also seen through the PUBLIC listings: they agree with the stored content (so an operation addressed
        # to another graph cannot change what a graph lists) - as long as no node was re-homed by rewriting GraphID
        if 'p' in o and not rehomed and not sc.rehomes(op):
            why = sc.probe_check(kind, snaps[i], o['p'], sc.GIDS[:3])
            if why:
                return 'step %d %s addressed to %s: %s' % (i, k, sc.target(op), why)
        if k == 'upd_nodes' and o['r'][0] == 'ok' and not sc.rehomes(op) and not rehomed:
            g = sc.SYM[op[1]]
            miss = [n for n in cur.get(g, [[], []])[0] if sc.pget(n[1], sc.SYM[op[2]]) != sc.cv(op[3])]
            if miss:
                return 'step %d update_nodes_property(%s) on graph %s left %d of its nodes without the new value' % (
                    i, op[2], op[1], len(miss))
        if k == 'refused':
            # an empty graph, a node without GraphID or mixed GraphIDs on a direct entry point: the importer must raise
            # before the storage is touched
            if raw[0] != 'imp':        # a singular setter called with prop_val=None
                if o['r'][0] == 'ok' or o['s'] is not None:
                    return 'step %d %s with a None value was not refused / changed the store' % (i, raw[0])
                prev = cur
                continue
            if o['r'][0] == 'ok':
                return 'step %d importer %s accepted a graph it must refuse (%s)' % (
                    i, raw[4], 'empty graph' if not raw[2] else 'nodes do not all carry one GraphID')
            if o['s'] is not None:
                return 'step %d a refused import (%s) changed the store' % (i, raw[4])
            prev = cur
            continue
        if kind == 'shared':
            ids = [n[0] for n in snaps[i][0]]
            if len(ids) != len(set(ids)):
                return 'step %d %s: two stored nodes share an internal id' % (i, k)
        else:
            for g, (nodes, _) in snaps[i]:
                ids = [n[0] for n in nodes]
                if len(ids) != len(set(ids)):
                    return 'step %d %s: two nodes of graph %s share an internal id' % (i, k, sc.UNSYM[g])
        if not sc.rehomes(op) and k != 'merge':
            t = sc.SYM[sc.target(op)]
            for g in set(prev) | set(cur):
                if g != t and prev.get(g) != cur.get(g):
                    return 'step %d %s addressed to %s changed graph %s' % (i, k, sc.target(op), sc.UNSYM.get(g, g))
        if k == 'merge' and not sc.rehomes(op):
            t = {sc.SYM[op[1]], sc.SYM[op[3]]}
            for g in set(prev) | set(cur):
                if g not in t and prev.get(g) != cur.get(g):
                    return 'step %d merge(%s,%s) changed graph %s' % (i, op[1], op[3], sc.UNSYM.get(g, g))
        ok = o['r'][0] == 'ok'
        if k == 'add_node' and ok and not sc.rehomes(op):
            # the new node gets an identity of its own: every node the graph held is still there, unchanged
            g = sc.SYM[op[1]]
            before = {n[0]: n[1] for n in prev.get(g, [[], []])[0]}
            after = {n[0]: n[1] for n in cur.get(g, [[], []])[0]}
            if any(after.get(i) != ps for i, ps in before.items()) or len(after) != len(before) + 1:
                return 'step %d add_node took the internal id of a stored node of graph %s' % (i, op[1])
            if prev.get(g, [[], []])[1] != cur.get(g, [[], []])[1]:
                return 'step %d add_node changed the links of graph %s (the new node inherited links)' % (i, op[1])
        if sc.rehomes(op):
            rehomed = True
        if rehomed:          # nodes may now sit in a graph their GraphID does not name: content checks are off
            prev = cur
            continue
        if k in ('import', 'import_direct') and ok and not (k == 'import_direct' and sc.rehomes(op)):
            g = sc.SYM[op[1]]
            # on the one-graph-per-id store an import / clone onto an id that holds nodes is SKIPPED (recorded finding)
            effective = kind == 'shared' or k == 'import_direct' or g not in stored
            why = import_content(op, cur.get(g, [[], []]))
            if why and effective:
                return 'step %d %s: %s' % (i, k, why)
            if why and known is None:
                known = 'live-id-skipped: step %d import onto graph %s that holds nodes: %s' % (i, op[1], why)
        if k == 'clone':
            # a clone call - whether it succeeds or raises, onto a fresh id, an existing id or the graph's OWN id - leaves
            # the SOURCE graph's content unchanged (internal ids may be renewed when a graph is cloned onto itself)
            src = sc.SYM[op[1]]
            if src in prev and all(sc.pget(n[1], sc.NID) not in ('ABSENT', None) for n in prev[src][0]):
                if src not in cur or sc.api_view(cur[src]) != sc.api_view(prev[src]):
                    return 'step %d clone %s -> %s (%s) changed the content of its SOURCE graph %s' % (
                        i, op[1], op[2], 'ok' if ok else 'raised ' + o['r'][2], op[1])
        if k == 'clone' and op[1] != op[2]:
            src, dst = sc.SYM[op[1]], sc.SYM[op[2]]
            effective = kind == 'shared' or dst not in stored
            if src in prev and all(sc.pget(n[1], sc.NID) not in ('ABSENT', None) for n in prev[src][0]):
                why = ('clone of existing graph %s raised %s' % (op[1], o['r'][2])) if not ok else \
                    clone_content(kind, prev[src], cur.get(dst, [[], []]), dst)
                if why and effective:
                    return 'step %d %s' % (i, why)
                if why and known is None:
                    known = 'live-id-skipped: step %d clone %s -> %s onto an id that holds nodes: %s' % (i, op[1], op[2], why)
        prev = cur
    return known


class Hist(Stream):
    kind = 'shared'
    header = HEADER
    shard = 60

    def __init__(self, kind):
        self.kind = kind
        self.name = kind
        self.case_type = 'list iso_obs' if kind == 'shared' else 'list diso_obs'
        self.check_fn = 'check_iso_shared' if kind == 'shared' else 'check_iso_disjoint'
        self.rule = ('%s store: random interleaved histories (depth 8-30) over 3 graph ids x 5 node ids incl. imports '
                     'of graphs whose keys collide with stored internal ids, re-import, delete+re-import, clone, '
                     'malformed imports, the four importer entry points on serialised graphs (GraphML / node-link JSON, incl. mixed GraphIDs); on the shared store a fifth of the histories start from a pre-state with cross-graph links left by merge_nodes and then clone / delete / import / match the graphs on either side; plus all histories of depth<=D over a 9-operation alphabet; '
                     'non-trivial = at least two graph ids hold nodes at some step and >=3 state-changing steps; '
                     'distinct by (history, observations)' % kind)

    W = {'merge': 0, 'import': 9, 'clone': 6, 'del_graph': 5, 'import_direct': 3}

    EXH = [['add_node', 'g0', 'n0', 'c0', None], ['add_node', 'g1', 'n0', 'c1', {'p0': 'v0'}],
           ['import', 'g0', [[1, {'NodeID': 'n1', 'Class': 'c0'}], [2, {'NodeID': 'n2', 'Class': 'c0'}]],
            [[1, 2, {'Class': 'r0'}]]],
           ['import', 'g1', [[1, {'NodeID': 'n1', 'Class': 'c0', 'GraphID': 'g0'}]], []],
           ['del_graph', 'g0'], ['clone', 'g0', 'g1'], ['clone', 'g1', 'g0'],
           ['del_node', 'g0', 'n1'], ['add_link', 'g0', 'n0', 'r0', 'n1', None],
           ['upd_nodes', 'g1', 'p0', 'v1'], ['graph_exists', 'g1']]

    def gen(self, rng, tier):
        n = 400 if tier == 'quick' else 4000
        out = []
        for i in range(n):
            r = rng.random()
            if self.kind == 'shared' and rng.random() < 0.2:
                # a store that CONTAINS cross-graph links (left by merge_nodes) as pre-state, then extract / clone /
                # delete / import on either side: the merge steps themselves are not compared for isolation
                out.append(sc.cross_link_scenario(rng, extra=rng.randrange(3, 12)))
                continue
            if rng.random() < 0.08:
                out.append(sc.late_add_scenario(rng, extra=rng.randrange(0, 8)))
                continue
            if rng.random() < 0.08:
                out.append(sc.delete_then_add_scenario(rng, extra=rng.randrange(0, 8)))
                continue
            depth = rng.choice([8, 12, 16, 20, 25, 30])
            # merge_nodes is not among the operations C04 quantifies over (C05 covers it)
            h = sc.gen_history(rng, depth, identity_rate=0.03, weights=self.W)
            if rng.random() < 0.4:
                # the four importer entry points (GraphML / node-link JSON text of generated graphs, incl. strings whose
                # nodes carry mixed GraphIDs): a refused import changes nothing, an accepted one touches only its graph
                for _ in range(rng.choice([1, 2, 3])):
                    live = sorted({o2[1] for o2 in h if o2[0] in ('add_node', 'import')})
                    h.insert(rng.randrange(2, len(h) + 1), sc.gen_importer_op(rng, live=live))
            out.append(h)
        d = 2 if tier == 'quick' else 4
        alphabet = self.EXH[:9] if tier == 'quick' else self.EXH
        for k in range(1, d + 1):
            if tier != 'quick' and k == 4:
                # depth 4 over the 9 state-changing operations only
                for t in itertools.product(self.EXH[:9], repeat=4):
                    out.append([list(x) for x in t])
                continue
            for t in itertools.product(alphabet, repeat=k):
                out.append([list(x) for x in t])
        return out

    def corpus(self):
        import glob
        out = []
        for p in sorted(glob.glob(os.path.join(VERIF, 'corpus', 'C04', '*.json'))):
            with open(p) as f:
                c = json.load(f)
            if c.get('kind') in (None, self.kind):
                out.append(c['ops'])
        return out

    def observe(self, case):
        return sc.run_history(self.kind, case)

    def to_coq(self, case, obs):
        return sc.q_iso_steps(self.kind, case, obs)

    def oracle(self, case, obs):
        try:
            return frame_oracle(self.kind, case, obs)
        except Exception as e:      # observations the oracle was not written for are themselves a failure
            return 'unexpected observations: the oracle could not evaluate this history (%s: %s)' % (type(e).__name__, e)

    def key(self, case, obs):
        empty = [[], []] if self.kind == 'shared' else []
        two = any(len(sc.views(self.kind, s)) >= 2 for s in sc.snapshots(obs, empty))
        changing = sum(1 for o in obs if o['s'] is not None)
        if two and changing >= 3:
            return stable_hash([case, obs])
        return None

    def histogram(self, cases, obs):
        return sc.op_histogram(cases, obs)

    def describe(self, case, obs):
        return {'kind': self.kind, 'ops': case, 'results': [o['r'] for o in obs]}

    def shrink(self, case, failing):
        # keep the KIND of failure while shrinking: never shrink an unknown failure into a recorded finding
        import re
        known = [re.compile(k['signature']) for k in known_for('C04') if k.get('signature')]

        def still(cc):
            o = self.observe(cc)
            w = self.oracle(cc, o)
            return bool(w) and not any(r.search(self.known_signature(cc, o, w)) for r in known)
        return sc.shrink_history(case, still)

    def known_signature(self, case, obs, why):
        return '%s: %s' % (self.kind, why or '')


class C04(Check):
    pid = 'C04'
    translators = ['gen_pgconst']
    model_targets = ['Model/Store.vo', 'Model/StoreDisjoint.vo']
    streams = [Hist('shared'), Hist('disjoint')]
    trusted_base = [
        'Coq 8.16.1 kernel (coqc), vm_compute for the correspondence evaluation; no native_compute',
        'Print Assumptions of every C04 theorem: Closed under the global context (no axioms)',
        'Model/Store.v, Model/StoreDisjoint.v: hand transcription of __NetworkXGraphStorage (both flavours), '
        'NetworkXMixin and NetworkXPropertyGraph, validated on every run by the two history streams',
        'modelled not verified: networkx 3.6.1 Graph (insertion-ordered node dict, add_node/add_edge update semantics, '
        'remove_node, convert_node_labels_to_integers, to_dict_of_dicts/from_dict_of_dicts, contracted_nodes(copy=False)) '
        'and networkx_query.search_nodes eq/and',
        'translator/gen_pgconst.py (NO_UNSET_PROPERTIES, NETWORKX_LABEL, property-name constants -> Gen/PGConst.v), fail-closed',
        'harness/store_common.py + harness/c04.py + harness/common.py (string interning, history generation, recording, cases writer)',
    ]
    assumptions = [
        'single-threaded use of the store (lock discipline and concurrent allocation are C20)',
        'property values are strings (or the lists / None that merge_nodes itself creates); node and graph ids are strings',
        'the frame excludes, as the property text does, operations that rewrite the GraphID property (re-homing, C14) '
        'and merge_nodes (cross-graph by contract; it changes exactly its two graphs)',
        'import_graph_*_direct stores graphs whose nodes all carry the GraphID being imported (checked by '
        'ABCGraphImporter.get_graph_id before the storage is called)',
    ]


    def refuted_witnesses(self):
        def f():
            ops = [['add_node', 'g0', 'n0', 'c0', None], ['add_node', 'g1', 'n1', 'c0', None], ['clone', 'g0', 'g1'],
                   ['list_ids', 'g1']]
            obs = sc.run_history('disjoint', ops)
            why = frame_oracle('disjoint', ops, obs)
            return (bool(why) and 'live-id-skipped' in why, {'ops': ops, 'oracle': why, 'results': [o['r'] for o in obs]})
        return [('C04_clone_live_skipped_disjoint_refuted', f)]


if __name__ == '__main__':
    sys.exit(main(C04()))

"""C06 - neighbour and path queries return exactly what their contract describes.

Tie: the harness builds several typed graphs in one in-memory store through the public API (add_node /
add_link), reads the raw node and edge lists back from the networkx objects, runs the query methods of the
REAL code and hands (raw store, query, implementation result) to Coq, where Model/Query6.v is evaluated on the
same store (Model/Query6Check.v: check_case).  The oracle below restates the property over the raw lists
only (set comprehensions, its own BFS and its own brute-force path enumeration); it shares no code with the
model.
"""
import sys, os, json, itertools
from . import common
from .common import *

sys.path.insert(0, os.path.join(VERIF, 'translator'))
from gen_query6 import CLASSES, RELS, CLS_N, REL_N      # one interning table for translator, harness and std_vocab
import gen_query6 as _gq


def _library_vocabulary():
    """the class / relation strings the library itself defines (CLASS_* / REL_* of the repository under test); any
    that the interning table does not know yet gets the next free number.  Returns the pairs (short, long) of
    class names where one CONTAINS the other (a substring test in place of equality confuses exactly those)."""
    try:
        consts = _gq.constants(REPO)
    except Exception:
        consts = {}
    for k, v in sorted(consts.items()):
        if k.startswith('CLASS_') and v not in CLS_N:
            CLASSES.append(v)
            CLS_N[v] = len(CLASSES)
        if k.startswith('REL_') and v not in REL_N:
            RELS.append(v)
            REL_N[v] = len(RELS)
    cp = [(a, b) for a in CLASSES for b in CLASSES if a != b and a in b]
    rp = [(a, b) for a in RELS for b in RELS if a != b and a in b]
    return cp, rp


CLASS_CONTAINMENT, REL_CONTAINMENT = _library_vocabulary()      # [('Link', 'CompositeLink')], []
KNOWN_TAG = 'KNOWN-rel2-filter-ineffective'


def gid_n(g):
    return int(g[1:]) + 1          # 'g0' -> 1


def nid_n(x):
    return int(x[1:]) + 1          # 'n0' -> 1


def sort_ids(l):
    return sorted(l, key=nid_n)


def sort_pairs(l):
    return sorted(l, key=lambda p: (nid_n(p[0]), nid_n(p[1])))


# ----------------------------------------------------------------------------------------------
# running the real code
# ----------------------------------------------------------------------------------------------

_imps = {}


def importer(backend):
    if backend not in _imps:
        if backend == 'disjoint':
            from fim.graph.networkx_property_graph_disjoint import NetworkXGraphImporterDisjoint
            _imps[backend] = NetworkXGraphImporterDisjoint()
        else:
            from fim.graph.networkx_property_graph import NetworkXGraphImporter
            _imps[backend] = NetworkXGraphImporter()
    return _imps[backend]


ALGO_ATTRS = ['weight', 'capacity', 'cost', 'length', 'distance']       # names graph algorithms look at
ALGO_VALUES = [1, 2, 3, 5, 10, 100, 0, -1, -7, 0.5, 2.5, 10 ** 30, 'fast', '10', '', None, True]


def pair_key(a, b):
    return '|'.join(sorted([a, b], key=nid_n))


def lprops_of(case, gid, a, b):
    """ordinary link properties of the case (graph['lprops'] = {'nA|nB': {name: value}}); None when there are none"""
    for g in case['graphs']:
        if g['gid'] == gid:
            return g.get('lprops', {}).get(pair_key(a, b)) or None
    return None


def nprops_of(case, gid, nid):
    for g in case['graphs']:
        if g['gid'] == gid:
            return g.get('nprops', {}).get(nid) or {}
    return {}


def add_algo_props(rng, case, p_link=0.6, numeric_only=False):
    """give links (and nodes) ordinary properties whose NAMES are attribute names graph algorithms look at"""
    vals = [v for v in ALGO_VALUES if isinstance(v, (int, float)) and not isinstance(v, bool) and v > 0] if numeric_only else ALGO_VALUES
    for g in case['graphs']:
        lp, np_ = g.setdefault('lprops', {}), g.setdefault('nprops', {})
        for l in g['links']:
            if rng.random() < p_link:
                d = lp.setdefault(pair_key(l[0], l[1]), {})
                for name in rng.sample(ALGO_ATTRS, rng.choice([1, 1, 2])) + (['weight'] if rng.random() < 0.5 else []):
                    d[name] = rng.choice(vals)
        for n in g['nodes']:
            if rng.random() < 0.25:
                np_[n[0]] = {rng.choice(ALGO_ATTRS): rng.choice(vals)}


def add_weighted_detour(rng, case, id_pool):
    """a graph of its own: a short route whose links carry a large `weight` (cost, length ...) property and a route
    with more links whose properties sum to less; the contract counts links"""
    k = rng.choice([1, 1, 2])                       # links on the short route
    extra = rng.choice([1, 2])
    ids = rng.sample(id_pool, 2 + (k - 1) + (k + extra - 1))
    a, z = ids[0], ids[1]
    short = [a] + ids[2:2 + k - 1] + [z]
    long_ = [a] + ids[2 + k - 1:] + [z]
    rel = rng.choice(['connects', 'has'])
    name = rng.choice(['weight', 'weight', 'weight'] + ALGO_ATTRS)
    heavy = rng.choice([10, 100, 10 ** 30, 7.5])
    light = rng.choice([1, 0, 0.25, 1]) if rng.random() < 0.85 else rng.choice([-1, 'fast', None])
    nodes = [[x, rng.choice(CLASSES)] for x in ids]
    links, lp = [], {}
    for path, w in ((short, heavy), (long_, light)):
        for x, y in zip(path, path[1:]):
            links.append([x, y, rel])
            lp[pair_key(x, y)] = {name: w, 'weight': w} if rng.random() < 0.8 else {name: w}
    rng.shuffle(nodes)
    rng.shuffle(links)
    gid = 'g%d' % len(case['graphs'])
    case['graphs'].append({'gid': gid, 'nodes': nodes, 'links': links, 'lprops': lp})
    for s_, t_ in ((a, z), (z, a)):
        case['queries'].append(['sp', gid, s_, t_, None])
        case['queries'].append(['sp', gid, s_, t_, rel])
        case['queries'].append(['hops', gid, s_, t_, [], 100])
    case['queries'].append(['first', gid, a, rel, nodes[0][1]])


def prune_props(case, failing):
    """shrinking: forget properties of links/nodes that are gone, then every property the failure does not need"""
    case = json.loads(json.dumps(case))
    for g in case['graphs']:
        live = set(pair_key(l[0], l[1]) for l in g['links'])
        if 'lprops' in g:
            g['lprops'] = {k: v for k, v in g['lprops'].items() if k in live}
        if 'nprops' in g:
            g['nprops'] = {k: v for k, v in g['nprops'].items() if k in set(n[0] for n in g['nodes'])}
    for gi, g in enumerate(case['graphs']):
        for fld in ('lprops', 'nprops'):
            for k in list(g.get(fld, {})):
                for name in list(g[fld][k]):
                    c2 = json.loads(json.dumps(case))
                    del c2['graphs'][gi][fld][k][name]
                    if not c2['graphs'][gi][fld][k]:
                        del c2['graphs'][gi][fld][k]
                    if failing(c2):
                        case = c2
                        g = case['graphs'][gi]
    return case


def build_store(case):
    """build the graphs of the case through the public API; returns (importer, {gid: graph object})"""
    imp = importer(case.get('backend', 'joint'))
    imp.delete_all_graphs()
    inst = type(imp.storage).storage_instance       # reset the id counters of the singleton store as well
    if hasattr(inst, 'graph_node_ids'):
        inst.graph_node_ids.clear()
    if hasattr(inst, 'start_id'):
        inst.start_id = 1
    objs = {}
    for g in case['graphs']:
        objs[g['gid']] = imp.graph_class(graph_id=g['gid'], importer=imp)
    # nodes of the different graphs are added interleaved so that their internal keys interleave too
    iters = [[(g['gid'], n) for n in g['nodes']] for g in case['graphs']]
    for tup in itertools.zip_longest(*iters):
        for t in tup:
            if t is not None:
                gid, (nid, cls) = t
                objs[gid].add_node(node_id=nid, label=cls, props=dict(nprops_of(case, gid, nid), Name='name-' + nid))
    iters = [[(g['gid'], l) for l in g['links']] for g in case['graphs']]
    for tup in itertools.zip_longest(*iters):
        for t in tup:
            if t is not None:
                gid, (a, b, rel) = t
                objs[gid].add_link(node_a=a, rel=rel, node_b=b, props=lprops_of(case, gid, a, b))
    # links that cross graph boundaries (shared store only): the stitching step merge_nodes(common id, other
    # graph) leaves the merged node joined to nodes that still carry the other graph's GraphID ...
    if case.get('backend', 'joint') == 'joint':
        for gid, nid, other in case.get('merges', []):
            objs[gid].merge_nodes(node_id=nid, other_graph=objs[other])
        # ... and, more generally, an edge between nodes of two graphs put straight into the shared nx object
        G = imp.storage.get_graph(None)
        for ga, a, gb, b, rel in case.get('cross', []):
            G.add_edge(objs[ga]._find_node(node_id=a), objs[gb]._find_node(node_id=b), Class=rel)
    return imp, objs


def read_raw(case, imp):
    """raw node and edge lists straight from the networkx objects (no query code involved)"""
    nodes, edges = [], []
    if case.get('backend', 'joint') == 'disjoint':
        # one nx.Graph per graph id, internal keys restart at 1 in each: make them globally distinct
        for gi, g in enumerate(case['graphs']):
            G = imp.storage.graphs[g['gid']]
            off = 100000 * (gi + 1)
            for k, d in G.nodes(data=True):
                nodes.append([k + off, d.get('GraphID'), d.get('NodeID'), d.get('Class')])
            for a, b, d in G.edges(data=True):
                edges.append([a + off, b + off, d.get('Class')])
    else:
        G = imp.storage.get_graph(None)
        for k, d in G.nodes(data=True):
            nodes.append([k, d.get('GraphID'), d.get('NodeID'), d.get('Class')])
        for a, b, d in G.edges(data=True):
            edges.append([a, b, d.get('Class')])
    return {'nodes': nodes, 'edges': edges}


def run_query(imp, q, g=None):
    kind, gid = q[0], q[1]
    if g is None:
        g = imp.graph_class(graph_id=gid, importer=imp)
    try:
        if kind == 'first':
            return {'ok': sort_ids(g.get_first_neighbor(node_id=q[2], rel=q[3], node_label=q[4]))}
        if kind == 'second':
            r = g.get_first_and_second_neighbor(node_id=q[2], rel1=q[3], node1_label=q[4], rel2=q[5], node2_label=q[6])
            return {'ok': sort_pairs([list(x) for x in r])}
        if kind == 'sp':
            return {'ok': list(g.get_nodes_on_shortest_path(node_a=q[2], node_z=q[3], rel=q[4]))}
        if kind == 'hops':
            return {'ok': list(g.get_nodes_on_path_with_hops(node_a=q[2], node_z=q[3], hops=list(q[4]), cut_off=q[5]))}
        if kind == 'parent':
            name, pid = g.get_parent(q[2], q[3], q[4])
            if pid is not None and name != 'name-' + pid:
                return {'ok': ['wrong-name', pid]}
            return {'ok': pid}
        if kind == 'peers':
            r = g.find_peer_connection_points(node_id=q[2])
            return {'ok': None if r is None else sort_ids(r)}
        if kind == 'nodecps':
            return {'ok': sort_ids(g.get_all_node_or_component_connection_points(q[2]))}
        raise ValueError(kind)
    except Exception as e:
        return {'err': type(e).__name__}


# ----------------------------------------------------------------------------------------------
# the property restated over the raw lists (independent of the Coq model)
# ----------------------------------------------------------------------------------------------

class Raw:
    def __init__(self, raw, gid):
        self.nodes = {k: (nid, cls) for k, g, nid, cls in raw['nodes'] if g == gid}
        self.by_id = {}
        for k, (nid, cls) in self.nodes.items():
            self.by_id.setdefault(nid, []).append(k)
        self.rel = {}
        for a, b, r in raw['edges']:
            if a in self.nodes and b in self.nodes:
                self.rel[(a, b)] = r
                self.rel[(b, a)] = r
        self.adj = {k: set() for k in self.nodes}
        for (a, b) in self.rel:
            self.adj[a].add(b)

    def key(self, nid):
        ks = self.by_id.get(nid, [])
        return ks[0] if len(ks) == 1 else None

    def nid(self, k):
        return self.nodes[k][0]

    def cls(self, k):
        return self.nodes[k][1]


def spec_first(R, a, rel, cls):
    return sort_ids(R.nid(m) for m in R.adj[a] if R.rel[(a, m)] == rel and R.cls(m) == cls)


def spec_second(R, a, r1, c1, r2, c2):
    """the contract: first relation/class, then second relation/class, never the start node"""
    return sort_pairs([R.nid(b), R.nid(c)] for b in R.adj[a] if R.rel[(a, b)] == r1 and R.cls(b) == c1
                      for c in R.adj[b] if R.rel[(b, c)] == r2 and R.cls(c) == c2 and c != a)


def coded_second(R, a, r1, c1, r2, c2):
    """the known finding's signature: what is returned when the rel2 drop list receives the first-hop node
    instead of the offending second-hop node (so rel2 only decides whether a self-looped first-hop node
    is dropped from its own second neighbours)"""
    out = []
    for b in R.adj[a]:
        if R.rel[(a, b)] == r1 and R.cls(b) == c1:
            offending = any(R.rel[(b, k)] != r2 for k in R.adj[b])
            for c in R.adj[b]:
                if R.cls(c) == c2 and c != a and not (c == b and offending):
                    out.append([R.nid(b), R.nid(c)])
    return sort_pairs(out)


def bfs_dist(R, a, z, rel):
    dist = {a: 0}
    frontier = [a]
    while frontier:
        nxt = []
        for x in frontier:
            for y in R.adj[x]:
                if y not in dist and (rel is None or R.rel[(x, y)] == rel):
                    dist[y] = dist[x] + 1
                    nxt.append(y)
        frontier = nxt
    return dist.get(z)


def valid_path(R, p, a, z, rel):
    """p: list of node ids"""
    ks = [R.key(x) for x in p]
    if not ks or None in ks or ks[0] != a or ks[-1] != z:
        return False
    for x, y in zip(ks, ks[1:]):
        if (x, y) not in R.rel or (rel is not None and R.rel[(x, y)] != rel):
            return False
    return True


def loop_free(R, ks):
    """induced sub-graph on the path has no cycle: no self-loop, no edge besides the path's own edges"""
    on_path = set(zip(ks, ks[1:])) | set(zip(ks[1:], ks))
    for x in ks:
        for y in ks:
            if (x, y) in R.rel and (x == y or (x, y) not in on_path):
                return False
    return True


def best_hops_len(R, a, z, hops, cutoff):
    """length (in nodes) of a shortest simple, loop-free path a..z with all hops and at most cutoff edges"""
    if cutoff < 0:
        return None
    best = [None]

    def dfs(path, seen):
        x = path[-1]
        if x == z:
            ids = [R.nid(k) for k in path]
            if loop_free(R, path) and all(h in ids for h in hops):
                if best[0] is None or len(path) < best[0]:
                    best[0] = len(path)
            return
        if len(path) - 1 >= cutoff:
            return
        for y in sorted(R.adj[x]):
            if y not in seen:
                seen.add(y)
                path.append(y)
                dfs(path, seen)
                path.pop()
                seen.discard(y)
    dfs([a], {a})
    return best[0]


def oracle_query(raw, q, res, vocab=None):
    """None | why"""
    kind, gid = q[0], q[1]
    R = Raw(raw, gid)
    ok = 'ok' in res
    val = res.get('ok')

    def need(*ids):
        return all(R.key(i) is not None for i in ids)

    if kind in ('first', 'parent'):
        if not need(q[2]):
            return None if not ok else '%s answered for a start node that is not in the graph' % kind
        if not ok:
            return '%s raised %s although the start node exists' % (kind, res['err'])
        exp = spec_first(R, R.key(q[2]), q[3], q[4])
        if kind == 'first':
            if val != exp:
                return 'first-neighbour result %r is not exactly the %s-neighbours of class %s: %r' % (val, q[3], q[4], exp)
        else:
            want = exp[0] if len(exp) == 1 else None
            if val != want:
                return 'get_parent returned %r, the single %s-neighbour of class %s is %r' % (val, q[3], q[4], want)
        return None
    if kind in ('second', 'peers', 'nodecps'):
        if kind == 'second':
            args = q[3:7]
        elif kind == 'peers':
            args = ('connects', 'Link', 'connects', 'ConnectionPoint')
        else:
            args = ('has', 'NetworkService', 'connects', 'ConnectionPoint')
        if not need(q[2]):
            return None if not ok else '%s answered for a start node that is not in the graph' % kind
        a = R.key(q[2])
        if kind == 'nodecps' and R.cls(a) not in ('NetworkNode', 'Component', 'CompositeNode'):
            return None if not ok else 'connection points answered for a node that is no node/component'
        if not ok:
            return '%s raised %s although the start node exists' % (kind, res['err'])
        spec = spec_second(R, a, *args)
        coded = coded_second(R, a, *args)
        if kind == 'second':
            proj = lambda l: l
        elif kind == 'peers':
            proj = lambda l: (sort_ids(x[1] for x in l) if l else None)
        else:
            proj = lambda l: sort_ids(x[1] for x in l)
        if val == proj(spec):
            return None
        if val == proj(coded):
            return '%s: %s returned %r, the contract (%s/%s then %s/%s) gives %r' % ((KNOWN_TAG, kind, val) + tuple(args) + (proj(spec),))
        return '%s result %r is neither the contract %r nor the known rel2-unfiltered result %r' % (kind, val, proj(spec), proj(coded))
    if kind == 'sp':
        if not need(q[2], q[3]):
            return None if not ok else 'shortest path answered for an end node that is not in the graph'
        if not ok:
            return 'shortest path (rel=%s) raised %s although both end nodes exist' % (q[4], res['err'])
        a, z = R.key(q[2]), R.key(q[3])
        d = bfs_dist(R, a, z, q[4])
        if d is None:
            return None if val == [] else 'shortest path returned %r but the nodes are not connected via %s' % (val, q[4])
        if val == []:
            return 'shortest path returned [] but the nodes are %d %s-edges apart' % (d, q[4])
        if not valid_path(R, val, a, z, q[4]):
            return 'shortest path %r is not a path of %s-edges between the end nodes' % (val, q[4])
        if len(val) != d + 1:
            return 'shortest path %r has %d edges, the minimum is %d' % (val, len(val) - 1, d)
        return None
    if kind == 'hops':
        if not need(q[2], q[3]):
            return None if not ok else 'path-with-hops answered for an end node that is not in the graph'
        if not ok:
            return 'path-with-hops raised %s although both end nodes exist' % res['err']
        a, z = R.key(q[2]), R.key(q[3])
        L = best_hops_len(R, a, z, q[4], q[5])
        if L is None:
            return None if val == [] else 'path-with-hops returned %r but no loop-free path with the hops exists' % (val,)
        if val == []:
            return 'path-with-hops returned [] but a loop-free path of %d nodes with the hops exists' % L
        ks = [R.key(x) for x in val]
        if not valid_path(R, val, a, z, None) or len(set(ks)) != len(ks):
            return 'path-with-hops result %r is not a simple path between the end nodes' % (val,)
        if not loop_free(R, ks):
            return 'path-with-hops result %r is not loop-free' % (val,)
        if not all(h in val for h in q[4]):
            return 'path-with-hops result %r misses a hop of %r' % (val, q[4])
        if len(val) != L:
            return 'path-with-hops result %r has %d nodes, the shortest qualifying path has %d' % (val, len(val), L)
        return None
    return 'unknown query kind'


# ----------------------------------------------------------------------------------------------
# Coq terms
# ----------------------------------------------------------------------------------------------

def c_ids(l):
    return clist(['%d' % nid_n(x) for x in l])


def c_res(res, f):
    return '(Ok %s)' % f(res['ok']) if 'ok' in res else 'Err'


def c_query(q, res):
    k = q[0]
    g = gid_n(q[1])
    if k == 'first':
        return 'QFirst %d %d %d %d %s' % (g, nid_n(q[2]), REL_N[q[3]], CLS_N[q[4]], c_res(res, c_ids))
    if k == 'second':
        f = lambda l: clist(['(%d,%d)' % (nid_n(a), nid_n(b)) for a, b in l])
        return 'QSecond %d %d %d %d %d %d %s' % (g, nid_n(q[2]), REL_N[q[3]], CLS_N[q[4]], REL_N[q[5]], CLS_N[q[6]], c_res(res, f))
    if k == 'sp':
        rel = 'None' if q[4] is None else '(Some %d)' % REL_N[q[4]]
        return 'QSP %d %d %d %s %s' % (g, nid_n(q[2]), nid_n(q[3]), rel, c_res(res, c_ids))
    if k == 'hops':
        return 'QHops %d %d %d %s %s %s' % (g, nid_n(q[2]), nid_n(q[3]), c_ids(q[4]), cZ(q[5]), c_res(res, c_ids))
    if k == 'parent':
        def f(v):
            if isinstance(v, list):        # wrong name: something the model never predicts
                return '(Some 0)'
            return 'None' if v is None else '(Some %d)' % nid_n(v)
        return 'QParent %d %d %d %d %s' % (g, nid_n(q[2]), REL_N[q[3]], CLS_N[q[4]], c_res(res, f))
    if k == 'peers':
        f = lambda v: 'None' if v is None else '(Some %s)' % c_ids(v)
        return 'QPeers %d %d %s' % (g, nid_n(q[2]), c_res(res, f))
    if k == 'nodecps':
        return 'QNodeCPs %d %d %s' % (g, nid_n(q[2]), c_res(res, c_ids))
    raise ValueError(k)


VOCAB = 'std_vocab'
assert [REL_N['has'], REL_N['connects']] + [CLS_N[c] for c in CLASSES[:6]] == [1, 2, 1, 2, 3, 4, 5, 6]   # = Model std_vocab


def c_store(raw):
    ns = ['mkNode %d %d %d %d' % (k, gid_n(g), nid_n(nid), CLS_N[cls]) for k, g, nid, cls in raw['nodes']]
    es = ['(%d,%d,%d)' % (a, b, REL_N[r]) for a, b, r in raw['edges']]
    return '(mkStore %s %s)' % (clist(ns), clist(es))


# ----------------------------------------------------------------------------------------------
# generators
# ----------------------------------------------------------------------------------------------

def all_queries(g, classes, rels, other_ids=(), hop_mode='small', cutoffs=(100,)):
    """every start/end/relation/class/hop choice on graph g (a dict gid/nodes/links)"""
    gid = g['gid']
    ids = [n[0] for n in g['nodes']]
    qs = []
    for a in ids:
        for r in rels:
            for c in classes:
                qs.append(['first', gid, a, r, c])
        for r1 in rels:
            for c1 in classes:
                for r2 in rels:
                    for c2 in classes:
                        qs.append(['second', gid, a, r1, c1, r2, c2])
        for z in ids:
            for r in [None] + list(rels):
                qs.append(['sp', gid, a, z, r])
            if hop_mode == 'all':
                hopsets = [list(h) for k in range(len(ids) + 1) for h in itertools.combinations(ids, k)]
            else:
                hopsets = [[]] + [[h] for h in ids] + ([ids] if len(ids) > 1 else [])
            # hop lists with a repeated entry / naming the end nodes (a list, not a set)
            hopsets = hopsets + [[h, h] for h in ids] + [[a, z, a]]
            for h in hopsets:
                for co in cutoffs:
                    qs.append(['hops', gid, a, z, h, co])
    return qs


def random_graph(rng, gid, n, classes, rels, id_pool, shape):
    ids = rng.sample(id_pool, n)
    nodes = [[i, rng.choice(classes)] for i in ids]
    links = []
    if shape == 'tree':
        for j in range(1, n):
            links.append([ids[rng.randrange(j)], ids[j], rng.choice(rels)])
        for _ in range(rng.randrange(0, 3)):
            if n >= 2:
                a, b = rng.sample(ids, 2)
                links.append([a, b, rng.choice(rels)])
    elif shape == 'fim':
        # NetworkNode -has- Component -has- NetworkService -connects- ConnectionPoint -connects- Link ...
        order = ['NetworkNode', 'Component', 'NetworkService', 'ConnectionPoint', 'Link', 'ConnectionPoint',
                 'NetworkService', 'CompositeNode', 'ConnectionPoint', 'CompositeLink']
        relof = {('NetworkNode', 'Component'): 'has', ('Component', 'NetworkService'): 'has',
                 ('NetworkNode', 'NetworkService'): 'has', ('CompositeNode', 'NetworkService'): 'has'}
        nodes = [[i, rng.choice(order)] for i in ids]
        for j in range(1, n):
            k = rng.randrange(j)
            ca, cb = nodes[k][1], nodes[j][1]
            rel = relof.get((ca, cb)) or relof.get((cb, ca)) or 'connects'
            if rng.random() < 0.2:
                rel = rng.choice(RELS)
            links.append([ids[k], ids[j], rel])
        for _ in range(rng.randrange(0, 4)):
            if n >= 2:
                a, b = rng.sample(ids, 2)
                links.append([a, b, rng.choice(['has', 'connects'])])
    else:
        p = {'sparse': 0.25, 'medium': 0.5, 'dense': 0.85}[shape]
        for a, b in itertools.combinations(ids, 2):
            if rng.random() < p:
                links.append([a, b, rng.choice(rels)])
        rng.shuffle(links)
    if links and rng.random() < 0.15:            # add_link on an existing pair: the relation is overwritten
        a, b, _ = rng.choice(links)
        links.append([b, a, rng.choice(rels)])
    if rng.random() < 0.08:                      # a self-loop
        a = rng.choice(ids)
        links.append([a, a, rng.choice(rels)])
    return {'gid': gid, 'nodes': nodes, 'links': links}


def random_case(rng, backend):
    ng = rng.choice([1, 2, 2, 3])
    id_pool = ['n%d' % i for i in range(14)]
    shape = rng.choice(['tree', 'tree', 'sparse', 'medium', 'dense', 'fim', 'fim'])
    if shape == 'fim':
        classes, rels = CLASSES, ['has', 'connects']
    else:
        classes = rng.sample(CLASSES, rng.choice([1, 2, 2, 3]))
        rels = rng.sample(RELS, rng.choice([1, 2, 2, 3]))
    graphs = []
    for gi in range(ng):
        n = rng.choice([1, 2, 3, 3, 4, 4, 5, 5, 6, 6, 7, 8, 10, 12])
        if shape == 'dense':
            n = min(n, 7)
        graphs.append(random_graph(rng, 'g%d' % gi, n, classes, rels, id_pool, shape))
    qs = []
    for g in graphs:
        ids = [x[0] for x in g['nodes']]
        nl = len(g['links'])
        pick = lambda: rng.choice(ids) if rng.random() > 0.04 else rng.choice(id_pool)
        pc = lambda: rng.choice(classes) if rng.random() > 0.1 else rng.choice(CLASSES)
        pr = lambda: rng.choice(rels) if rng.random() > 0.1 else rng.choice(RELS)
        for _ in range(3):
            qs.append(['first', g['gid'], pick(), pr(), pc()])
            qs.append(['second', g['gid'], pick(), pr(), pc(), pr(), pc()])
            qs.append(['sp', g['gid'], pick(), pick(), rng.choice([None, None] + rels)])
            qs.append(['parent', g['gid'], pick(), pr(), pc()])
        qs.append(['peers', g['gid'], pick()])
        qs.append(['nodecps', g['gid'], pick()])
        if len(ids) <= 8 and nl <= 14:
            for _ in range(3):
                hops = rng.sample(ids, min(len(ids), rng.choice([0, 0, 1, 1, 2, 3])))
                if rng.random() < 0.05:
                    hops = hops + [rng.choice(id_pool)]
                ha, hz = pick(), pick()
                u = rng.random()
                if u < 0.12 and hops:
                    hops = hops + [rng.choice(hops)]             # a repeated hop
                elif u < 0.2:
                    hops = [ha] + hops + [hz, ha]                # the end nodes named as hops, one of them twice
                qs.append(['hops', g['gid'], ha, hz, hops, rng.choice([100, 100, 100, 200, 0, 1, 2, 3, 4, -1])])
    case = {'backend': backend, 'graphs': graphs, 'queries': qs}
    if rng.random() < 0.2:
        add_weighted_detour(rng, case, id_pool)
    if rng.random() < 0.35:
        add_algo_props(rng, case)
    if rng.random() < 0.2:
        add_chorded_detour(rng, case, id_pool)
    if CLASS_CONTAINMENT and rng.random() < 0.3:
        add_containment(rng, case, id_pool)
    if backend == 'joint' and len(graphs) >= 2 and rng.random() < 0.6:
        add_cross(rng, case)
    if rng.random() < 0.05:
        qs.append(['first', 'g7', 'n0', 'has', 'NetworkNode'])      # a graph that is not in the store
        qs.append(['sp', 'g7', 'n0', 'n1', None])
    return case


def add_chorded_detour(rng, case, id_pool):
    """a graph of its own where a path through the hop is disqualified by the loop test (a-h-b-z with the chord
    a-b) while a chordless path through the hop of the same length or longer exists (a-h-c[-d]-z); the links are
    added in random order, so that networkx enumerates the disqualified path first in some cases and last in others"""
    ids = rng.sample(id_pool, 6)
    a, h, b, z, c, d = ids
    cls = lambda: rng.choice(CLASSES)
    rel = lambda: rng.choice(['connects', 'has'])
    long_detour = rng.random() < 0.5
    nodes = [[x, cls()] for x in ([a, h, b, z, c, d] if long_detour else [a, h, b, z, c])]
    links = [[a, h, rel()], [h, b, rel()], [b, z, rel()], [a, b, rel()], [h, c, rel()]]
    links += [[c, d, rel()], [d, z, rel()]] if long_detour else [[c, z, rel()]]
    rng.shuffle(nodes)
    rng.shuffle(links)
    links = [[y, x, r] if rng.random() < 0.5 else [x, y, r] for x, y, r in links]
    gid = 'g%d' % len(case['graphs'])
    case['graphs'].append({'gid': gid, 'nodes': nodes, 'links': links})
    for s_, t_ in ((a, z), (z, a)):
        case['queries'].append(['hops', gid, s_, t_, [h], 100])
        case['queries'].append(['hops', gid, s_, t_, [h, h], 100])
        case['queries'].append(['hops', gid, s_, t_, [], 100])
        case['queries'].append(['hops', gid, s_, t_, [h, c], 100])
        case['queries'].append(['hops', gid, s_, t_, [h], 3])
    case['queries'].append(['sp', gid, a, z, None])


def add_containment(rng, case, id_pool):
    """class names of the library where one CONTAINS the other (Link / CompositeLink): give one node neighbours of
    BOTH classes over the SAME relation, each with a further neighbour, and ask for either class on the first and
    on the second hop (an `in` / startswith / endswith test in place of equality confuses exactly these)"""
    short, long_ = rng.choice(CLASS_CONTAINMENT)
    g = rng.choice(case['graphs'])
    used = set(n[0] for n in g['nodes'])
    spare = [i for i in id_pool if i not in used]
    if len(spare) < 4:
        return
    x, xc = rng.choice(g['nodes'])
    a, b, a2, b2 = spare[:4]
    r, r2 = rng.choice(['connects', 'connects', 'has'] + RELS), rng.choice(['connects', 'has'] + RELS)
    c2 = rng.choice(['ConnectionPoint', 'ConnectionPoint', short, long_])
    c2b = c2 if rng.random() < 0.7 else rng.choice([short, long_])
    g['nodes'] += [[a, short], [b, long_], [a2, c2], [b2, c2b]]
    g['links'] += [[x, a, r], [x, b, r], [a, a2, r2], [b, b2, r2]]
    if rng.random() < 0.3:
        g['links'].append([a, b, r2])
    gid, qs = g['gid'], case['queries']
    for c in (short, long_):
        qs.append(['first', gid, x, r, c])
        qs.append(['parent', gid, x, r, c])
        qs.append(['second', gid, x, r, c, r2, c2])
        qs.append(['second', gid, a2, r2, short, r, xc])
        qs.append(['second', gid, b2, r2, c, r2, c])
        for y in (a2, b2):
            qs.append(['second', gid, y, r2, rng.choice([short, long_]), r, c])
            qs.append(['first', gid, y, r2, c])
    for y in (x, a2, b2):
        qs.append(['peers', gid, y])
        qs.append(['nodecps', gid, y])
    qs.append(['sp', gid, a2, b2, None])


def add_cross(rng, case):
    """cross-graph links (real merge_nodes and/or injected edges) and queries that start at their end points
    and ask for the relation and class of the FOREIGN neighbour"""
    graphs, qs = case['graphs'], case['queries']
    cls_of = {(g['gid'], n[0]): n[1] for g in graphs for n in g['nodes']}
    ends = []            # (gid, node id, relation, class of the foreign neighbour)
    merged_away = set()
    if rng.random() < 0.5:
        ga, gb = rng.sample(graphs, 2)
        common = sorted(set(n[0] for n in ga['nodes']) & set(n[0] for n in gb['nodes']), key=nid_n)
        if common:
            nid = rng.choice(common)
            case['merges'] = [[ga['gid'], nid, gb['gid']]]
            merged_away.add((gb['gid'], nid))
            for a, b, rel in gb['links']:
                if nid in (a, b) and a != b:
                    o = b if a == nid else a
                    ends.append((ga['gid'], nid, rel, cls_of[(gb['gid'], o)]))
    if 'merges' not in case or rng.random() < 0.5:
        case['cross'] = []
        for _ in range(rng.choice([1, 1, 2, 3])):
            ga, gb = rng.sample(graphs, 2)
            a, b = rng.choice(ga['nodes'])[0], rng.choice(gb['nodes'])[0]
            if (ga['gid'], a) in merged_away or (gb['gid'], b) in merged_away:
                continue
            rel = rng.choice(RELS)
            case['cross'].append([ga['gid'], a, gb['gid'], b, rel])
            ends.append((ga['gid'], a, rel, cls_of[(gb['gid'], b)]))
            ends.append((gb['gid'], b, rel, cls_of[(ga['gid'], a)]))
    for gid, nid, rel, cls in ends:
        g = [x for x in graphs if x['gid'] == gid][0]
        ids = [n[0] for n in g['nodes']]
        qs.append(['first', gid, nid, rel, cls])
        qs.append(['parent', gid, nid, rel, cls])
        qs.append(['second', gid, nid, rel, cls, rng.choice(RELS), rng.choice(CLASSES)])
        qs.append(['second', gid, rng.choice(ids), rng.choice(RELS), cls_of[(gid, nid)], rel, cls])
        qs.append(['sp', gid, nid, rng.choice(ids), rng.choice([None, rel])])
        qs.append(['peers', gid, nid])
        qs.append(['nodecps', gid, nid])
        if len(ids) <= 8 and len(g['links']) <= 14:
            qs.append(['hops', gid, nid, rng.choice(ids), [], 100])


def exhaustive_cases(nmax, backend, hop_mode, sorted_classes_from=99, pair_classes=False):
    """every loop-free typed graph with at most nmax nodes over 2 classes x 2 relations, next to a fixed
    foreign graph that reuses the same NodeIDs; every start/end/relation/class/hop choice"""
    classes, rels = ['NetworkService', 'ConnectionPoint'], ['has', 'connects']
    if CLASS_CONTAINMENT and pair_classes:
        classes = list(CLASS_CONTAINMENT[0])       # two classes of which one name contains the other
    foreign = {'gid': 'g1', 'nodes': [['n0', 'ConnectionPoint'], ['n1', 'NetworkService'], ['n2', 'ConnectionPoint'], ['n5', 'Link']],
               'links': [['n0', 'n1', 'connects'], ['n1', 'n2', 'has'], ['n2', 'n5', 'connects']]}
    out = []
    for n in range(1, nmax + 1):
        ids = ['n%d' % i for i in range(n)]
        pairs = list(itertools.combinations(ids, 2))
        for cl in itertools.product(classes, repeat=n):
            if n >= sorted_classes_from and list(cl) != sorted(cl):
                continue            # up to renaming of the nodes
            for ed in itertools.product([None] + rels, repeat=len(pairs)):
                g = {'gid': 'g0', 'nodes': [[i, c] for i, c in zip(ids, cl)],
                     'links': [[a, b, r] for (a, b), r in zip(pairs, ed) if r is not None]}
                # every link carries ordinary properties named weight / cost: heavy on `has`, light on `connects`
                g['lprops'] = {pair_key(a, b): ({'weight': 10, 'cost': 'high'} if r == 'has' else {'weight': 1, 'length': 0})
                               for (a, b), r in zip(pairs, ed) if r is not None}
                cross = []
                if backend == 'joint' and n >= 2:
                    # n0 -has- (g1's NetworkService n1), n1 -connects- (g1's ConnectionPoint n0), n0 -connects- (g1's Link n5)
                    cross = [['g0', 'n0', 'g1', 'n1', 'has'], ['g0', 'n1', 'g1', 'n0', 'connects'], ['g0', 'n0', 'g1', 'n5', 'connects']]
                out.append({'backend': backend, 'graphs': [g, foreign], 'cross': cross,
                            'queries': all_queries(g, classes, rels, hop_mode=hop_mode,
                                                   cutoffs=(100, 1) if n <= 3 else (100,))})
    return out


WITNESS = {'backend': 'joint',
           'graphs': [{'gid': 'g0', 'nodes': [['n0', 'NetworkNode'], ['n1', 'NetworkService'], ['n2', 'ConnectionPoint'],
                                              ['n3', 'ConnectionPoint']],
                       'links': [['n0', 'n1', 'has'], ['n1', 'n2', 'connects'], ['n1', 'n3', 'has']]}],
           'queries': [['second', 'g0', 'n0', 'has', 'NetworkService', 'connects', 'ConnectionPoint']]}


# ----------------------------------------------------------------------------------------------
# the streams
# ----------------------------------------------------------------------------------------------

class QueryStream(Stream):
    header = ('From Coq Require Import List NArith ZArith.\nImport ListNotations.\n'
              'From FIM Require Import Model.Query6 Model.Query6Check.\nOpen Scope N_scope.\n')
    case_type = 'case'
    check_fn = 'check_case'
    shard = 150

    def observe(self, case):
        try:
            imp, _ = build_store(case)
            raw = read_raw(case, imp)
        except Exception as e:
            return {'build_err': type(e).__name__ + ': ' + str(e)[:200], 'raw': {'nodes': [], 'edges': []}, 'results': []}
        return {'raw': raw, 'results': [run_query(imp, q) for q in case['queries']]}

    def to_coq(self, case, obs):
        qs = [c_query(q, r) for q, r in zip(case['queries'], obs['results'])]
        return '(%s, %s, %s)' % (VOCAB, c_store(obs['raw']), clist(['(' + x + ')' for x in qs]))

    def failures(self, case, obs):
        if 'build_err' in obs:
            return [(-1, 'building the graphs failed: ' + obs['build_err'])]
        out = []
        for i, (q, r) in enumerate(zip(case['queries'], obs['results'])):
            try:
                why = oracle_query(obs['raw'], q, r)
            except Exception as e:      # an observation the oracle cannot even read is a failure of the contract
                why = 'result %r of %r is malformed (%s)' % (r, q, type(e).__name__)
            if why:
                out.append((i, why))
        return out

    def oracle(self, case, obs):
        fs = self.failures(case, obs)
        if not fs:
            return None
        new = [f for f in fs if not f[1].startswith(KNOWN_TAG)]
        i, why = (new or fs)[0]
        return '%s [query %d: %r]' % (why, i, case['queries'][i] if i >= 0 else None)

    def known_signature(self, case, obs, why):
        return why or ''

    def key(self, case, obs):
        if not any(g['links'] for g in case['graphs']):
            return None
        return stable_hash([case['graphs'], case.get('merges'), case.get('cross'), case['queries']])

    def describe(self, case, obs):
        return {'graphs': case['graphs'], 'merges': case.get('merges', []), 'cross': case.get('cross', []), 'backend': case.get('backend'),
                'queries': len(case['queries']), 'first_results': list(zip(case['queries'], obs['results']))[:3]}

    def histogram(self, cases, obs):
        h = {'queries': 0, 'graphs_in_store': {}, 'nodes_in_queried_graph': {}, 'kinds': {}, 'raised': 0,
             'nonempty_results': 0, 'known_finding_hits': 0, 'self_loops': 0, 'backend': {},
             'links_with_algorithm_named_properties': 0, 'stores_with_algorithm_named_properties': 0,
             'nodes_with_neighbours_of_both_classes_of_a_containment_pair': 0, 'queries_for_a_class_of_a_containment_pair': 0,
             'stores_with_cross_graph_edges': 0, 'cross_graph_edges': 0, 'stores_after_merge_nodes': 0}
        for c, o in zip(cases, obs):
            h['queries'] += len(c['queries'])
            k = str(len(c['graphs']))
            h['graphs_in_store'][k] = h['graphs_in_store'].get(k, 0) + 1
            h['backend'][c.get('backend', 'joint')] = h['backend'].get(c.get('backend', 'joint'), 0) + 1
            for g in c['graphs']:
                k = str(len(g['nodes']))
                h['nodes_in_queried_graph'][k] = h['nodes_in_queried_graph'].get(k, 0) + 1
                h['self_loops'] += sum(1 for l in g['links'] if l[0] == l[1])
            nlp = sum(len(g.get('lprops', {})) for g in c['graphs'])
            h['links_with_algorithm_named_properties'] += nlp
            h['stores_with_algorithm_named_properties'] += nlp > 0
            pairc = set(x for p_ in CLASS_CONTAINMENT for x in p_)
            h['queries_for_a_class_of_a_containment_pair'] += sum(1 for q in c['queries'] if any(x in pairc for x in q[2:] if isinstance(x, str)))
            clsk = {n[0]: n[3] for n in o['raw']['nodes']}
            nb = {}
            for a, b, r in o['raw']['edges']:
                nb.setdefault(a, set()).add((r, clsk.get(b)))
                nb.setdefault(b, set()).add((r, clsk.get(a)))
            h['nodes_with_neighbours_of_both_classes_of_a_containment_pair'] += sum(
                1 for k, v in nb.items() if any((r, sh) in v and (r, lo) in v for r, _ in v for sh, lo in CLASS_CONTAINMENT))
            gof = {n[0]: n[1] for n in o['raw']['nodes']}
            nx_ = sum(1 for a, b, _ in o['raw']['edges'] if gof.get(a) != gof.get(b))
            h['cross_graph_edges'] += nx_
            h['stores_with_cross_graph_edges'] += nx_ > 0
            h['stores_after_merge_nodes'] += bool(c.get('merges')) and c.get('backend', 'joint') == 'joint'
            for q, r in zip(c['queries'], o['results']):
                h['kinds'][q[0]] = h['kinds'].get(q[0], 0) + 1
                h['raised'] += 'err' in r
                h['nonempty_results'] += bool(r.get('ok'))
            h['known_finding_hits'] += sum(1 for f in self.failures(c, o) if f[1].startswith(KNOWN_TAG))
        return h

    def shrink(self, case, failing):
        case = json.loads(json.dumps(case))
        failing0 = failing
        failing = lambda c: 'build_err' not in self.observe(c) and failing0(c)
        # 1. one query
        o = self.observe(case)
        fs = [f for f in self.failures(case, o) if not f[1].startswith(KNOWN_TAG)] or self.failures(case, o)
        if fs and fs[0][0] >= 0:
            c2 = dict(case, queries=[case['queries'][fs[0][0]]])
            if failing(c2):
                case = c2
        # 2. drop graphs, links, nodes
        changed = True
        while changed:
            changed = False
            for fld in ('merges', 'cross'):
                for i in range(len(case.get(fld, []))):
                    c2 = dict(case, **{fld: case[fld][:i] + case[fld][i + 1:]})
                    if failing(c2):
                        case, changed = c2, True
                        break
                if changed:
                    break
            if changed:
                continue
            for gi in range(len(case['graphs'])):
                c2 = dict(case, graphs=case['graphs'][:gi] + case['graphs'][gi + 1:])
                if c2['graphs'] and failing(c2):
                    case, changed = c2, True
                    break
            if changed:
                continue
            for gi, g in enumerate(case['graphs']):
                for li in range(len(g['links'])):
                    g2 = dict(g, links=g['links'][:li] + g['links'][li + 1:])
                    c2 = dict(case, graphs=case['graphs'][:gi] + [g2] + case['graphs'][gi + 1:])
                    if failing(c2):
                        case, changed = c2, True
                        break
                if changed:
                    break
                for ni in range(len(g['nodes'])):
                    nid = g['nodes'][ni][0]
                    if any(nid in l[:2] for l in g['links']):
                        continue
                    g2 = dict(g, nodes=g['nodes'][:ni] + g['nodes'][ni + 1:])
                    c2 = dict(case, graphs=case['graphs'][:gi] + [g2] + case['graphs'][gi + 1:])
                    if g2['nodes'] and failing(c2):
                        case, changed = c2, True
                        break
                if changed:
                    break
        return prune_props(case, failing)


class RandomStream(QueryStream):
    name = 'random'
    rule = ('1-3 random typed graphs (1-12 nodes each; tree/sparse/medium/dense/FIM-shaped; overwritten links, self-loops; '
            'NodeIDs shared between graphs) in one store, both in-memory backends; per graph 3 queries of each kind '
            '(first, second, shortest path with and without relation, parent), helpers, path-with-hops on graphs <= 8 nodes; '
            '35% of the cases give links (and nodes) ordinary properties NAMED weight / capacity / cost / length / distance (positive, zero, '
            'negative, float, huge, non-numeric, None values) and 20% add a graph with a short route of heavy-weight links next to a '
            'longer light one; hop lists are LISTS (repeated hops, end nodes named as hops); 20% of the cases add a graph with a chorded short path '
            'through the hop next to a chordless detour, links inserted in random order; classes drawn from ALL CLASS_* constants of the library; 30% of the cases give one node neighbours of BOTH classes '
            'of a name-containment pair (Link / CompositeLink, computed from the constants) over the same relation, each with a '
            'further neighbour, and ask for either class on both hops; a few start nodes / graphs that do not exist; 60% of the shared-store cases with >= 2 graphs hold CROSS-GRAPH edges '
            '(real merge_nodes of a common NodeID and/or edges injected between nodes of two graphs) with extra queries at '
            'their end points for the relation/class of the foreign neighbour; non-trivial = the store has an edge; '
            'distinct by (graphs, merges, cross links, queries)')

    def gen(self, rng, tier):
        n = 260 if tier == 'quick' else 6000
        return [random_case(rng, 'disjoint' if i % 3 == 2 else 'joint') for i in range(n)]

    def corpus(self):
        out = [json.loads(json.dumps(WITNESS))]
        d = os.path.join(VERIF, 'corpus', 'C06')
        for p in sorted(glob.glob(os.path.join(d, '*.json'))):
            with open(p) as f:
                out.append(json.load(f))
        return out


class ExhaustiveStream(QueryStream):
    name = 'exhaustive'
    shard = 40
    rule = ('EVERY loop-free typed graph with <= 3 nodes (quick) / <= 4 nodes (thorough; 4-node graphs up to renaming: class '
            'vector sorted) over 2 classes x 2 relations (on the shared store <= 3 nodes the two classes are Link / CompositeLink, the '
            'library\'s pair of class names where one contains the other), stored next to a foreign graph reusing the same NodeIDs; EVERY '
            'start/end node, relation (and none), class, hop set (quick: all subsets; 4 nodes: empty, singletons, all; plus every [h,h] and [a,z,a]) and '
            'cutoff in {100,1}; every link carries weight/cost/length properties (heavy on `has`, light on `connects`); on the shared store every enumerated graph with >= 2 nodes is also joined to the foreign graph '
            'by three cross-graph edges; one case = one graph with all its queries')

    def gen(self, rng, tier):
        if tier == 'quick':
            return exhaustive_cases(3, 'joint', 'all', pair_classes=True)
        return (exhaustive_cases(3, 'joint', 'all', pair_classes=True) + exhaustive_cases(3, 'disjoint', 'all')
                + [c for c in exhaustive_cases(4, 'joint', 'small', sorted_classes_from=4) if len(c['graphs'][0]['nodes']) == 4])



# ----------------------------------------------------------------------------------------------
# query histories: two live graph objects per graph id, queries and mutations interleaved through either
# ----------------------------------------------------------------------------------------------

def run_mutation(imp, objs2, step):
    """['add_node', obj, gid, nid, cls] | ['add_link', obj, gid, a, b, rel] | ['del_node', obj, gid, nid] |
    ['merge', obj, gid, nid, other_gid]; returns None or the class name of the exception"""
    kind, o, gid = step[0], step[1], step[2]
    g = objs2[gid][o]
    try:
        if kind == 'add_node':
            g.add_node(node_id=step[3], label=step[4], props={'Name': 'name-' + step[3]})
        elif kind == 'add_link':
            g.add_link(node_a=step[3], rel=step[5], node_b=step[4], props=(step[6] if len(step) > 6 else None))
        elif kind == 'del_node':
            g.delete_node(node_id=step[3])
        elif kind == 'merge':
            g.merge_nodes(node_id=step[3], other_graph=objs2[step[4]][o])
        else:
            raise ValueError(kind)
    except Exception as e:
        return type(e).__name__
    return None


def random_history(rng, backend):
    id_pool = ['n%d' % i for i in range(10)]
    classes = rng.choice([CLASSES, ['NetworkService', 'ConnectionPoint', 'Link'], ['NetworkNode', 'NetworkService', 'ConnectionPoint'],
                          ['ConnectionPoint', 'Link', 'CompositeLink']])
    rels = rng.choice([['has', 'connects'], ['has', 'connects', 'depends'], ['connects']])
    ng = rng.choice([1, 2, 2])
    graphs = [random_graph(rng, 'g%d' % gi, rng.choice([2, 3, 4, 4, 5, 6]), classes, rels, id_pool,
                           rng.choice(['tree', 'tree', 'sparse', 'fim'])) for gi in range(ng)]
    for g in graphs:
        g['links'] = [l for l in g['links'] if l[0] != l[1]]
    if rng.random() < 0.4:
        add_algo_props(rng, {'graphs': graphs})
    g0 = graphs[0]
    ids = [n[0] for n in g0['nodes']]
    cls_now = {n[0]: n[1] for n in g0['nodes']}
    spare = [i for i in id_pool if i not in ids]
    # a fixed pool of questions that is asked again and again
    pc, pr = (lambda: rng.choice(classes)), (lambda: rng.choice(rels))
    ids0 = list(ids)
    pn = lambda: rng.choice(ids0) if rng.random() > 0.08 else spare[0]
    pool = []
    for _ in range(2):
        a, z = pn(), pn()
        pool.append(['hops', 'g0', a, z, rng.sample(ids, rng.choice([0, 0, 1])), rng.choice([100, 100, 3])])
        pool.append(['sp', 'g0', a, z, rng.choice([None] + rels)])
    pool.append(['hops', 'g0', ids[0], ids[-1], [], 100])
    pool.append(['first', 'g0', pn(), pr(), pc()])
    pool.append(['second', 'g0', pn(), pr(), pc(), pr(), pc()])
    pool.append(['parent', 'g0', pn(), pr(), pc()])
    pool.append(['peers', 'g0', pn()])
    pool.append(['nodecps', 'g0', pn()])
    if ng > 1:
        pool.append(['first', 'g1', rng.choice(graphs[1]['nodes'])[0], pr(), pc()])
    asked = set(x for q in pool if q[1] == 'g0' for x in q[2:4] if isinstance(x, str) and x.startswith('n'))
    steps = []
    nlinks = len(g0['links'])
    for _ in range(rng.choice([10, 16, 24, 32])):
        u = rng.random()
        o = rng.randrange(2)
        live = [i for i in ids if i in cls_now]
        if u < 0.62 or len(live) < 2:
            steps.append(['q', o, rng.choice(pool)])
        elif u < 0.82 and nlinks < 11:
            a, b = rng.sample(live, 2)
            steps.append(['add_link', o, 'g0', a, b, pr()] + ([{rng.choice(ALGO_ATTRS[:2]): rng.choice(ALGO_VALUES)}] if rng.random() < 0.35 else []))
            nlinks += 1
        elif u < 0.90 and spare and len(live) < 7:
            nid = spare.pop(0)
            ids.append(nid)
            cls_now[nid] = pc()
            steps.append(['add_node', o, 'g0', nid, cls_now[nid]])
        elif u < 0.97 and len(live) > 2:
            quiet = [i for i in live if i not in asked]
            nid = rng.choice(quiet) if quiet and rng.random() < 0.75 else rng.choice(live)
            del cls_now[nid]
            steps.append(['del_node', o, 'g0', nid])
        elif ng > 1 and backend == 'joint':
            common = [i for i in live if i in [n[0] for n in graphs[1]['nodes']]]
            if common and not any(st[0] == 'merge' for st in steps):
                steps.append(['merge', o, 'g0', rng.choice(common), 'g1'])
        else:
            steps.append(['q', o, rng.choice(pool)])
    # end with every question once more through both objects
    for q in pool:
        steps.append(['q', 0, q])
        steps.append(['q', 1, q])
    return {'backend': backend, 'graphs': graphs, 'history': steps, 'queries': []}


class HistoryStream(QueryStream):
    name = 'history'
    case_type = 'list case'
    check_fn = 'check_history'
    header = QueryStream.header.replace('Model.Query6Check.', 'Model.Query6Check Model.Query6Hist.')
    shard = 60
    rule = ('query HISTORIES on 1-2 small graphs (2-7 nodes): TWO live graph objects per graph id (constructor + cast_graph), '
            '10-32 steps, each through either object: a question from a fixed pool of ~11 (all query kinds, asked again and '
            'again, and all once more through both objects at the end) or a mutation (add_link incl. relation overwrite, '
            'add_node, delete_node, merge_nodes); the store is read back after every mutation and EVERY answer is compared '
            'with the model / judged by the oracle on the store content at that moment; non-trivial = at least one mutation '
            'between two askings of the same question; distinct by (graphs, history)')

    def gen(self, rng, tier):
        n = 150 if tier == 'quick' else 3000
        return [random_history(rng, 'disjoint' if i % 4 == 3 else 'joint') for i in range(n)]

    def corpus(self):
        out = []
        for p in sorted(glob.glob(os.path.join(VERIF, 'corpus', 'C06', 'history', '*.json'))):
            with open(p) as f:
                out.append(json.load(f))
        return out

    def observe(self, case):
        try:
            imp, objs = build_store(case)
            objs2 = {}
            for gid, g in objs.items():
                second = imp.cast_graph(graph_id=gid) if case.get('backend', 'joint') == 'joint' \
                    else imp.graph_class(graph_id=gid, importer=imp)
                objs2[gid] = [g, second]
            raw = read_raw(case, imp)
        except Exception as e:
            return {'build_err': type(e).__name__ + ': ' + str(e)[:200], 'segments': [], 'mut_errs': []}
        segs = [{'raw': raw, 'queries': [], 'results': [], 'via': []}]
        mut_errs = []
        for i, st in enumerate(case['history']):
            if st[0] == 'q':
                q = st[2]
                g = objs2[q[1]][st[1]] if q[1] in objs2 else None
                segs[-1]['queries'].append(q)
                segs[-1]['via'].append(st[1])
                segs[-1]['results'].append(run_query(imp, q, g))
            else:
                err = run_mutation(imp, objs2, st)
                if err:
                    mut_errs.append([i, err])
                segs.append({'raw': read_raw(case, imp), 'queries': [], 'results': [], 'via': [], 'after_step': i})
        return {'segments': segs, 'mut_errs': mut_errs}

    def to_coq(self, case, obs):
        out = []
        for sg in obs['segments']:
            if sg['queries']:
                qs = ['(' + c_query(q, r) + ')' for q, r in zip(sg['queries'], sg['results'])]
                out.append('(%s, %s, %s)' % (VOCAB, c_store(sg['raw']), clist(qs)))
        return clist(out)

    def failures(self, case, obs):
        if 'build_err' in obs:
            return [((-1, -1), 'building the graphs failed: ' + obs['build_err'])]
        out = []
        for si, sg in enumerate(obs['segments']):
            for qi, (q, r) in enumerate(zip(sg['queries'], sg['results'])):
                try:
                    why = oracle_query(sg['raw'], q, r)
                except Exception as e:
                    why = 'result %r of %r is malformed (%s)' % (r, q, type(e).__name__)
                if why:
                    out.append(((si, qi), why))
        return out

    def oracle(self, case, obs):
        fs = self.failures(case, obs)
        if not fs:
            return None
        new = [f for f in fs if not f[1].startswith(KNOWN_TAG)]
        (si, qi), why = (new or fs)[0]
        if si < 0:
            return why
        sg = obs['segments'][si]
        return '%s [after %d mutation(s), through graph object %d: %r; store content then: %r]' % (
            why, si, sg['via'][qi], sg['queries'][qi], sg['raw'])

    def key(self, case, obs):
        seen, mutated_between = {}, False
        nmut = 0
        for st in case['history']:
            if st[0] == 'q':
                k = json.dumps(st[2])
                if k in seen and seen[k] < nmut:
                    mutated_between = True
                seen[k] = nmut
            else:
                nmut += 1
        return stable_hash([case['graphs'], case['history']]) if mutated_between else None

    def describe(self, case, obs):
        return {'graphs': case['graphs'], 'backend': case.get('backend'), 'history': case['history'][:12],
                'segments': len(obs['segments']), 'failed_mutations': obs['mut_errs'][:3]}

    def histogram(self, cases, obs):
        h = {'histories': len(cases), 'steps': 0, 'questions': 0, 'mutations': {}, 'failed_mutations': 0,
             'questions_repeated_after_a_mutation': 0, 'answers_changed_by_a_mutation': 0, 'through_object': {'0': 0, '1': 0},
             'kinds': {}, 'raised': 0, 'nonempty_results': 0, 'known_finding_hits': 0, 'backend': {}}
        for c, o in zip(cases, obs):
            h['steps'] += len(c['history'])
            b = c.get('backend', 'joint')
            h['backend'][b] = h['backend'].get(b, 0) + 1
            h['failed_mutations'] += len(o['mut_errs'])
            for st in c['history']:
                if st[0] != 'q':
                    h['mutations'][st[0]] = h['mutations'].get(st[0], 0) + 1
            last = {}
            for si, sg in enumerate(o['segments']):
                for q, r, v in zip(sg['queries'], sg['results'], sg['via']):
                    h['questions'] += 1
                    h['through_object'][str(v)] += 1
                    h['kinds'][q[0]] = h['kinds'].get(q[0], 0) + 1
                    h['raised'] += 'err' in r
                    h['nonempty_results'] += bool(r.get('ok'))
                    k = json.dumps(q)
                    if k in last and last[k][0] < si:
                        h['questions_repeated_after_a_mutation'] += 1
                        if last[k][1] != r and 'ok' in r and 'ok' in last[k][1] and \
                                (q[0] not in ('sp', 'hops') or len(r['ok']) != len(last[k][1]['ok'])):
                            h['answers_changed_by_a_mutation'] += 1
                    last[k] = (si, r)
            h['known_finding_hits'] += sum(1 for f in self.failures(c, o) if f[1].startswith(KNOWN_TAG))
        return h

    def shrink(self, case, failing):
        case = json.loads(json.dumps(case))
        failing0 = failing
        failing = lambda c: 'build_err' not in self.observe(c) and failing0(c)
        # 1. cut the history after the first failing question
        o = self.observe(case)
        fs = [f for f in self.failures(case, o) if not f[1].startswith(KNOWN_TAG)] or self.failures(case, o)
        if fs and fs[0][0][0] >= 0:
            si, qi = fs[0][0]
            seg, k, cut = 0, 0, None
            for i, st in enumerate(case['history']):
                if st[0] == 'q':
                    if seg == si and k == qi:
                        cut = i
                        break
                    k += 1
                else:
                    seg, k = seg + 1, 0
            if cut is not None:
                c2 = dict(case, history=case['history'][:cut + 1])
                if failing(c2):
                    case = c2
        # 2. drop steps, then graphs / links / nodes
        changed = True
        while changed:
            changed = False
            for i in range(len(case['history']) - 1, -1, -1):
                c2 = dict(case, history=case['history'][:i] + case['history'][i + 1:])
                if c2['history'] and failing(c2):
                    case, changed = c2, True
            for gi in range(len(case['graphs']) - 1, -1, -1):
                c2 = dict(case, graphs=case['graphs'][:gi] + case['graphs'][gi + 1:])
                if c2['graphs'] and failing(c2):
                    case, changed = c2, True
            for gi in range(len(case['graphs'])):
                g = case['graphs'][gi]
                for li in range(len(g['links']) - 1, -1, -1):
                    g2 = dict(case['graphs'][gi], links=case['graphs'][gi]['links'][:li] + case['graphs'][gi]['links'][li + 1:])
                    c2 = dict(case, graphs=case['graphs'][:gi] + [g2] + case['graphs'][gi + 1:])
                    if failing(c2):
                        case, changed = c2, True
                for ni in range(len(case['graphs'][gi]['nodes']) - 1, -1, -1):
                    gg = case['graphs'][gi]
                    g2 = dict(gg, nodes=gg['nodes'][:ni] + gg['nodes'][ni + 1:])
                    c2 = dict(case, graphs=case['graphs'][:gi] + [g2] + case['graphs'][gi + 1:])
                    if g2['nodes'] and failing(c2):
                        case, changed = c2, True
        return case


class C06(Check):
    pid = 'C06'
    translators = ['gen_query6']
    model_targets = ['Model/Query6.vo', 'Model/Query6Check.vo', 'Model/Query6Hist.vo']
    streams = [RandomStream(), ExhaustiveStream(), HistoryStream()]
    trusted_base = [
        'Coq 8.16.1 kernel (coqc), vm_compute for the correspondence evaluation; no native_compute',
        'Print Assumptions of every C06 theorem: Closed under the global context (no axioms)',
        'translator/gen_query6.py + translator/pyast.py (helper bodies and constants -> Gen/Query6Gen.v), fail-closed',
        'harness/c06.py + harness/common.py (graph generation, raw read-back of the networkx node/edge dictionaries, '
        'recording of query results, cases.v writer, the independent oracle)',
        'modelled not verified: networkx (Graph adjacency / add_edge overwrite, to_dict_of_dicts/from_dict_of_dicts in '
        'extract_graph, shortest_path = some minimum-length path or NetworkXNoPath, all_simple_paths(cutoff) = all simple '
        'paths of at most cutoff edges, cycle_basis(subgraph(path)) empty iff no self-loop and no chord), networkx_query '
        'search_nodes (= filter on node attributes), Python set/dict semantics',
        'which of several minimum-length paths networkx returns is NOT modelled: path results are compared through '
        'predicates (valid path of the model\'s length), not by equality',
    ]
    assumptions = [
        'wf_store: internal networkx keys are distinct and (GraphID, NodeID) pairs are distinct (add_node refuses an '
        'existing NodeID); used only by the NoDup / never-the-start-node-id statements',
        'every edge carries a Class attribute (all edges are created by add_link)',
    ]

    def refuted_witnesses(self):
        def w():
            st = self.streams[0]
            c = json.loads(json.dumps(WITNESS))
            o = st.observe(c)
            fs = st.failures(c, o)
            still = bool(fs) and fs[0][1].startswith(KNOWN_TAG)
            return still, {'case': c, 'result': o['results'], 'why': fs[0][1] if fs else None}
        return [('C06_second_neighbor_exact_refuted', w)]


if __name__ == '__main__':
    sys.exit(main(C06()))

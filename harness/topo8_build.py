"""C08 harness, part 1: executing topology histories on the REAL API (ExperimentTopology /
SubstrateTopology on the in-memory backend), canonical snapshots, and the random history generator.

A history is a JSON list of operations; elements are addressed by *names / name paths* that are resolved
through the public look-ups (topology.nodes[..], node.components[..], component.interfaces[..],
topology.network_services[..], interface.interfaces[..]) at execution time, so that deleting an operation
from a history (shrinking) never shifts the meaning of the remaining ones.  An operation that cannot be
resolved or that raises while *building* is skipped (its partial effects, if any, stay: the state is
still a reachable one)."""
import json, uuid, random

_orig_uuid4 = uuid.uuid4


def _fim():
    import fim.user as f
    return f


# ----------------------------------------------------------------------------------------------
# environment: a fresh topology in a fresh store, deterministic uuids
# ----------------------------------------------------------------------------------------------
EPOCH = [0]      # bumped whenever a new environment resets the singleton store


class Env:
    def __init__(self, flavour, seed=0):
        EPOCH[0] += 1
        f = _fim()
        from fim.graph.networkx_property_graph import NetworkXGraphImporter
        NetworkXGraphImporter().delete_all_graphs()
        r = random.Random(seed)
        uuid.uuid4 = lambda: uuid.UUID(int=r.getrandbits(128), version=4)
        self.flavour = flavour
        self.t = f.ExperimentTopology() if flavour == 'exp' else f.SubstrateTopology()
        self.errors = 0
        self.kept = {}        # long-lived handles (kept from creation or an earlier look-up): key -> handle

    def close(self):
        uuid.uuid4 = _orig_uuid4

    # ---- cheap save / restore of the whole store (removal operations never allocate ids) ----
    def _store(self):
        from fim.graph.networkx_property_graph import NetworkXGraphStorage
        return NetworkXGraphStorage.storage_instance

    def save(self):
        st = self._store()
        caches = {}
        for k, h in self.kept.items():
            l = getattr(h, '_interfaces', None)
            caches[k] = (None if l is None else list(l),
                         [(i, list(getattr(i, '_interfaces', []) or [])) for i in (l or [])])
        self._saved = (st.graphs.copy(), st.start_id, caches)

    def restore(self):
        st = self._store()
        st.graphs = self._saved[0].copy()
        st.start_id = self._saved[1]
        for k, (l, inner) in self._saved[2].items():
            if l is not None:
                self.kept[k]._interfaces = list(l)
            for i, il in inner:
                i._interfaces = list(il)

    # ---- kept handles: a second live handle of the same element, possibly stale ----
    @staticmethod
    def key(kind, path):
        return kind + ':' + json.dumps(path)

    def keep(self, kind, path, handle):
        self.kept[self.key(kind, path)] = handle

    def svc_handle(self, sp, kept):
        h = self.kept.get(self.key('svc', sp)) if kept else None
        return h if h is not None else self.service(sp)

    def if_handle(self, ip, kept):
        h = self.kept.get(self.key('if', ip)) if kept else None
        return h if h is not None else self.iface(ip)

    # ---- look-ups through the public API ----
    def node(self, name):
        d = self.t.nodes
        if name in d:
            return d[name]
        return self.t.facilities[name]

    def comp(self, node, cname):
        return self.node(node).components[cname]

    def service(self, sp):
        """sp = ['t', name] top-level | ['n', node, nsname] node-level | ['c', node, comp] the component's service"""
        if sp[0] == 't':
            return self.t.network_services[sp[1]]
        if sp[0] == 'n':
            return self.node(sp[1]).network_services[sp[2]]
        if sp[0] == 'c':
            return list(self.comp(sp[1], sp[2]).network_services.values())[0]
        raise KeyError(sp)

    def iface(self, ip):
        """ip = ['c', node, comp, ifname(, child)] | ['n', node, nsname, ifname(, child)] | ['t', nsname, ifname]"""
        if ip[0] == 'c':
            i = self.comp(ip[1], ip[2]).interfaces[ip[3]]
            rest = ip[4:]
        elif ip[0] == 'n':
            i = self.node(ip[1]).network_services[ip[2]].interfaces[ip[3]]
            rest = ip[4:]
        else:
            i = self.t.network_services[ip[1]].interfaces[ip[2]]
            rest = ip[3:]
        for ch in rest:
            i = i.interfaces[ch]
        return i

    def element(self, ep):
        k = ep[0]
        if k == 'node':
            return self.node(ep[1])
        if k == 'comp':
            return self.comp(ep[1], ep[2])
        if k == 'svc':
            return self.service(ep[1])
        if k == 'if':
            return self.iface(ep[1])
        raise KeyError(ep)

    # ---- snapshot of the model graph (API-independent: straight from the store) ----
    def snapshot(self):
        gm = self.t.graph_model
        g = gm.storage.get_graph(gm.graph_id)
        gid = gm.graph_id
        ids = {}
        nodes = {}
        for n, d in g.nodes(data=True):
            if d.get('GraphID') != gid:
                continue
            ids[n] = d['NodeID']
            nodes[d['NodeID']] = {k: v for k, v in d.items() if k != 'GraphID'}
        edges = []
        for a, b, d in g.edges(data=True):
            if a in ids and b in ids:
                x, y = sorted((ids[a], ids[b]))
                edges.append([x, y, d.get('Class'), {k: v for k, v in d.items() if k != 'Class'}])
        edges.sort(key=lambda e: (e[0], e[1], str(e[2])))
        return {'nodes': nodes, 'edges': edges}


def if_ids(handle):
    return sorted(i.node_id for i in handle.interface_list)


# ----------------------------------------------------------------------------------------------
# building operations
# ----------------------------------------------------------------------------------------------
def run_build(env, op):
    """execute one building operation; exceptions propagate to the caller"""
    f = _fim()
    t = env.t
    k = op[0]
    sub = env.flavour == 'sub'
    kept = bool(op) and op[-1] == 'K'       # perform the call through the kept handle when there is one
    if kept:
        op = op[:-1]
    if k == 'keep':
        _, kind, path = op
        env.keep(kind, path, env.service(path) if kind == 'svc' else env.iface(path))
    elif k == 'node':
        _, name, site, ntype = op
        t.add_node(name=name, site=site, ntype=getattr(f.NodeType, ntype), node_id=('id-' + name) if sub else None)
    elif k == 'comp':
        _, node, cname, model = op
        n = env.node(node)
        mt = getattr(f.ComponentModelType, model)
        if sub:
            nports = {'SmartNIC_ConnectX_6': 2, 'SmartNIC_ConnectX_5': 2, 'SharedNIC_ConnectX_6': 1, 'FPGA_Xilinx_U280': 2,
                      'FPGA_Xilinx_SN1022': 2, 'SmartNIC_BlueField_2_ConnectX_6': 2,
                      'SharedNIC_OpenStack_vNIC': 1}.get(model, 0)
            base = 'id-%s-%s' % (node, cname)
            kw = {}
            if nports:
                kw = dict(network_service_node_id=base + '-sf',
                          interface_node_ids=[base + '-p%d' % (i + 1) for i in range(nports)],
                          interface_labels=[f.Labels(vlan_range='1-4096') for _ in range(nports)])
            n.add_component(name=cname, model_type=mt, node_id=base, **kw)
        else:
            n.add_component(name=cname, model_type=mt)
    elif k == 'storage':
        _, node, cname = op
        env.node(node).add_storage(name=cname, labels=f.Labels(local_name=cname))
    elif k == 'child':
        _, ip, cname, vlan = op
        i = env.if_handle(ip, kept)
        if kept or Env.key('if', ip) not in env.kept:
            env.keep('if', ip, i)          # otherwise an earlier handle stays the kept one (and goes stale)
        i.add_child_interface(name=cname, labels=f.Labels(vlan=str(vlan)),
                              node_id=('id-ch-' + '-'.join(ip[1:]) + '-' + cname) if sub else None)
    elif k == 'facility':
        _, name, site, nifs = op
        kw = dict(name=name, site=site, node_id=('id-' + name) if sub else None)
        if nifs <= 1:
            t.add_facility(capacities=f.Capacities(bw=10), **kw)
        else:
            t.add_facility(interfaces=[('%s-i%d' % (name, j), f.Labels(vlan=str(100 + j)), f.Capacities(bw=10))
                                       for j in range(nifs)], **kw)
    elif k == 'switch':
        _, name, site, nports = op
        t.add_switch(name=name, site=site, nports=nports, node_id=('id-' + name) if sub else None)
    elif k == 'nns':
        _, node, nsname, nstype = op
        h = env.node(node).add_network_service(name=nsname, nstype=getattr(f.ServiceType, nstype),
                                               node_id=('id-%s-%s' % (node, nsname)) if sub else None)
        env.keep('svc', ['n', node, nsname], h)
    elif k == 'nif':
        _, node, nsname, ifname, itype = op
        s = env.node(node).network_services[nsname]
        s.add_interface(name=ifname, itype=getattr(f.InterfaceType, itype),
                        labels=f.Labels(local_name=ifname),
                        node_id=('id-%s-%s-%s' % (node, nsname, ifname)) if sub else None)
    elif k == 'ns':
        _, name, nstype, ips = op
        h = t.add_network_service(name=name, nstype=getattr(f.ServiceType, nstype),
                                  interfaces=[env.iface(ip) for ip in ips])
        env.keep('svc', ['t', name], h)
    elif k == 'connect':
        _, nsname, ip = op
        env.svc_handle(['t', nsname], kept).connect_interface(env.iface(ip))
    elif k == 'peer':
        _, a, b = op
        a, b = (['t', x] if isinstance(x, str) else x for x in (a, b))
        env.svc_handle(a, kept).peer(env.svc_handle(b, kept))
    elif k == 'link':
        _, name, ltype, ips = op
        t.add_link(name=name, ltype=getattr(f.LinkType, ltype), interfaces=[env.iface(ip) for ip in ips],
                   node_id=('id-l-' + name) if sub else None)
    elif k == 'mark':
        _, ep, state = op
        env.element(ep).reservation_info = f.ReservationInfo(reservation_state=state)
    elif k == 'rename':
        _, ep, new_name = op
        env.element(ep).rename(new_name)
    else:
        run_removal(env, op)


REMOVALS = ('remove_node', 'remove_facility', 'remove_switch', 'remove_link', 'remove_ns', 'remove_component',
            'node_remove_ns', 'disconnect', 'unpeer', 'remove_interface', 'remove_child', 'prune')


def removal_handles(env, op):
    """the element handles through which a removal is performed: freshly looked up, or - when the operation ends with
    the marker 'K' - the long-lived handle kept from the element's creation / an earlier look-up (it may be stale)"""
    k = op[0]
    kept = op[-1] == 'K'
    if k in ('remove_component', 'node_remove_ns'):
        return [env.node(op[1])]
    if k == 'disconnect':
        return [env.svc_handle(op[1], kept), env.iface(op[2])]      # [service handle, the interface argument]
    if k == 'unpeer':
        return [env.svc_handle(op[1], kept), env.svc_handle(op[2], kept)]
    if k == 'remove_interface':
        return [env.svc_handle(op[1], kept)]
    if k == 'remove_child':
        return [env.if_handle(op[1], kept)]
    return []


def call_removal(env, op, handles):
    t = env.t
    k = op[0]
    if k == 'remove_node':
        t.remove_node(op[1])
    elif k == 'remove_facility':
        t.remove_facility(name=op[1])
    elif k == 'remove_switch':
        t.remove_switch(name=op[1])
    elif k == 'remove_link':
        t.remove_link(op[1])
    elif k == 'remove_ns':
        t.remove_network_service(op[1])
    elif k == 'remove_component':
        handles[0].remove_component(op[2])
    elif k == 'node_remove_ns':
        handles[0].remove_network_service(op[2])
    elif k == 'disconnect':
        handles[0].disconnect_interface(handles[1])
    elif k == 'unpeer':
        handles[0].unpeer(handles[1])
    elif k == 'remove_interface':
        handles[0].remove_interface(name=op[2])
    elif k == 'remove_child':
        handles[0].remove_child_interface(name=op[2])
    elif k == 'prune':
        t.prune(reservation_state=op[1])
    else:
        raise KeyError(op)


def run_removal(env, op):
    call_removal(env, op, removal_handles(env, op))


def replay(flavour, history, seed=0):
    env = Env(flavour, seed)
    for op in history:
        try:
            run_build(env, op)
        except Exception:
            env.errors += 1
    return env


# ----------------------------------------------------------------------------------------------
# structure of a snapshot (used by the generator to pick applicable operations and by the oracle)
# ----------------------------------------------------------------------------------------------
class View:
    def __init__(self, snap):
        self.n = snap['nodes']
        self.adj = {i: [] for i in self.n}
        for a, b, c, _ in snap['edges']:
            self.adj[a].append((b, c))
            if a != b:
                self.adj[b].append((a, c))

    def cls(self, i):
        return self.n[i].get('Class')

    def typ(self, i):
        return self.n[i].get('Type')

    def name(self, i):
        return self.n[i].get('Name')

    def nb(self, i, rel=None, cls=None):
        return sorted({j for j, c in self.adj[i] if (rel is None or c == rel) and (cls is None or self.cls(j) == cls)})

    def of_class(self, c):
        return sorted(i for i in self.n if self.cls(i) == c)

    def cps_of_service(self, s):
        return self.nb(s, 'connects', 'ConnectionPoint')

    def children(self, p):
        return [c for c in self.nb(p, 'connects', 'ConnectionPoint') if self.typ(c) == 'SubInterface']

    def parent_cp(self, c):
        if self.typ(c) != 'SubInterface':
            return []
        return [p for p in self.nb(c, 'connects', 'ConnectionPoint') if self.typ(p) != 'SubInterface']

    def links_of(self, i):
        return self.nb(i, 'connects', 'Link')

    def ends(self, l):
        return self.nb(l, None, 'ConnectionPoint')

    def service_of_cp(self, i):
        return self.nb(i, 'connects', 'NetworkService')

    def owner_of_service(self, s):
        return [p for p in self.nb(s, 'has') if self.cls(p) in ('NetworkNode', 'Component')]

    def node_of_comp(self, c):
        return self.nb(c, 'has', 'NetworkNode')

    # paths (addresses understood by Env) ------------------------------------------------------
    def service_path(self, s):
        ow = self.owner_of_service(s)
        if not ow:
            return ['t', self.name(s)]
        o = ow[0]
        if self.cls(o) == 'NetworkNode':
            return ['n', self.name(o), self.name(s)]
        nn = self.node_of_comp(o)
        if not nn:
            return None
        return ['c', self.name(nn[0]), self.name(o)]

    def iface_path(self, i):
        if self.typ(i) == 'SubInterface':
            ps = self.parent_cp(i)
            if not ps:
                return None
            pp = self.iface_path(ps[0])
            return None if pp is None else pp + [self.name(i)]
        ss = self.service_of_cp(i)
        if not ss:
            return None
        sp = self.service_path(ss[0])
        if sp is None:
            return None
        if sp[0] == 't':
            return ['t', sp[1], self.name(i)]
        if sp[0] == 'n':
            return ['n', sp[1], sp[2], self.name(i)]
        return ['c', sp[1], sp[2], self.name(i)]


# ----------------------------------------------------------------------------------------------
# enumeration of removal operations in a state
# ----------------------------------------------------------------------------------------------
def enumerate_removals(snap, flavour, rng, with_invalid=True, kept=()):
    v = View(snap)
    ops = []
    for n in v.of_class('NetworkNode'):
        nm, ty = v.name(n), v.typ(n)
        if ty == 'Facility':
            ops.append(['remove_facility', nm])
            if with_invalid:
                ops.append(['remove_node', nm])
        elif ty == 'Switch':
            ops.append(['remove_switch', nm])
            ops.append(['remove_node', nm])
        else:
            ops.append(['remove_node', nm])
            if with_invalid and rng.random() < 0.2:
                ops.append([rng.choice(['remove_facility', 'remove_switch']), nm])
        for c in v.nb(n, 'has', 'Component'):
            ops.append(['remove_component', nm, v.name(c)])
        for s in v.nb(n, 'has', 'NetworkService'):
            ops.append(['node_remove_ns', nm, v.name(s)])
    for l in v.of_class('Link'):
        ops.append(['remove_link', v.name(l)])
    tops = []
    for s in v.of_class('NetworkService'):
        sp = v.service_path(s)
        if sp is None:
            continue
        if sp[0] == 't':
            tops.append(s)
            ops.append(['remove_ns', v.name(s)])
        elif with_invalid and rng.random() < 0.15:
            ops.append(['remove_ns', v.name(s)])        # topology-level removal of a node-level service
        for i in v.cps_of_service(s):
            if sp[0] != 'c' or (with_invalid and rng.random() < 0.1):
                ops.append(['remove_interface', sp, v.name(i)])
    # disconnect: every node-side interface that has a peer, through its service (and some that have none)
    for i in v.of_class('ConnectionPoint'):
        if v.typ(i) == 'ServicePort':
            continue
        ip = v.iface_path(i)
        if ip is None:
            continue
        peers = [p for l in v.links_of(i) for p in v.ends(l) if p != i]
        sps = [p for p in peers if v.typ(p) == 'ServicePort' and v.service_of_cp(p)]
        if sps:
            s = v.service_of_cp(sps[0])[0]
            sp = v.service_path(s)
            if sp is not None:
                ops.append(['disconnect', sp, ip])
                # inapplicable: "un-peering" the interface's OWN service from the service it is connected to
                own = v.service_of_cp(i)
                if with_invalid and own and v.service_path(own[0]) is not None and rng.random() < 0.3:
                    pair = [v.service_path(own[0]), sp]
                    if rng.random() < 0.5:
                        pair.reverse()
                    ops.append(['unpeer'] + pair)
        elif with_invalid and tops and rng.random() < 0.15:
            ops.append(['disconnect', ['t', v.name(rng.choice(tops))], ip])
        if v.typ(i) == 'SubInterface':
            pp = v.iface_path(v.parent_cp(i)[0]) if v.parent_cp(i) else None
            if pp is not None:
                ops.append(['remove_child', pp, v.name(i)])
        elif with_invalid and rng.random() < 0.05:
            ops.append(['remove_child', ip, 'nochild'])
    # unpeer: every ordered pair of peered top-level services, plus some that do not peer
    for a in tops:
        for b in tops:
            if a == b:
                continue
            peered = any(q in v.cps_of_service(b) for p in v.cps_of_service(a) for l in v.links_of(p)
                         for q in v.ends(l) if q != p)
            if peered or (with_invalid and rng.random() < 0.25):
                ops.append(['unpeer', ['t', v.name(a)], ['t', v.name(b)]])
    if flavour == 'exp':
        states = sorted({json.loads(d['ReservationInfo']).get('reservation_state') for d in v.n.values()
                         if d.get('ReservationInfo')} - {None})
        for s in states:
            ops.append(['prune', s])
    # the same calls through a long-lived (possibly stale) handle of the service / port, where one is kept
    extra = []
    for o in ops:
        if o[0] in ('disconnect', 'remove_interface') and Env.key('svc', o[1]) in kept:
            extra.append(o + ['K'])
        elif o[0] == 'unpeer' and (Env.key('svc', o[1]) in kept or Env.key('svc', o[2]) in kept):
            extra.append(o + ['K'])
        elif o[0] == 'remove_child' and Env.key('if', o[1]) in kept:
            extra.append(o + ['K'])
    return ops + extra


# ----------------------------------------------------------------------------------------------
# random histories (generated ONLINE: the generator looks at the real state it has built so far)
# ----------------------------------------------------------------------------------------------
SITES = ['RENC', 'UKY', 'LBNL']
EXP_MODELS = ['SmartNIC_ConnectX_6', 'SmartNIC_ConnectX_5', 'SharedNIC_ConnectX_6', 'GPU_RTX6000', 'NVME_P4510',
              'SmartNIC_ConnectX_6', 'SharedNIC_ConnectX_6', 'FPGA_Xilinx_U280', 'FPGA_Xilinx_SN1022',
              'SmartNIC_BlueField_2_ConnectX_6', 'SharedNIC_OpenStack_vNIC', 'GPU_Tesla_T4']
SVC_TYPES = ['L2Bridge', 'L2STS', 'L2PTP', 'FABNetv4', 'L3VPN', 'FABNetv6']
STATES = ['Failed', 'Closed']


def lookalikes(name):
    """names different from `name` that a careless comparison would take for it: other letter case, and characters
    whose Unicode case folding is an ASCII letter / letter pair (long s, Kelvin sign, sharp s, fi ligature)"""
    out = []
    for x in (name.swapcase(), name.upper(), name.capitalize(), name.replace('s', '\u017f', 1),
              name.replace('k', '\u212a', 1), name.replace('ss', '\u00df', 1), name.replace('fi', '\ufb01', 1)):
        if x != name and x.casefold() == name.casefold() and x not in out:
            out.append(x)
    return out


def lookalike_names(snap):
    """names in the snapshot that have a look-alike (equal after case folding, different as strings)"""
    by = {}
    for d in snap['nodes'].values():
        n = d.get('Name')
        if isinstance(n, str):
            by.setdefault(n.casefold(), set()).add(n)
    return {n for g in by.values() if len(g) > 1 for n in g}


def gen_history(rng, flavour, nsteps, p_remove=0.12):
    """returns (history, final snapshot).  Every choice comes from rng."""
    env = Env(flavour, 0)
    hist = []
    counter = [0]
    pending = []

    def fresh(prefix):
        counter[0] += 1
        return '%s%d' % (prefix, counter[0])

    def sibling(prefix, sibs, p=0.3):
        """a fresh name - or, often when the scope already has members, a LOOK-ALIKE of a sibling's name (legal: names are
        compared exactly); by-name removals must then take the named element, not its look-alike"""
        names = [v.name(x) for x in sibs if isinstance(v.name(x), str)]
        if names and rng.random() < p:
            alts = [a for a in lookalikes(rng.choice(sorted(names))) if a not in names]
            if alts:
                return rng.choice(alts)
        return fresh(prefix)

    try:
        for _ in range(nsteps):
            snap = env.snapshot()
            v = View(snap)
            nodes = [n for n in v.of_class('NetworkNode')]
            plain = [n for n in nodes if v.typ(n) not in ('Facility', 'Switch')]
            cps = [i for i in v.of_class('ConnectionPoint') if v.typ(i) != 'ServicePort' and v.iface_path(i)]
            free = [i for i in cps if not v.links_of(i)]
            tops = [s for s in v.of_class('NetworkService') if not v.owner_of_service(s)]
            cand = []
            w = []

            def add(weight, fn):
                cand.append(fn)
                w.append(weight)

            add(6 if len(nodes) < 2 else 2, lambda: ['node', sibling('n', nodes, 0.1), rng.choice(SITES),
                                                      rng.choice(['VM', 'VM', 'Server'] if flavour == 'exp' else ['Server', 'Server', 'VM'])])
            if plain:
                def mk_comp():
                    n = rng.choice(plain)
                    return ['comp', v.name(n), sibling('c', v.nb(n, 'has', 'Component')), rng.choice(EXP_MODELS)]
                add(7, mk_comp)
                if flavour == 'exp':
                    add(1, lambda: ['storage', v.name(rng.choice(plain)), fresh('st')])
            add(2, lambda: ['facility', fresh('f'), rng.choice(SITES), rng.choice([1, 1, 2, 3])])
            add(2, lambda: ['switch', fresh('sw'), rng.choice(SITES), rng.choice([1, 2, 3])])
            ded = [i for i in cps if v.typ(i) == 'DedicatedPort']
            if ded:
                def mk_child():
                    p = rng.choice(ded)
                    return (['child', v.iface_path(p), sibling('ch', v.children(p), 0.4), rng.randrange(1, 4000)]
                            + (['K'] if rng.random() < 0.4 else []))
                add(5, mk_child)
            if nodes:
                def mk_nns():
                    n = rng.choice(nodes)
                    return ['nns', v.name(n), sibling('s', v.nb(n, 'has', 'NetworkService'), 0.4),
                            rng.choice(['MPLS', 'VLAN', 'OVS', 'P4'])]
                add(2, mk_nns)
            nns = [s for s in v.of_class('NetworkService')
                   if v.owner_of_service(s) and v.cls(v.owner_of_service(s)[0]) == 'NetworkNode']
            if nns:
                def mk_nif():
                    s = rng.choice(nns)
                    return ['nif', v.name(v.owner_of_service(s)[0]), v.name(s), sibling('p', v.cps_of_service(s), 0.4),
                            rng.choice(['TrunkPort', 'AccessPort', 'DedicatedPort', 'FacilityPort'])]
                add(4, mk_nif)
            if flavour == 'exp' and free:
                def mk_ns():
                    k = rng.choice([0, 1, 1, 2, 2, 2, 3, 4])
                    sel = rng.sample(free, min(k, len(free)))
                    return ['ns', sibling('net', tops, 0.1), rng.choice(SVC_TYPES), [v.iface_path(i) for i in sel]]
                add(7, mk_ns)
                if tops:
                    add(5, lambda: ['connect', v.name(rng.choice(tops)), v.iface_path(rng.choice(free))]
                        + (['K'] if rng.random() < 0.4 else []))
            elif flavour == 'exp':
                add(2, lambda: ['ns', fresh('net'), rng.choice(SVC_TYPES), []])
            allsvc = [x for x in v.of_class('NetworkService') if v.service_path(x) and v.service_path(x)[0] != 'c']
            if flavour == 'exp' and len(allsvc) >= 2:
                def mk_peer():
                    # mostly two top-level services; sometimes node-level ones (also two services of ONE node)
                    pool = tops if (len(tops) >= 2 and rng.random() < 0.7) else allsvc
                    a, b = rng.sample(pool, 2)
                    # often: a service that already peers gets a second peering (un-peering one must leave the other)
                    peered = [x for x in pool if any(v.typ(p) == 'ServicePort' and any(
                        v.typ(q) == 'ServicePort' for l in v.links_of(p) for q in v.ends(l) if q != p)
                        for p in v.cps_of_service(x))]
                    if peered and rng.random() < 0.5:
                        a = rng.choice(peered)
                        rest = [x for x in pool if x != a]
                        b = rng.choice(rest)
                    return ['peer', v.service_path(a), v.service_path(b)] + (['K'] if rng.random() < 0.4 else [])
                add(3, mk_peer)
            # a second live handle of a service / of a port with sub-interfaces, looked up now and kept
            if allsvc or ded:
                def mk_keep():
                    if allsvc and (not ded or rng.random() < 0.6):
                        return ['keep', 'svc', v.service_path(rng.choice(allsvc))]
                    return ['keep', 'if', v.iface_path(rng.choice(ded))]
                add(2, mk_keep)
            if len(cps) >= 2:
                def mk_link():
                    pool = free if (len(free) >= 2 and rng.random() < 0.8) else cps
                    k = rng.choice([2, 2, 2, 3, 3, 4, 1])
                    sel = rng.sample(pool, min(k, len(pool)))
                    subs = [i for i in cps if v.typ(i) == 'SubInterface']
                    if subs and rng.random() < 0.35:
                        # a plain link on a SUB-INTERFACE (mostly a free one), its other end(s) ports or sub-interfaces of
                        # other families: removing the port's owner must take this link along with the sub-interface
                        fs = [i for i in subs if not v.links_of(i)]
                        x = rng.choice(fs if fs and rng.random() < 0.8 else subs)
                        fam = tuple(v.parent_cp(x))
                        others = [i for i in pool if i != x and (tuple(v.parent_cp(i)) or (i,)) != fam and (i,) != fam]
                        if others:
                            sel = [x] + rng.sample(others, min(max(k - 1, 1), len(others)))
                    if rng.random() < 0.9:       # mostly: at most one end per port family (port + its sub-interfaces)
                        seen, keep = set(), []
                        for i in sel:
                            fam = tuple(v.parent_cp(i)) or (i,)
                            if fam not in seen:
                                seen.add(fam)
                                keep.append(i)
                        sel = keep
                    return ['link', fresh('l'), rng.choice(['Patch', 'L2Path', 'L1Path']), [v.iface_path(i) for i in sel]]
                add(4 if flavour == 'sub' else 2, mk_link)
            if flavour == 'exp' and v.n:
                def mk_mark():
                    subs = [x for x in v.n if v.typ(x) == 'SubInterface' and v.iface_path(x)]
                    if subs and rng.random() < 0.3:
                        # a sub-interface (alone, or - one time in three - together with the port above it)
                        x = rng.choice(subs)
                        if rng.random() < 0.33 and v.parent_cp(x) and v.iface_path(v.parent_cp(x)[0]):
                            pending.append(['mark', ['if', v.iface_path(v.parent_cp(x)[0])], 'Failed'])
                        return ['mark', ['if', v.iface_path(x)], 'Failed']
                    facs = [x for x in v.n if v.cls(x) == 'NetworkNode' and v.typ(x) == 'Facility']
                    if facs and rng.random() < 0.2:
                        # a facility node (alone, or - one time in three - together with one of its ports)
                        x = rng.choice(sorted(facs))
                        ps = [p for p in sorted(v.n) if v.cls(p) == 'ConnectionPoint' and v.iface_path(p)
                              and v.iface_path(p)[0] == 'n' and v.iface_path(p)[1] == v.name(x)]
                        if ps and rng.random() < 0.33:
                            pending.append(['mark', ['if', v.iface_path(rng.choice(ps))], 'Failed'])
                        return ['mark', ['node', v.name(x)], 'Failed']
                    i = rng.choice(sorted(v.n))
                    c = v.cls(i)
                    if c == 'NetworkNode':
                        ep = ['node', v.name(i)]
                    elif c == 'Component':
                        nn = v.node_of_comp(i)
                        if not nn:
                            return None
                        ep = ['comp', v.name(nn[0]), v.name(i)]
                    elif c == 'NetworkService':
                        sp = v.service_path(i)
                        if sp is None:
                            return None
                        ep = ['svc', sp]
                    elif c == 'ConnectionPoint':
                        ip = v.iface_path(i)
                        if ip is None:
                            return None
                        ep = ['if', ip]
                    else:
                        return None
                    return ['mark', ep, rng.choice(STATES)]
                add(3, mk_mark)
            if v.n:
                def mk_rename():
                    # mostly interfaces: to the name of an interface under ANOTHER service of the same node (equal names in
                    # different scopes are legal), sometimes to a fresh name; sometimes a node / component / service
                    r = rng.random()
                    if r < 0.7 and cps:
                        i = rng.choice(cps)
                        ip = v.iface_path(i)
                        own = v.service_of_cp(i) or ([v.service_of_cp(p)[0] for p in v.parent_cp(i) if v.service_of_cp(p)])
                        others = [j for j in cps if j != i and ip[1] == (v.iface_path(j) or [None, None])[1]
                                  and v.typ(j) == v.typ(i) and (v.service_of_cp(j) or [None])[0] not in own]
                        if others and rng.random() < 0.75:
                            return ['rename', ['if', ip], v.name(rng.choice(others))]
                        return ['rename', ['if', ip], fresh('r')]
                    i = rng.choice(sorted(v.n))
                    c = v.cls(i)
                    if c == 'NetworkNode':
                        return ['rename', ['node', v.name(i)], fresh('n')]
                    if c == 'Component' and v.node_of_comp(i):
                        return ['rename', ['comp', v.name(v.node_of_comp(i)[0]), v.name(i)], fresh('c')]
                    if c == 'NetworkService' and v.service_path(i):
                        return ['rename', ['svc', v.service_path(i)], fresh('s')]
                    return None
                add(5, mk_rename)
            if v.n and rng.random() < p_remove:
                rs = enumerate_removals(snap, flavour, rng, with_invalid=False, kept=set(env.kept))
                if rs:
                    op = rng.choice(rs)
                    cand, w = [lambda: op], [1]
            op = rng.choices(cand, weights=w)[0]()
            if op is None:
                continue
            for op1 in [op] + pending:
                hist.append(op1)
                try:
                    run_build(env, op1)
                except Exception:
                    env.errors += 1
            del pending[:]
        return hist, env.snapshot(), set(env.kept)
    finally:
        env.close()

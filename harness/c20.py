"""C20 - store lock discipline and identifier allocation under concurrent use.

Tie of the Coq model (Model/Locks20.v, Model/Conc20.v, Gen/Locks.v) to the two in-memory storage classes:
  * every case runs REAL threads on a fresh instance of the real storage class, stepped line by line by a
    deterministic scheduler (sys.settrace gating the line events of the storage methods' code objects; the
    store's lock is replaced by a scheduling lock that wraps a real threading.Lock, so "blocked" is known to
    the scheduler and `release` of a free lock raises RuntimeError exactly as in production);
  * the observed per-call (line, lock-event) trace gives the path through the regenerated IR (walker); Coq
    re-executes the IR along that path and must reproduce the trace and the outcome, then runs the interleaving
    model on the observed schedule and must end in the observed counters / node sets / returned ids.
Streams: seq (one thread, histories incl. failing imports, duplicate ids, delete-then-reimport),
sched (2-3 threads, all schedules up to a preemption bound + random ones), attack (odd graph ids thrown at the
statements that are outside any try while the lock is held).
The oracle restates the property over implementation observables only (lock events balanced per call, no
lock error, nobody blocked forever, lock free at the end, returned ids fresh, per-call frame conditions on
the per-graph node sets, and: the concurrent run equals the serial run of the same calls in lock order)."""
import sys, os, threading, itertools, json
from . import common
from .common import *

sys.path.insert(0, os.path.join(VERIF, 'translator'))
import gen_locks  # noqa: E402

FLAVOURS = ('shared', 'disjoint')
_IR = {}


def ir():
    if 'ir' not in _IR:
        try:
            _IR['ir'] = gen_locks.build(REPO)
        except Exception as e:      # translator fails closed; the harness still needs line tables: none
            log('gen_locks.build failed: %r' % (e,))
            _IR['ir'] = None
    return _IR['ir']


def store_class(flavour):
    if flavour == 'shared':
        from fim.graph.networkx_property_graph import NetworkXGraphStorage as O
    else:
        from fim.graph.networkx_property_graph_disjoint import NetworkXGraphStorageDisjoint as O
    for k, v in vars(O).items():
        if k.endswith('__NetworkXGraphStorage') and isinstance(v, type):
            return v
    raise RuntimeError('inner storage class not found')


def shell_class(flavour):
    if flavour == 'shared':
        from fim.graph.networkx_property_graph import NetworkXGraphStorage as O
    else:
        from fim.graph.networkx_property_graph_disjoint import NetworkXGraphStorageDisjoint as O
    return O


class Installed:
    """a fresh store installed as THE process singleton (<Shell>.storage_instance) for one case; callers use
    `handle`, a long-lived shell object like importer.storage (created without running the guard); the previous
    singleton is restored afterwards"""

    def __init__(self, flavour):
        self.shell = shell_class(flavour)
        self.saved = self.shell.storage_instance
        self.first = store_class(flavour)()
        self.shell.storage_instance = self.first
        self.handle = object.__new__(self.shell)

    def current(self):
        return self.shell.storage_instance

    def close(self):
        self.shell.storage_instance = self.saved


def store_codes(cls):
    return {f.__code__ for f in vars(cls).values() if callable(f) and hasattr(f, '__code__')}


class Deadlock(BaseException):
    pass


# ----------------------------------------------------------------------------------------------
# operations
# ----------------------------------------------------------------------------------------------
# op = {'m': method, 'g': graph id (str) or {'odd': kind}, 'k': nodes of the imported graph (or None = garbage
#       graph), 'bad': index of a node lacking NodeID (or None), 'dupkw': bool (add_blank: attrs repeat GraphID)}

def mk_graph(op):
    import networkx as nx
    if op.get('k') is None:
        return None
    g = nx.Graph() if not op.get('di') else nx.DiGraph()
    gid = op['g'] if isinstance(op['g'], str) else 'gx'
    for i in range(op['k']):
        attrs = {'Class': 'NetworkNode', 'Name': 'n%d' % i}
        if i != op.get('bad'):
            attrs['NodeID'] = '%s-n%d' % (gid, i)
        if op['m'] == 'add_graph_direct':
            attrs['GraphID'] = gid
        g.add_node('v%d' % i, **attrs)
    for i in range(op['k'] - 1):
        g.add_edge('v%d' % i, 'v%d' % (i + 1), Class='has')
    return g


def odd_value(kind):
    return {'none': None, 'float': 3.5, 'tuple': ('t',), 'list': [], 'dict': {}, 'int': 7}[kind]


def gid_of(op):
    g = op.get('g')
    return odd_value(g['odd']) if isinstance(g, dict) else g


_BLANK = itertools.count(1)
EXT_OPS = ('remove_node', 'delete_node')


class Removed(int):
    """internal id removed by an external op (0 = the graph had no node)"""


def ext_remove(store, op):
    """a caller removes one node of graph g from the stored nx graph: directly (`remove_node`) or through
    NetworkXPropertyGraph(.Disjoint).delete_node (`delete_node`).  op['idx'] selects among the current nodes."""
    g = op['g']
    shared = hasattr(store, 'start_id')
    if shared:
        G = store.graphs
        ids = sorted(n for n, d in G.nodes(data=True) if d.get('GraphID') == g)
    else:
        G = dict(store.graphs).get(g)
        ids = sorted(G.nodes) if G is not None else []
    if not ids:
        return Removed(0)
    nid = ids[op.get('idx', 0) % len(ids)]
    if op['m'] == 'remove_node':
        G.remove_node(nid)
    else:
        if shared:
            from fim.graph.networkx_property_graph import NetworkXPropertyGraph as PG
        else:
            from fim.graph.networkx_property_graph_disjoint import NetworkXPropertyGraphDisjoint as PG
        pg = object.__new__(PG)
        pg.storage, pg.graph_id, pg.log = store, g, None
        nodeid = G.nodes[nid]['NodeID']
        try:
            pg.delete_node(node_id=nodeid)
        except Exception as e:      # noqa
            # another thread emptied the graph between the choice of the node and delete_node's own lookup
            # ("Unable to find node"): nothing was removed
            if type(e).__name__ != 'PropertyGraphQueryException':
                raise
            return Removed(0)
    return Removed(nid)


def call_op(store, op):
    m, g = op['m'], gid_of(op)
    if m in ('add_graph', 'add_graph_direct'):
        return getattr(store, m)(g, mk_graph(op))
    if m == 'add_blank_node_to_graph':
        if op.get('dupkw'):
            return store.add_blank_node_to_graph(g, **{'GraphID': 'other', 'Class': 'x'})
        return store.add_blank_node_to_graph(g, Class='NetworkNode', NodeID='%s-b%d' % (g, next(_BLANK)))
    if m in EXT_OPS:
        return ext_remove(store, op)
    if m == 'new_importer':
        # a caller constructs a new importer (and, kind 'pgraph', a property-graph handle on graph g): this runs the
        # shell class's singleton guard; it must never replace the store
        if hasattr(store, 'start_id'):
            from fim.graph.networkx_property_graph import NetworkXGraphImporter as Imp
        else:
            from fim.graph.networkx_property_graph_disjoint import NetworkXGraphImporterDisjoint as Imp
        imp = Imp()
        if op.get('kind') == 'pgraph':
            imp.graph_class(graph_id=g, importer=imp)
        return None
    if m == 'del_all_graphs':
        return store.del_all_graphs()
    return getattr(store, m)(g)


def snapshot(flavour, store):
    """counters and per-graph node id sets, read without touching defaultdicts"""
    if flavour == 'shared':
        ctrs = {'_': store.start_id}
        nodes = sorted((n, d.get('GraphID')) for n, d in store.graphs.nodes(data=True))
        nodes = [['_', n, g if isinstance(g, str) else repr(g)] for n, g in nodes]
    else:
        ctrs = {k: v for k, v in dict(store.graph_node_ids).items() if isinstance(k, str)}
        nodes = []
        for g, G in dict(store.graphs).items():
            if isinstance(g, str):
                nodes += [[g, n, g] for n in sorted(G.nodes)]
    return {'ctrs': ctrs, 'nodes': nodes}


def per_graph(snap):
    d = {}
    for c, n, g in snap['nodes']:
        d.setdefault(g, set()).add(n)
    return d


# ----------------------------------------------------------------------------------------------
# deterministic scheduler over real threads
# ----------------------------------------------------------------------------------------------

class SLock:
    """stands in for storage.lock: a real threading.Lock plus reporting to the scheduler"""

    def __init__(self, eng, real=None):
        self.eng = eng
        self.real = real if real is not None else threading.Lock()
        self.owner = None           # thread that acquired it last and has not released it

    def __enter__(self):            # `with self.lock:` -- the exit goes to THIS object even if storage.lock is re-bound
        self.acquire()
        return True

    def __exit__(self, *exc):
        self.release()
        return False

    def acquire(self, blocking=True, timeout=-1):
        eng = self.eng
        w = eng.current()
        while True:
            if self.real.acquire(False):
                self.owner = w.tid
                eng.log.append((w.tid, 'A', None))
                return True
            if not blocking or (timeout is not None and timeout >= 0):
                # a timed / non-blocking acquire of a held lock: what it returns once the timeout has elapsed
                eng.log.append((w.tid, 'F', None))
                return False
            w.blocked = True
            w.blocked_on = self
            eng.log.append((w.tid, 'B', None))
            eng.park(w)
            w.blocked = False
            w.blocked_on = None
            if eng.abort:
                raise Deadlock()

    def release(self):
        eng = self.eng
        w = eng.current()
        try:
            self.real.release()
        except RuntimeError:
            eng.log.append((w.tid, 'X', None))
            eng.lock_errors.append('release of an unlocked lock in thread %d' % w.tid)
            raise
        self.owner = None
        eng.log.append((w.tid, 'R', None))

    def locked(self):
        return self.real.locked()


class Worker:
    def __init__(self, eng, tid, ops):
        self.eng, self.tid, self.ops = eng, tid, ops
        self.sem = threading.Semaphore(0)
        self.blocked = False
        self.blocked_on = None
        self.finished = False
        self.pending = None
        self.results = []
        self.thread = threading.Thread(target=self.body, daemon=True)

    def tracer(self, frame, event, arg):
        if frame.f_code in self.eng.codes:
            if event == 'line':
                self.pending = frame.f_lineno
                self.eng.park(self)
                self.pending = None
                self.eng.log.append((self.tid, 'L', frame.f_lineno))
            return self.tracer
        return None

    def body(self):
        eng = self.eng
        eng.tls.w = self
        eng.park(self)                     # wait for the first grant
        try:
            for i, op in enumerate(self.ops):
                if eng.abort:
                    break
                eng.log.append((self.tid, 'C', i))
                before = snapshot(eng.flavour, eng.store) if eng.snap else None
                res = {'out': 'ok', 'ret': None}
                if op['m'] not in EXT_OPS:
                    sys.settrace(self.tracer)
                try:
                    r = call_op(eng.inst.handle, op)
                    if isinstance(r, Removed):
                        res['rm'] = int(r)
                        eng.log.append((self.tid, 'E', None))
                    elif isinstance(r, int) and not isinstance(r, bool):
                        res['ret'] = r
                except Exception as e:
                    res['out'] = 'exc:' + type(e).__name__
                    res['msg'] = str(e)[:80]
                except Deadlock:
                    res['out'] = 'deadlock'
                finally:
                    sys.settrace(None)
                # after ANY call (also one that raised) the calling thread must not hold the store lock
                res['held_after'] = any(l.owner == self.tid and l.real.locked() for l in eng.locks)
                if eng.snap:
                    res['before'], res['after'] = before, snapshot(eng.flavour, eng.store)
                self.results.append(res)
                if res['out'] == 'deadlock':
                    break
        finally:
            self.finished = True
            eng.main_sem.release()

    def start(self):
        self.thread.start()


class Engine:
    def __init__(self, flavour, thread_ops, snap=False):
        cls = store_class(flavour)
        self.flavour = flavour
        self.inst = Installed(flavour)       # the store is THE singleton; callers go through the shell handle
        self.instances = [self.inst.first]
        self.inst_rebound = []               # (grant index, thread, nodes left in the orphaned store)
        self.lock = SLock(self)
        self.store.lock = self.lock
        self.locks = [self.lock]     # every lock object the store has had during this run
        self.rebound = []            # (grant index, thread) at which storage.lock was found re-bound
        self.codes = store_codes(cls)
        self.log = []
        self.lock_errors = []
        self.abort = False
        self.snap = snap
        self.tls = threading.local()
        self.main_sem = threading.Semaphore(0)
        self.workers = [Worker(self, i, ops) for i, ops in enumerate(thread_ops)]
        self.trace = []          # per grant: (chosen tid, enabled tids)

    @property
    def store(self):
        return self.inst.current()

    def current(self):
        return self.tls.w

    def park(self, w):
        self.main_sem.release()
        w.sem.acquire()

    def enabled(self):
        return [w.tid for w in self.workers if not w.finished and
                (not w.blocked or w.blocked_on is None or not w.blocked_on.real.locked())]

    def check_lock_identity(self, step, tid):
        """after every step: is storage.lock still the object installed at the start?  If the store replaced it
        (assignment to self.lock, re-run of __init__), record it and wrap the new object so that scheduling stays
        deterministic (threads queued on the old object stay queued on the OLD one, as in production)."""
        st = self.store
        if st is not self.instances[-1]:
            # the singleton itself was replaced (a new shell was constructed and its guard did not see the store)
            old = self.instances[-1]
            self.inst_rebound.append((step, tid, len(snapshot(self.flavour, old)['nodes']), snapshot(self.flavour, old)['ctrs']))
            self.instances.append(st)
            cur = getattr(st, 'lock', None)
            if cur is not None and not isinstance(cur, SLock) and hasattr(cur, 'acquire'):
                cur = SLock(self, real=cur)
                st.lock = cur
            self.lock = cur
            if isinstance(cur, SLock):
                self.locks.append(cur)
            return
        cur = getattr(self.store, 'lock', None)
        if cur is not self.lock:
            self.rebound.append((step, tid))
            if cur is not None and not isinstance(cur, SLock) and hasattr(cur, 'acquire'):
                cur = SLock(self, real=cur)
                self.store.lock = cur
            self.lock = cur
            if isinstance(cur, SLock):
                self.locks.append(cur)

    def run(self, preempt, rng=None, max_steps=4000):
        """preempt: {grant index: tid}.  Default policy: thread 0 (setup) first; then keep running the current
        thread while it is enabled, else the lowest enabled one.  rng: random choice at every grant instead."""
        for w in self.workers:
            w.start()
            self.main_sem.acquire()
        cur = None
        step = 0
        deadlock = False
        while True:
            en = self.enabled()
            if not en:
                if all(w.finished for w in self.workers):
                    break
                deadlock = True
                self.abort = True
                for w in self.workers:
                    if not w.finished:
                        w.sem.release()
                        self.main_sem.acquire()
                        while not w.finished:      # let it unwind (its finally blocks still hit gates)
                            w.sem.release()
                            self.main_sem.acquire()
                break
            if step in preempt and preempt[step] in en:
                t = preempt[step]
            elif rng is not None and 0 not in en:
                t = rng.choice(en)
            elif cur in en:
                t = cur
            else:
                t = en[0]
            w = self.workers[t]
            self.trace.append((t, en, w.pending))
            cur = t
            w.sem.release()
            self.main_sem.acquire()
            self.check_lock_identity(step, t)
            step += 1
            if step > max_steps:
                deadlock = True
                break
        return deadlock


def run_engine(flavour, thread_ops, preempt=None, rng=None, snap=False):
    eng = Engine(flavour, thread_ops, snap=snap)
    try:
        deadlock = eng.run(preempt or {}, rng)
        for w in eng.workers:
            w.thread.join(timeout=2)
        final = snapshot(flavour, eng.store)
    finally:
        eng.inst.close()
    return {'log': eng.log, 'results': [w.results for w in eng.workers], 'deadlock': deadlock,
            'lock_errors': eng.lock_errors, 'locked_at_end': any(l.real.locked() for l in eng.locks), 'final': final,
            'grants': eng.trace, 'rebound': eng.rebound, 'inst_rebound': eng.inst_rebound}


# ----------------------------------------------------------------------------------------------
# from the raw log to per-call traces, the model schedule and the IR paths
# ----------------------------------------------------------------------------------------------

def ir_lines(flavour):
    I = ir()
    if not I:
        return {}, set(), set()
    d = I[flavour]
    lock_lines, multi = set(), set()

    def walk(s):
        k = s[0]
        if k in ('acq', 'rel'):
            lock_lines.add(s[1])
        elif k == 'seq':
            for x in s[1]:
                walk(x)
        elif k == 'if':
            for x in s[5] + s[6]:
                walk(x)
        elif k == 'loop':
            for x in s[3]:
                walk(x)
        elif k == 'try':
            for x in s[2] + (s[3][1] if s[3] else []) + s[4]:
                walk(x)
        elif k in ('with', 'acqt'):
            lock_lines.add(s[1])
            for x in s[2]:
                walk(x)
    for m in d['methods'].values():
        walk(m)
    firsts = {}
    for l, f in d['lines'].items():
        firsts.setdefault(f, []).append(l)
    multi = {f for f, ls in firsts.items() if len(ls) > 1}
    return d['lines'], lock_lines, multi


_LA = {}


def line_acts(flavour):
    """first line of a statement -> its act in the IR"""
    if flavour in _LA:
        return _LA[flavour]
    I = ir()
    d = {}

    def walk(s):
        k = s[0]
        if k in ('act', 'ret', 'if'):
            d[s[1]] = s[2]
        if k == 'seq':
            [walk(x) for x in s[1]]
        elif k == 'if':
            [walk(x) for x in s[5] + s[6]]
        elif k == 'loop':
            [walk(x) for x in s[3]]
        elif k == 'try':
            [walk(x) for x in s[2] + (s[3][1] if s[3] else []) + s[4]]
        elif k in ('with', 'acqt'):
            [walk(x) for x in s[2]]
    if I:
        for m in I[flavour]['methods'].values():
            walk(m)
    _LA[flavour] = d
    return d


def digest(flavour, raw):
    """raw engine result -> per thread per call [(line, code)], schedule (one thread number per model step)"""
    lines, lock_lines, multi = ir_lines(flavour)
    nthreads = len(raw['results'])
    calls = [[] for _ in range(nthreads)]
    sched = []
    last = {}
    for tid, kind, x in raw['log']:
        if kind == 'C':
            calls[tid].append([])
            sched.append(tid)
            last[tid] = None
            continue
        if not calls[tid]:
            continue
        cur = calls[tid][-1]
        if kind == 'L':
            ln = lines.get(x, x)
            if last.get(tid) == ln and ln in multi:
                continue               # continuation line of a multi-line statement
            last[tid] = ln
            cur.append([ln, 0])
            if ln not in lock_lines:
                sched.append(tid)
        elif kind in ('A', 'R'):
            code = 1 if kind == 'A' else 2
            if cur and cur[-1][1] == 0 and cur[-1][0] in lock_lines:
                cur[-1][1] = code
            else:
                cur.append([0, code])
            sched.append(tid)
            last[tid] = None
        elif kind == 'X':
            cur.append([0, 3])         # failed release
        elif kind == 'F':              # timed acquire returned False: the line keeps code 0, it is one model step
            if not (cur and cur[-1][1] == 0 and cur[-1][0] in lock_lines):
                cur.append([0, 0])
            sched.append(tid)
            last[tid] = None
        elif kind == 'E':              # external removal of a node (untraced)
            cur.append([0, 0])
            sched.append(tid)
            last[tid] = None
    return calls, sched


def mirror(s_ir, path):
    """python mirror of Model/Locks20.v `exec AllFaults`; returns (outcome, events, consumed positions).
    Only used to FIND the path; Coq's exec is what is compared with the observation."""
    evs = []
    pos = []         # pos[i] = number of events emitted when choice i was consumed
    it = [0]

    def pop():
        i = it[0]
        it[0] += 1
        pos.append(len(evs))
        return path[i] if i < len(path) else False

    def fp(f):
        return f in ('FWeak', 'FDecl', 'FMay')

    def block(stmts):
        for s in stmts:
            o = ex(s)
            if o != 'n':
                return o
        return 'n'

    def ex(s):
        k = s[0]
        if k == 'skip':
            return 'n'
        if k == 'acq':
            evs.append((s[1], 1))
            return 'n'
        if k == 'rel':
            evs.append((s[1], 2))
            return 'n'
        if k == 'act':
            if fp(s[3]) and pop():
                evs.append((s[1], 0))
                return 'x'
            evs.append((s[1], 0))
            return 'n'
        if k == 'seq':
            return block(s[1])
        if k == 'if':
            if fp(s[3]) and pop():
                evs.append((s[1], 0))
                return 'x'
            b = pop()
            evs.append((s[1], 0))
            return block(s[5] if b else s[6])
        if k == 'loop':
            n = 0
            while True:
                n += 1
                if n > 10000:
                    return 'f'
                if fp(s[2]) and pop():
                    evs.append((s[1], 0))
                    return 'x'
                b = pop()
                evs.append((s[1], 0))
                if not b:
                    return 'n'
                o = block(s[3])
                if o != 'n':
                    return o
        if k == 'try':
            evs.append((s[1], 0))
            o = block(s[2])
            if o == 'x' and s[3] is not None:
                evs.append((s[3][0], 0))
                o = block(s[3][1])
            o3 = block(s[4])
            return o if o3 == 'n' else o3
        if k == 'with':
            evs.append((s[1], 1))
            o = block(s[2])
            evs.append((s[1], 2))
            return o
        if k == 'acqt':
            if pop():
                evs.append((s[1], 0))
                return block(s[2])
            evs.append((s[1], 1))
            return 'n'
        if k == 'ret':
            if fp(s[3]) and pop():
                evs.append((s[1], 0))
                return 'x'
            evs.append((s[1], 0))
            return 'r'
        if k == 'raise':
            evs.append((s[1], 0))
            return 'x'
        raise ValueError(k)
    out = ex(s_ir)
    return out, evs, pos


def find_path(s_ir, observed, raised):
    """depth-first search (false before true) for the choice list whose trace equals the observed one"""
    obs = [tuple(e) for e in observed]
    path = []
    for _ in range(4000):
        out, evs, pos = mirror(s_ir, path)
        mi = 0
        while mi < len(evs) and mi < len(obs) and evs[mi] == obs[mi]:
            mi += 1
        if mi == len(evs) == len(obs) and ((out == 'x') == raised):
            full = [(path[i] if i < len(path) else False) for i in range(len(pos))]
            while full and not full[-1]:
                full.pop()
            return full
        # flip the last false choice consumed at or before the mismatch
        j = None
        for i in range(len(pos) - 1, -1, -1):
            val = path[i] if i < len(path) else False
            if pos[i] <= mi and not val:
                j = i
                break
        if j is None:
            return None
        path = [(path[i] if i < len(path) else False) for i in range(j)] + [True]
    return None


class Interner:
    def __init__(self):
        self.d = {}

    def __call__(self, g):
        if g == '_':
            return 0
        if not isinstance(g, str):
            g = 'odd:' + repr(g)
        if g not in self.d:
            self.d[g] = len(self.d) + 1
        return self.d[g]


def build_obs(flavour, thread_ops, raw):
    calls, sched = digest(flavour, raw)
    I = ir()
    out_calls = []
    for tid, ops in enumerate(thread_ops):
        row = []
        for i, op in enumerate(ops):
            if i >= len(raw['results'][tid]):
                break
            res = raw['results'][tid][i]
            evs = calls[tid][i] if i < len(calls[tid]) else []
            raised = res['out'] != 'ok'
            p = None
            if op['m'] in EXT_OPS or op['m'] == 'new_importer':
                p = []
            elif I and op['m'] in I[flavour]['methods']:
                p = find_path(I[flavour]['methods'][op['m']], evs, raised)
            ent = {'op': op, 'events': evs, 'out': res['out'], 'ret': res['ret'], 'path': p}
            if 'rm' in res:
                ent['rm'] = res['rm']
            ent['held_after'] = bool(res.get('held_after'))
            if 'before' in res:
                ent['before'], ent['after'] = res['before'], res['after']
            if 'msg' in res:
                ent['msg'] = res['msg']
            row.append(ent)
        out_calls.append(row)
    return {'calls': out_calls, 'sched': sched, 'final': raw['final'], 'deadlock': raw['deadlock'],
            'lock_errors': raw['lock_errors'], 'locked_at_end': raw['locked_at_end'],
            'rebound': raw.get('rebound', []), 'inst_rebound': raw.get('inst_rebound', []),
            'blocked': sum(1 for _, k, _ in raw['log'] if k == 'B'),
            'lock_order': [(t, k) for t, k, _ in raw['log'] if k in ('A', 'C')]}


def serial_replay(flavour, thread_ops, obs):
    """the same calls run one after the other, in the order in which they took the lock (calls that never
    took it: in call order), on a fresh store without any instrumentation"""
    order = []
    idx = [-1] * len(thread_ops)
    pending = {}
    seen = set()
    for t, k in obs['lock_order']:
        if k == 'C':
            idx[t] += 1
            pending[t] = (t, idx[t])
            order.append(['C', (t, idx[t])])
        elif k == 'A' and t in pending and pending[t] not in seen:
            seen.add(pending[t])
            order.append(['A', pending[t]])
    seq = [c for k, c in order if (k == 'A') or (k == 'C' and c not in seen)]
    inst = Installed(flavour)
    try:
        rets = {}
        for (t, i) in seq:
            try:
                r = call_op(inst.handle, thread_ops[t][i])
                rets[(t, i)] = ('ok', r if isinstance(r, int) and not isinstance(r, bool) else None)
            except Exception as e:
                rets[(t, i)] = ('exc:' + type(e).__name__, None)
        st = inst.current()
        return snapshot(flavour, st), rets, st.lock.locked()
    finally:
        inst.close()


# ----------------------------------------------------------------------------------------------
# the property oracle (implementation observables only)
# ----------------------------------------------------------------------------------------------

def oracle_common(flavour, thread_ops, obs, check_serial):
    for e in obs['lock_errors']:
        if obs.get('rebound'):
            return ('lock error: %s -- storage.lock was re-bound to a NEW lock object at step %d by thread %d while '
                    'another call was queued on / using the old one (it later releases the new, never acquired lock)'
                    % (e, obs['rebound'][0][0], obs['rebound'][0][1]))
        return 'lock error: ' + e
    if obs.get('inst_rebound'):
        step, tid, orphan, octrs = obs['inst_rebound'][0]
        who = ''
        for t, row in enumerate(obs['calls']):
            if t == tid:
                who = ', '.join(c['op']['m'] for c in row if c['op']['m'] == 'new_importer') and 'new_importer'
        return ('%s store: the process-wide store singleton was REPLACED by a new object at step %d by thread %d%s '
                '(new graph object, new lock, counters restart at 1; old counters %r); %d node(s) stayed behind in the '
                'orphaned store, %d replacement(s) in this run' % (flavour, step, tid, ' (constructing a new importer)' if who else '',
                                                                  octrs, orphan, len(obs['inst_rebound'])))
    for tid, row in enumerate(obs['calls']):
        for c in row:
            if c.get('held_after'):
                return ('%s store: call %s(%s) %s and left the store lock HELD (checked right after the call); every later '
                        'caller blocks for ever' % (flavour, c['op']['m'], c['op'].get('g'),
                                                    'returned' if c['out'] == 'ok' else 'raised ' + c['out'][4:]))
    if obs['deadlock']:
        return 'a caller blocked forever on the store lock (lock left held)'
    for tid, row in enumerate(obs['calls']):
        for i, c in enumerate(row):
            held = False
            for ln, code in c['events']:
                if code == 1:
                    if held:
                        return 'call %s acquired the lock twice' % c['op']['m']
                    held = True
                elif code == 2:
                    if not held:
                        return 'call %s released a lock it did not hold' % c['op']['m']
                    held = False
                elif code == 3:
                    return 'call %s: release of an unlocked lock' % c['op']['m']
            if held:
                return 'call %s(%s) returned (%s) with the lock still held' % (c['op']['m'], c['op'].get('g'), c['out'])
            if c['out'].startswith('exc:RuntimeError') and 'lock' in c.get('msg', ''):
                return 'call %s failed with a lock error' % c['op']['m']
    if obs['locked_at_end']:
        if obs.get('rebound'):
            return 'a lock object of the store is still held after all calls finished (storage.lock was re-bound during the run; the old lock was orphaned)'
        return 'lock held after all calls finished'
    # returned ids fresh: never an id that was already a node of that graph (shared: of the store)
    for tid, row in enumerate(obs['calls']):
        for c in row:
            if 'before' in c:
                why = frame_oracle(flavour, c)
                if why:
                    return why
    if check_serial:
        all_ops = [o for ops in thread_ops for o in ops]
        # (1) ids handed out by add_blank_node_to_graph: the shared store never reuses an id; the disjoint store
        #     only after the graph was emptied / replaced
        seen = {}
        for tid, row in enumerate(obs['calls']):
            for c in row:
                if c['op']['m'] == 'add_blank_node_to_graph' and c['ret'] is not None:
                    g = c['op']['g']
                    reset = flavour == 'disjoint' and any(o['m'] == 'del_all_graphs' or (o.get('g') == g and o['m'] in
                                                          ('del_graph', 'add_graph_direct', 'add_graph')) for o in all_ops)
                    key = (g if flavour == 'disjoint' else '_', c['ret'])
                    if key in seen and not reset:
                        return 'internal id %r handed out twice (%s)' % (c['ret'], 'graph ' + g if flavour == 'disjoint' else 'shared store')
                    seen[key] = True
        # (2) no insertion lost: without deleting / replacing calls the store holds every node that was added
        deleting = any(o['m'] in ('del_graph', 'del_all_graphs', 'add_graph_direct') + EXT_OPS for o in all_ops)
        # an import replaces (shared) or is skipped on (disjoint) an existing graph: the count is only predictable
        # when an imported graph id is touched by nothing else (or, in the sequential setup thread, by nothing earlier)
        safe = True
        for t, ops in enumerate(thread_ops):
            for i, o in enumerate(ops):
                if o['m'] == 'add_graph':
                    if t == 0:
                        safe = safe and not any(o2.get('g') == o['g'] for o2 in ops[:i])
                    else:
                        safe = safe and not any(o2.get('g') == o['g'] and not (t2 == t and j == i)
                                                for t2, ops2 in enumerate(thread_ops) for j, o2 in enumerate(ops2))
        if not deleting and safe:
            exp = 0
            for row in obs['calls']:
                for c in row:
                    if c['out'] == 'ok' and c['op']['m'] == 'add_graph':
                        exp += c['op']['k']
                    if c['out'] == 'ok' and c['op']['m'] == 'add_blank_node_to_graph':
                        exp += 1
            if len(obs['final']['nodes']) != exp:
                return 'a node was lost: %d nodes added by successful calls, %d in the store' % (exp, len(obs['final']['nodes']))
        # (3) atomicity: when every call took the lock, the run must equal the serial run in lock order
        took = all(any(cd == 1 for _, cd in c['events']) or c['op']['m'] in ('get_graph', 'new_importer') for row in obs['calls'] for c in row) \
            and not any(o['m'] in EXT_OPS for o in all_ops)
        if took:
            snap, rets, locked = serial_replay(flavour, thread_ops, obs)
            fin = obs['final']
            if sorted(map(tuple, snap['nodes'])) != sorted(map(tuple, fin['nodes'])):
                a, b = len(fin['nodes']), len(snap['nodes'])
                return 'concurrent run differs from the serial run in lock order: %d nodes instead of %d (node lost or misplaced)' % (a, b)
            if snap['ctrs'] != fin['ctrs']:
                return 'concurrent run differs from the serial run in lock order: counters %r instead of %r' % (fin['ctrs'], snap['ctrs'])
            for tid, row in enumerate(obs['calls']):
                for i, c in enumerate(row):
                    if (tid, i) in rets and rets[(tid, i)] != (c['out'], c['ret']):
                        return 'call %s returned %r, serial run in lock order returns %r' % (c['op']['m'], (c['out'], c['ret']), rets[(tid, i)])
    return None


def frame_oracle(flavour, c):
    """per-call postconditions on the per-graph node sets (sequential histories)"""
    op, m = c['op'], c['op']['m']
    g = op.get('g')
    if not isinstance(g, str):
        return None
    b, a = per_graph(c['before']), per_graph(c['after'])
    others_b = {k: v for k, v in b.items() if k != g}
    others_a = {k: v for k, v in a.items() if k != g}
    if m != 'del_all_graphs' and others_a != others_b:
        return '%s(%s) changed another graph' % (m, g)
    if flavour == 'shared' and c['after']['ctrs'].get('_', 0) < c['before']['ctrs'].get('_', 0):
        return '%s(%s): start_id went back from %r to %r' % (m, g, c['before']['ctrs'].get('_'), c['after']['ctrs'].get('_'))
    if m == 'new_importer' and (a != b or c['after']['ctrs'] != c['before']['ctrs']):
        return 'constructing a new importer changed the store'
    bg, agn = b.get(g, set()), a.get(g, set())
    if m in EXT_OPS:
        if c['out'] != 'ok':
            return '%s raised %s' % (m, c['out'])
        if agn != bg - {c.get('rm', 0)}:
            return '%s did not remove exactly the chosen node' % m
        return None
    if m == 'add_blank_node_to_graph' and c['out'] == 'ok':
        r = c['ret']
        allb = set().union(*b.values()) if (flavour == 'shared' and b) else bg
        if r in allb:
            return 'add_blank_node_to_graph handed out id %r which was already in use' % r
        if agn != bg | {r}:
            return 'add_blank_node_to_graph: node set of %s is not the old one plus the new id (node lost)' % g
    if m in ('add_graph', 'add_graph_direct') and c['out'] == 'ok':
        k = op['k']
        if flavour == 'disjoint' and m == 'add_graph' and bg:
            if agn != bg:
                return 'add_graph on an existing graph changed it'
        elif len(agn) != k:
            return '%s(%s): %d nodes stored for a graph of %d nodes' % (m, g, len(agn), k)
        elif flavour == 'shared' and agn & set().union(*others_b.values(), set()):
            return '%s reused an internal id of another graph' % m
    if m == 'del_graph' and c['out'] == 'ok' and agn:
        return 'del_graph left nodes behind'
    if m == 'del_all_graphs' and c['out'] == 'ok' and a:
        return 'del_all_graphs left nodes behind'
    if m in ('extract_graph', 'get_graph') and a != b:
        return '%s changed the store' % m
    return None


# ----------------------------------------------------------------------------------------------
# Coq terms
# ----------------------------------------------------------------------------------------------

def coq_case(flavour, thread_ops, obs):
    it = Interner()
    ths = []
    for tid, row in enumerate(obs['calls']):
        cs = []
        for c in row:
            op = c['op']
            g = it(op['g'] if isinstance(op.get('g'), str) else 'odd:' + json.dumps(op.get('g')))
            k = c.get('rm', 0) if op['m'] in EXT_OPS else (op.get('k') or 0)
            p = c['path'] if c['path'] is not None else [True] * 64      # no path found: force a disagreement
            evs = clist(['(%s,%s)' % (cN(l), cN(cd)) for l, cd in c['events']])
            outc = 0 if c['out'] == 'ok' else 1
            cs.append('("%s"%%string, %s, %s, %s, %s, %s)' % ('remove_node' if (op['m'] in EXT_OPS and not c.get('rm') and not any(cd for _, cd in c['events'])) else op['m'], cN(g), cN(k), clist([cbool(b) for b in p]), evs, cN(outc)))
        ths.append(clist(cs))
    fin = obs['final']
    if flavour == 'shared':
        ctrs = [(0, fin['ctrs']['_'])]
    else:
        gids = set(fin['ctrs']) | {op['g'] for ops in thread_ops for op in ops if isinstance(op.get('g'), str)}
        ctrs = [(it(g), fin['ctrs'].get(g, 1)) for g in sorted(gids)]
    nodes = ['(%s,%s,%s)' % (cN(it(c)), cN(n), cN(it(g))) for c, n, g in fin['nodes']]
    rets = [clist([cN(c['ret']) for c in row if c['ret'] is not None]) for row in obs['calls']]
    return '(%s, %s, %s, (%s, %s, %s))' % (
        cbool(flavour == 'disjoint'), clist(ths), '[' + ';'.join('%d' % t for t in obs['sched']) + ']%N',
        clist(['(%s,%s)' % (cN(a), cN(b)) for a, b in ctrs]), clist(nodes), clist(rets))


HEADER = ('From Coq Require Import List NArith String Bool.\nImport ListNotations.\n'
          'From FIM Require Import Model.Locks20 Gen.Locks Model.Conc20.\nOpen Scope N_scope.\n')


def slim(obs):
    """json-able, small"""
    return {'calls': [[{k: v for k, v in c.items() if k not in ('before', 'after')} for c in row] for row in obs['calls']],
            'sched': obs['sched'], 'final': obs['final'], 'deadlock': obs['deadlock'], 'lock_errors': obs['lock_errors'],
            'locked_at_end': obs['locked_at_end'], 'lock_rebound_at': obs.get('rebound', []),
            'store_singleton_replaced_at': obs.get('inst_rebound', [])}


# ----------------------------------------------------------------------------------------------
# generators
# ----------------------------------------------------------------------------------------------

GIDS = ['g1', 'g2', 'g3']


def rand_op(rng, fail_rate=0.25):
    r = rng.random()
    g = rng.choice(GIDS)
    if r < 0.30:
        op = {'m': 'add_graph', 'g': g, 'k': rng.choice([0, 1, 1, 2, 2, 3]), 'bad': None}
        f = rng.random()
        if f < fail_rate * 0.6 and op['k'] > 0:
            op['bad'] = rng.randrange(op['k'])
        elif f < fail_rate:
            op['k'] = None
        elif f < fail_rate + 0.1:
            op['di'] = True
        return op
    if r < 0.42:
        op = {'m': 'add_graph_direct', 'g': g, 'k': rng.choice([0, 1, 2, 3]), 'bad': None}
        if rng.random() < fail_rate * 0.5:
            op['k'] = None
        return op
    if r < 0.67:
        op = {'m': 'add_blank_node_to_graph', 'g': g}
        if rng.random() < fail_rate * 0.4:
            op['dupkw'] = True
        return op
    if r < 0.75:
        return {'m': 'del_graph', 'g': g}
    if r < 0.81:
        return {'m': 'extract_graph', 'g': g}
    if r < 0.85:
        return {'m': 'get_graph', 'g': g}
    if r < 0.89:        # a caller removes a node from the stored graph, directly ...
        return {'m': 'remove_node', 'g': g, 'idx': rng.randrange(4)}
    if r < 0.93:        # ... or through NetworkXPropertyGraph.delete_node
        return {'m': 'delete_node', 'g': g, 'idx': rng.randrange(4)}
    if r < 0.965:       # a caller constructs a new importer / property-graph handle (runs the singleton guard)
        return {'m': 'new_importer', 'g': g, 'kind': rng.choice(['importer', 'pgraph'])}
    return {'m': 'del_all_graphs', 'g': g}


def shrink_ops(case, failing, key='ops'):
    cur = dict(case)
    ops = list(cur[key])
    i = 0
    while i < len(ops):
        trial = ops[:i] + ops[i + 1:]
        c2 = dict(cur)
        c2[key] = trial
        if trial and failing(c2):
            ops = trial
        else:
            i += 1
    cur[key] = ops
    return cur


class Seq(Stream):
    name = 'seq'
    header = HEADER
    case_type = 'ccase'
    check_fn = 'check_case'
    shard = 250
    rule = ('one thread, random histories of 3-12 store calls on a fresh store of either flavour over 3 graph ids: '
            'imports (0-3 nodes, Graph/DiGraph), failing imports (a node without NodeID, a garbage graph), duplicate '
            'ids, direct imports, blank nodes (incl. a raising keyword clash), deletes, delete-then-reimport, '
            'extract/get, and callers removing a node of a stored graph (directly and through '
            'NetworkXPropertyGraph.delete_node) between allocations; non-trivial = at least one failing call, a '
            're-import of an id used before or a node removal followed by an allocation; distinct by '
            'flavour + call list')

    def gen(self, rng, tier):
        n = 240 if tier == 'quick' else 4000
        out = []
        for i in range(n):
            ops = [rand_op(rng) for _ in range(rng.randrange(3, 13))]
            if i % 5 == 4:
                # lookups of deleted and of never-imported ids followed by a (second) delete, spliced into the history
                g = rng.choice(GIDS)
                look = lambda: {'m': rng.choice(['get_graph', 'extract_graph']), 'g': g}
                pat = rng.choice([
                    [look(), {'m': 'del_graph', 'g': g}],
                    [{'m': 'add_graph', 'g': g, 'k': rng.choice([1, 2]), 'bad': None}, {'m': 'del_graph', 'g': g}, look(),
                     {'m': 'del_graph', 'g': g}],
                    [{'m': 'del_graph', 'g': g}, look(), {'m': 'del_graph', 'g': g}, {'m': 'add_blank_node_to_graph', 'g': g}],
                    [{'m': 'del_all_graphs', 'g': g}, look(), {'m': 'del_graph', 'g': g}, {'m': 'add_graph', 'g': g, 'k': 1, 'bad': None}],
                    # a new importer / handle constructed on an emptied store
                    [{'m': 'del_all_graphs', 'g': g}, {'m': 'new_importer', 'g': g, 'kind': 'importer'},
                     {'m': 'add_graph', 'g': g, 'k': 2, 'bad': None}, {'m': 'add_blank_node_to_graph', 'g': g}],
                    [{'m': 'add_blank_node_to_graph', 'g': g}, {'m': 'del_graph', 'g': g}, {'m': 'new_importer', 'g': g, 'kind': 'pgraph'},
                     {'m': 'add_blank_node_to_graph', 'g': g}],
                ])
                at = rng.randrange(len(ops) + 1)
                ops = ops[:at] + pat + ops[at:]
            if i % 7 == 3:      # ... and on a store that never held anything
                ops = [{'m': 'new_importer', 'g': 'g1', 'kind': rng.choice(['importer', 'pgraph'])}] + ops
            out.append({'flavour': FLAVOURS[i % 2], 'ops': ops})
        return out

    def corpus(self):
        out = []
        for fl in FLAVOURS:
            out.append({'flavour': fl, 'ops': [{'m': 'add_graph', 'g': 'g1', 'k': 2, 'bad': None},
                                               {'m': 'add_graph', 'g': 'g1', 'k': 2, 'bad': None},
                                               {'m': 'add_blank_node_to_graph', 'g': 'g1'},
                                               {'m': 'del_graph', 'g': 'g1'},
                                               {'m': 'add_graph', 'g': 'g1', 'k': 1, 'bad': None},
                                               {'m': 'add_blank_node_to_graph', 'g': 'g1'}]})
            out.append({'flavour': fl, 'ops': [{'m': 'add_graph', 'g': 'g2', 'k': 3, 'bad': 1},
                                               {'m': 'add_graph', 'g': 'g2', 'k': None, 'bad': None},
                                               {'m': 'add_blank_node_to_graph', 'g': 'g2', 'dupkw': True},
                                               {'m': 'add_blank_node_to_graph', 'g': 'g2'},
                                               {'m': 'extract_graph', 'g': 'g2'}, {'m': 'extract_graph', 'g': 'g3'},
                                               {'m': 'get_graph', 'g': 'g2'}, {'m': 'del_all_graphs', 'g': 'g1'},
                                               {'m': 'add_graph_direct', 'g': 'g2', 'k': 2, 'bad': None},
                                               {'m': 'add_graph_direct', 'g': 'g2', 'k': 1, 'bad': None}]})
        return out + load_corpus('seq')

    def observe(self, case):
        raw = run_engine(case['flavour'], [case['ops']], snap=True)
        return build_obs(case['flavour'], [case['ops']], raw)

    def to_coq(self, case, obs):
        return coq_case(case['flavour'], [case['ops']], obs)

    def oracle(self, case, obs):
        return oracle_common(case['flavour'], [case['ops']], obs, check_serial=False)

    def key(self, case, obs):
        ops = case['ops']
        failing = any(c['out'] != 'ok' for c in obs['calls'][0])
        seen, re_import = set(), False
        for o in ops:
            if o['m'] in ('add_graph', 'add_graph_direct'):
                if o['g'] in seen:
                    re_import = True
                seen.add(o['g'])
        rm_then_alloc = False
        for i, o in enumerate(ops):
            if o['m'] in EXT_OPS and i < len(obs['calls'][0]) and obs['calls'][0][i].get('rm') and any(
                    o2['m'] == 'add_blank_node_to_graph' and o2['g'] == o['g'] for o2 in ops[i + 1:]):
                rm_then_alloc = True
        if failing or re_import or rm_then_alloc:
            return stable_hash([case['flavour'], ops])
        return None

    def histogram(self, cases, obs):
        h = {'calls': 0, 'failing_calls': 0, 'reimport_cases': 0, 'early_return_dup': 0, 'paths_not_found': 0}
        h['node_removals'] = sum(1 for o in obs for cl in o['calls'][0] if cl.get('rm'))
        h['allocation_after_removal_of_a_non_last_node'] = 0
        for c, o in zip(cases, obs):
            for i, cl in enumerate(o['calls'][0]):
                if cl.get('rm') and 'before' in cl:
                    ids = per_graph(cl['before']).get(cl['op']['g'], set())
                    if ids and cl['rm'] != max(ids) and any(c2['op']['m'] == 'add_blank_node_to_graph' and c2['op']['g'] == cl['op']['g']
                                                            and c2['out'] == 'ok' for c2 in o['calls'][0][i + 1:]):
                        h['allocation_after_removal_of_a_non_last_node'] += 1
        per = {}
        for c, o in zip(cases, obs):
            seen, re_imp = set(), False
            for op in c['ops']:
                if op['m'] in ('add_graph', 'add_graph_direct'):
                    re_imp = re_imp or op['g'] in seen
                    seen.add(op['g'])
            h['reimport_cases'] += re_imp
            for cl in o['calls'][0]:
                h['calls'] += 1
                h['failing_calls'] += cl['out'] != 'ok'
                per[cl['op']['m']] = per.get(cl['op']['m'], 0) + 1
                h['paths_not_found'] += cl['path'] is None
                if c['flavour'] == 'disjoint' and cl['op']['m'] == 'add_graph' and any(l == 106 for l, _ in cl['events']):
                    h['early_return_dup'] += 1
        h['per_method'] = per
        # statements reading the node map executed while the lock is not held (allowed by the data automaton:
        # reads are outside the property; listed for the record)
        ung = set()
        I = ir()
        for c, o in zip(cases, obs):
            kinds = line_acts(c['flavour'])
            for cl in o['calls'][0]:
                held = False
                for ln, cd in cl['events']:
                    if cd == 1:
                        held = True
                    elif cd == 2:
                        held = False
                    elif not held and kinds.get(ln, '').split(' ')[0] in ('XRead', 'XTest'):
                        ung.add('%s.%s:%d' % (c['flavour'], cl['op']['m'], ln))
        h['unguarded_reads_observed'] = sorted(ung)
        return h

    def describe(self, case, obs):
        return {'case': case, 'impl': slim(obs)}

    def known_signature(self, case, obs, why):
        return why or ''

    def shrink(self, case, failing):
        return shrink_ops(case, failing)


# ---- concurrent schedules ------------------------------------------------------------------------

SCENARIOS = [
    # (name, setup ops, threads)
    ('blank-vs-blank', [{'m': 'add_graph', 'g': 'g1', 'k': 1, 'bad': None}],
     [[{'m': 'add_blank_node_to_graph', 'g': 'g1'}, {'m': 'add_blank_node_to_graph', 'g': 'g1'}],
      [{'m': 'add_blank_node_to_graph', 'g': 'g1'}, {'m': 'add_blank_node_to_graph', 'g': 'g1'}]]),
    ('import-vs-blank', [{'m': 'add_graph', 'g': 'g1', 'k': 1, 'bad': None}],
     [[{'m': 'add_graph', 'g': 'g2', 'k': 2, 'bad': None}, {'m': 'add_blank_node_to_graph', 'g': 'g2'}],
      [{'m': 'add_blank_node_to_graph', 'g': 'g1'}, {'m': 'add_graph', 'g': 'g3', 'k': 1, 'bad': None}]]),
    ('import-vs-import', [],
     [[{'m': 'add_graph', 'g': 'g1', 'k': 2, 'bad': None}, {'m': 'add_graph', 'g': 'g1', 'k': 1, 'bad': None}],
      [{'m': 'add_graph', 'g': 'g2', 'k': 1, 'bad': None}, {'m': 'add_graph', 'g': 'g1', 'k': 1, 'bad': 0}]]),
    ('delete-reimport-vs-blank', [{'m': 'add_graph', 'g': 'g1', 'k': 2, 'bad': None}],
     [[{'m': 'del_graph', 'g': 'g1'}, {'m': 'add_graph', 'g': 'g1', 'k': 1, 'bad': None}],
      [{'m': 'add_blank_node_to_graph', 'g': 'g1'}, {'m': 'add_graph_direct', 'g': 'g2', 'k': 1, 'bad': None}]]),
    # callers remove nodes (delete_node / remove_node on the stored graph) between and during allocations
    ('remove-vs-blank', [{'m': 'add_graph', 'g': 'g1', 'k': 3, 'bad': None}],
     [[{'m': 'remove_node', 'g': 'g1', 'idx': 0}, {'m': 'add_blank_node_to_graph', 'g': 'g1'}],
      [{'m': 'add_blank_node_to_graph', 'g': 'g1'}, {'m': 'delete_node', 'g': 'g1', 'idx': 1}]]),
    # a second importer is constructed while a thread is inside a store method, on an empty / emptied store
    ('new-importer-on-empty-store', [],
     [[{'m': 'add_graph', 'g': 'g1', 'k': 2, 'bad': None}, {'m': 'add_blank_node_to_graph', 'g': 'g1'}],
      [{'m': 'new_importer', 'g': 'g2', 'kind': 'importer'}, {'m': 'add_blank_node_to_graph', 'g': 'g2'}]]),
    ('new-importer-after-delete-all', [{'m': 'add_graph', 'g': 'g1', 'k': 2, 'bad': None}, {'m': 'del_all_graphs', 'g': 'g1'}],
     [[{'m': 'add_blank_node_to_graph', 'g': 'g1'}, {'m': 'add_graph', 'g': 'g2', 'k': 1, 'bad': None}],
      [{'m': 'new_importer', 'g': 'g1', 'kind': 'pgraph'}, {'m': 'add_graph', 'g': 'g3', 'k': 1, 'bad': None}]]),
    # lookups of deleted / never-imported ids followed by a second delete
    ('lookup-deleted-vs-delete', [{'m': 'add_graph', 'g': 'g1', 'k': 1, 'bad': None}],
     [[{'m': 'del_graph', 'g': 'g1'}, {'m': 'get_graph', 'g': 'g1'}, {'m': 'del_graph', 'g': 'g1'}],
      [{'m': 'extract_graph', 'g': 'g2'}, {'m': 'del_graph', 'g': 'g2'}, {'m': 'add_blank_node_to_graph', 'g': 'g1'}]]),
    # T1 inside del_all_graphs while T2 is queued on acquire (and the other way round)
    ('delete-all-vs-queued', [{'m': 'add_graph', 'g': 'g1', 'k': 1, 'bad': None}],
     [[{'m': 'del_all_graphs', 'g': 'g1'}, {'m': 'add_blank_node_to_graph', 'g': 'g1'}],
      [{'m': 'add_blank_node_to_graph', 'g': 'g1'}, {'m': 'add_graph', 'g': 'g2', 'k': 1, 'bad': None}]]),
]
SCENARIOS3 = [
    ('three-blank', [{'m': 'add_graph', 'g': 'g1', 'k': 1, 'bad': None}],
     [[{'m': 'add_blank_node_to_graph', 'g': 'g1'}, {'m': 'add_blank_node_to_graph', 'g': 'g2'}],
      [{'m': 'add_blank_node_to_graph', 'g': 'g1'}, {'m': 'add_graph', 'g': 'g2', 'k': 1, 'bad': None}],
      [{'m': 'add_blank_node_to_graph', 'g': 'g2'}, {'m': 'add_blank_node_to_graph', 'g': 'g1'}]]),
    ('delete-all-among-three', [{'m': 'add_graph', 'g': 'g1', 'k': 1, 'bad': None}],
     [[{'m': 'del_all_graphs', 'g': 'g1'}],
      [{'m': 'add_blank_node_to_graph', 'g': 'g1'}, {'m': 'extract_graph', 'g': 'g1'}],
      [{'m': 'add_graph', 'g': 'g2', 'k': 1, 'bad': None}]]),
]


def thread_ops_of(case):
    return [case['setup']] + case['threads']


class Sched(Stream):
    name = 'sched'
    header = HEADER
    case_type = 'ccase'
    check_fn = 'check_case'
    shard = 250
    rule = ('2-3 real threads x 2 store calls each (after a sequential setup thread) stepped line by line; for each '
            'scenario and flavour ALL schedules with at most B preemptions, a preemption being possible before every '
            'source line of the store (quick: B=2 for the 2-thread scenarios, 3 threads B=1 plus B=2 restricted to '
            'lines touching lock/counter/node map; thorough: B=3 for 2 threads, B=2 for 3 threads) plus random schedules of random 2-3 thread programs of 2-4 calls with a random switch at every line; '
            'non-trivial = the schedule has at least one switch between worker threads while both are unfinished; '
            'distinct by flavour + programs + model-level schedule')

    def __init__(self):
        self.exhaustive_counts = {}

    def enumerate(self, flavour, setup, threads, bound, relevant_only, cap=None):
        """iterative context bounding: all preemption sets of size <= bound"""
        tops = [setup] + threads
        out = []
        lines, lock_lines, _ = ir_lines(flavour)
        relevant = self.relevant_lines(flavour)

        def explore(pre, depth, start):
            raw = run_engine(flavour, tops, preempt=pre)
            out.append((dict(pre), raw))
            if depth >= bound or (cap and len(out) >= cap):
                return
            grants = raw['grants']
            # grant index -> line about to run (from the log order): approximate by enabled sets only
            for i in range(start, len(grants)):
                t, en, pend = grants[i]
                if t == 0 or 0 in en:
                    continue
                if relevant_only and lines.get(pend, pend) not in relevant:
                    continue
                for u in en:
                    if u != t and u != 0:
                        p2 = dict(pre)
                        p2[i] = u
                        explore(p2, depth + 1, i + 1)
                        if cap and len(out) >= cap:
                            return
        explore({}, 0, 0)
        return out

    def relevant_lines(self, flavour):
        """first lines of statements that touch the lock, a counter or the node map"""
        I = ir()
        rel = set()
        if not I:
            return rel

        def walk(s):
            k = s[0]
            if k in ('acq', 'rel'):
                rel.add(s[1])
            elif k in ('act', 'ret') and s[2] != 'XLocal':
                rel.add(s[1])
            elif k == 'seq':
                [walk(x) for x in s[1]]
            elif k == 'if':
                if s[2] != 'XLocal':
                    rel.add(s[1])
                [walk(x) for x in s[5] + s[6]]
            elif k == 'loop':
                [walk(x) for x in s[3]]
            elif k == 'try':
                [walk(x) for x in s[2] + (s[3][1] if s[3] else []) + s[4]]
            elif k in ('with', 'acqt'):
                rel.add(s[1])
                [walk(x) for x in s[2]]
        for m in I[flavour]['methods'].values():
            walk(m)
        return rel

    def gen(self, rng, tier):
        cases = []
        quick = tier == 'quick'
        self.exhaustive_counts = {}
        for fl in FLAVOURS:
            for name, setup, threads in SCENARIOS:
                plans = [(2, False)] if quick else [(3, False)]
                seen = set()
                for bound, relonly in plans:
                    cap = 700 if quick else 30000
                    for pre, raw in self.enumerate(fl, setup, threads, bound, relonly, cap=cap):
                        k = tuple(sorted(pre.items()))
                        if k in seen:
                            continue
                        seen.add(k)
                        cases.append({'flavour': fl, 'scenario': name, 'setup': setup, 'threads': threads,
                                      'preempt': sorted(pre.items()), '_raw': raw})
                self.exhaustive_counts['%s/%s' % (fl, name)] = len(seen)
            for name, setup, threads in SCENARIOS3:
                seen = set()
                for pre, raw in (self.enumerate(fl, setup, threads, 1, False, cap=300) + self.enumerate(fl, setup, threads, 2, True, cap=400)
                                 if quick else self.enumerate(fl, setup, threads, 2, False, cap=20000)):
                    k = tuple(sorted(pre.items()))
                    if k in seen:
                        continue
                    seen.add(k)
                    cases.append({'flavour': fl, 'scenario': name, 'setup': setup, 'threads': threads,
                                  'preempt': sorted(pre.items()), '_raw': raw})
                self.exhaustive_counts['%s/%s' % (fl, name)] = len(seen)
        nrand = 300 if quick else 6000
        for i in range(nrand):
            nt = rng.choice([2, 2, 3])
            setup = [rand_op(rng, 0.0) for _ in range(rng.randrange(0, 3))]
            threads = [[rand_op(rng, 0.15) for _ in range(rng.randrange(2, 5))] for _ in range(nt)]
            cases.append({'flavour': FLAVOURS[i % 2], 'scenario': 'random', 'setup': setup, 'threads': threads,
                          'seed': rng.randrange(1 << 30)})
        return cases

    def corpus(self):
        return load_corpus('sched')

    def observe(self, case):
        tops = thread_ops_of(case)
        raw = case.pop('_raw', None)
        if raw is None:
            if 'seed' in case:
                import random
                raw = run_engine(case['flavour'], tops, rng=random.Random(case['seed']))
            else:
                raw = run_engine(case['flavour'], tops, preempt={int(a): b for a, b in case.get('preempt', [])})
        return build_obs(case['flavour'], tops, raw)

    def to_coq(self, case, obs):
        return coq_case(case['flavour'], thread_ops_of(case), obs)

    def oracle(self, case, obs):
        return oracle_common(case['flavour'], thread_ops_of(case), obs, check_serial=True)

    def key(self, case, obs):
        s = [t for t in obs['sched'] if t != 0]
        switches = sum(1 for a, b in zip(s, s[1:]) if a != b)
        nthreads = len(case['threads'])
        if switches >= nthreads:      # more switches than a run-to-completion schedule needs
            return stable_hash([case['flavour'], case['setup'], case['threads'], obs['sched']])
        return None

    def histogram(self, cases, obs):
        h = {'exhaustive_schedules': dict(self.exhaustive_counts), 'random': 0, 'blocked_acquires': 0,
             'max_switches': 0, 'steps_total': 0, 'failing_calls': 0, 'paths_not_found': 0}
        for c, o in zip(cases, obs):
            h['random'] += c.get('scenario') == 'random'
            s = [t for t in o['sched'] if t != 0]
            h['max_switches'] = max(h['max_switches'], sum(1 for a, b in zip(s, s[1:]) if a != b))
            h['steps_total'] += len(o['sched'])
            h['blocked_acquires'] += o.get('blocked', 0)
            for row in o['calls']:
                for cl in row:
                    h['failing_calls'] += cl['out'] != 'ok'
                    h['paths_not_found'] += cl['path'] is None
        return h

    def describe(self, case, obs):
        c = {k: v for k, v in case.items() if k != '_raw'}
        return {'case': c, 'impl': slim(obs)}

    def shrink(self, case, failing):
        c = {k: v for k, v in case.items() if k != '_raw'}
        # try to drop calls from each thread / the setup
        for key in ('setup',):
            ops = list(c[key])
            i = 0
            while i < len(ops):
                c2 = dict(c)
                c2[key] = ops[:i] + ops[i + 1:]
                if failing(c2):
                    ops = c2[key]
                else:
                    i += 1
            c[key] = ops
        return c


# ---- attack on the non-raising assumption --------------------------------------------------------

class Attack(Stream):
    name = 'attack'
    header = HEADER
    case_type = '(bool * string * N * bool)'
    check_fn = 'attack_ok'
    rule = ('every public method of both stores called once with an odd graph id (None, float, tuple, int, unhashable '
            'list/dict) or a garbage graph on a populated store; the model predicts that the lock can only stay held '
            'when the raising statement is one of the listed statements outside any try (fnever_lines); non-trivial = '
            'the call raised; distinct by flavour, method, id kind')

    def gen(self, rng, tier):
        out = []
        for fl in FLAVOURS:
            for m in ('add_graph', 'add_graph_direct', 'del_graph', 'extract_graph', 'get_graph',
                      'add_blank_node_to_graph', 'del_all_graphs'):
                for kind in ('none', 'float', 'tuple', 'int', 'list', 'dict'):
                    out.append({'flavour': fl, 'm': m, 'kind': kind})
        return out

    def observe(self, case):
        op = {'m': case['m'], 'g': {'odd': case['kind']}, 'k': 1, 'bad': None}
        setup = [{'m': 'add_graph', 'g': 'g1', 'k': 2, 'bad': None}]
        raw = run_engine(case['flavour'], [setup, [op]])
        lines, lock_lines, multi = ir_lines(case['flavour'])
        last = None
        for t, k, x in raw['log']:
            if t == 1 and k == 'L':
                last = lines.get(x, x)
        res = raw['results'][1][0] if raw['results'][1] else {'out': 'none'}
        return {'out': res['out'], 'last_line': last or 0, 'locked': raw['locked_at_end'],
                'lock_errors': raw['lock_errors']}

    def to_coq(self, case, obs):
        return '(%s, "%s"%%string, %s, %s)' % (cbool(case['flavour'] == 'disjoint'), case['m'], cN(obs['last_line']),
                                               cbool(obs['locked']))

    def oracle(self, case, obs):
        if obs['lock_errors']:
            return 'lock error: ' + obs['lock_errors'][0]
        if obs['locked']:
            return ('%s store: %s(graph_id=<%s>) raised %s at line %d while holding the lock and never released it '
                    '(statement outside try/finally)' % (case['flavour'], case['m'], case['kind'], obs['out'], obs['last_line']))
        return None

    def key(self, case, obs):
        return stable_hash(case) if obs['out'] != 'ok' else None

    def histogram(self, cases, obs):
        return {'raised': sum(o['out'] != 'ok' for o in obs), 'lock_left_held': sum(bool(o['locked']) for o in obs)}

    def known_signature(self, case, obs, why):
        return 'attack %s %s %s locked=%s' % (case['flavour'], case['m'], case['kind'], obs['locked'])


def _guard_stream(cls, bad_term):
    """no exception of the implementation, of an observation or of this harness may escape as a traceback: a failing
    step becomes an observation {'harness_error': ..} whose Coq term disagrees by construction, so the run ends with
    a VIOLATION line naming the broken correspondence (no-failing-input-found at worst)"""
    def wrap(name, fallback):
        orig = getattr(cls, name)

        def f(self, *a, **kw):
            try:
                obs = next((x for x in a if isinstance(x, dict) and 'harness_error' in x), None)
                if obs is not None and name != 'observe':
                    return fallback(self, obs)
                if name == 'observe' and a and isinstance(a[0], dict) and 'harness_error_case' in a[0]:
                    return {'harness_error': a[0]['harness_error_case']}     # a generator failed: must not pass silently
                return orig(self, *a, **kw)
            except Exception as e:      # noqa
                import traceback as tb
                msg = '%s.%s: %r | %s' % (cls.__name__, name, e, ' <- '.join(l.strip() for l in tb.format_exc().splitlines()[-6:-1]))[:900]
                log('C20 harness: guarded failure in ' + msg)
                ERRORS.append(msg)
                return fallback(self, {'harness_error': msg})
        setattr(cls, name, f)
    wrap('observe', lambda self, o: o)
    wrap('to_coq', lambda self, o: bad_term)
    wrap('oracle', lambda self, o: None)
    wrap('key', lambda self, o: None)
    wrap('describe', lambda self, o: {'case': 'n/a', 'impl': o})
    wrap('known_signature', lambda self, o: 'harness_error')
    orig_h = cls.histogram

    def hist(self, cases, obs):
        keep = [(c, o) for c, o in zip(cases, obs) if not (isinstance(o, dict) and 'harness_error' in o)]
        try:
            h = orig_h(self, [c for c, _ in keep], [o for _, o in keep])
        except Exception as e:          # noqa
            h = {'histogram_error': repr(e)}
        h['harness_errors'] = len(obs) - len(keep)
        return h
    cls.histogram = hist
    orig_s = cls.shrink

    def shr(self, case, failing):
        try:
            return orig_s(self, case, failing)
        except Exception:               # noqa
            return case
    cls.shrink = shr
    for nm in ('gen', 'corpus'):
        def mk(nm):
            orig_g = getattr(cls, nm)

            def g(self, *a, **kw):
                try:
                    return orig_g(self, *a, **kw)
                except Exception as e:  # noqa
                    import traceback as tb
                    msg = '%s.%s: %r | %s' % (cls.__name__, nm, e, ' <- '.join(l.strip() for l in tb.format_exc().splitlines()[-6:-1]))[:900]
                    log('C20 harness: guarded failure in ' + msg)
                    ERRORS.append(msg)
                    return [{'harness_error_case': msg, 'flavour': 'shared', 'ops': [], 'setup': [], 'threads': [], 'm': 'get_graph', 'kind': 'none'}]
            setattr(cls, nm, g)
        mk(nm)


ERRORS = []
BAD_CCASE = '(false, [], [0]%N, ([(0%N,4242%N)], [], []))'      # the model cannot agree with this observation
BAD_ATTACK = '(false, ""%string, 0%N, true)'


def safe_main(check):
    """a crash of the harness itself is reported as a violation of the correspondence, never as a bare traceback"""
    try:
        return main(check)
    except SystemExit:
        raise
    except BaseException as e:          # noqa
        import traceback as tb
        txt = tb.format_exc()
        log(txt)
        path = write_replay(check.pid, 'violation', {
            'property': check.pid, 'no_longer_checks': 'harness crashed: the correspondence %s could not be evaluated' % check.pid,
            'harness_error': repr(e), 'traceback': txt[-3000:], 'guarded_errors': ERRORS[:5]})
        print('VIOLATION property=%s replay=%s no-failing-input-found' % (check.pid, path))
        return 1


def load_corpus(stream):
    d = os.path.join(VERIF, 'corpus', 'C20')
    out = []
    if os.path.isdir(d):
        for f in sorted(os.listdir(d)):
            if f.startswith(stream + '_') and f.endswith('.json'):
                with open(os.path.join(d, f)) as fh:
                    out.append(json.load(fh))
    return out


# ----------------------------------------------------------------------------------------------

class C20(Check):
    pid = 'C20'
    translators = ['gen_locks']
    model_targets = ['Model/Locks20.vo', 'Gen/Locks.vo', 'Model/Conc20.vo']
    streams = [Seq(), Sched(), Attack()]
    trusted_base = [
        'Coq 8.16.1 kernel (coqc), vm_compute for the correspondence evaluation and for the finite table obligations; no native_compute',
        'Print Assumptions of every C20 theorem: Closed under the global context (no axioms)',
        'translator/gen_locks.py + translator/pyast.py (Python ast -> lock/try/counter IR in Gen/Locks.v), fail-closed; its output is exercised by the correspondence (Coq exec must reproduce every observed line trace)',
        'harness/c20.py + harness/common.py: line-level thread scheduler (sys.settrace, scheduling lock around a real threading.Lock), path finder, interning of graph ids, cases writer',
        'modelled not verified: threading.Lock (non-reentrant, release of a free lock raises, any thread may release), the GIL making one source line of the store atomic w.r.t. the scheduler, networkx add_node/add_nodes_from/remove_nodes_from/clear/convert_node_labels_to_integers as set operations on (id, GraphID), defaultdict autovivification (not modelled: key sets are not observable through node sets)',
    ]
    assumptions = [
        'preemption granularity = one source line of the storage classes (the property\'s quantifier); real CPython can also switch inside a line and inside networkx/networkx_query calls',
        'statements between acquire and release that are outside any try are assumed non-raising (shared: del_graph 786-788/792, del_all_graphs 821; disjoint: extract_graph 154, get_graph 161, del_all_graphs 167) - attacked by stream attack; violated for unhashable graph ids on the disjoint store (known finding)',
        'data theorem: counter updates (start_id = start_id + ..., graph_node_ids[..] = ...), add_edges_from and `return start_id - 1` do not raise; a raising statement has no partial effect',
        'callers use the store only through its methods (NetworkXPropertyGraph also mutates the graph returned by get_graph without the lock: outside this property)',
    ]

    def extra_static(self, ctx):
        """when a method fails a checker, ask Coq for a witness path (reported in the replay via `broken`)"""
        out = []
        try:
            txt = HEADER + ('Eval vm_compute in (map (fun m => (fst m, lock_ok (snd m), find_bad lockA AllFaults 0 (snd m) 12 3, '
                            'data_ok CGlobal (snd m), find_bad (dataA CGlobal) DeclFaults 0 (snd m) 12 3)) shared_methods).\n'
                            'Eval vm_compute in (map (fun m => (fst m, lock_ok (snd m), find_bad lockA AllFaults 0 (snd m) 12 3, '
                            'data_ok CArg (snd m), find_bad (dataA CArg) DeclFaults 0 (snd m) 12 3)) disjoint_methods).\n'
                            'Eval vm_compute in (singleton_ok shared_singleton, singleton_witness shared_singleton, '
                            'singleton_ok disjoint_singleton, singleton_witness disjoint_singleton, 4242).\n'
                            'Eval vm_compute in (map (fun m => (fst m, fnever_lines (snd m))) shared_methods, '
                            'map (fun m => (fst m, fnever_lines (snd m))) disjoint_methods).\n')
            d = os.path.join(common.COQ, 'Cases')
            os.makedirs(d, exist_ok=True)
            name = 'C20_static_%d' % os.getpid()
            with open(os.path.join(d, name + '.v'), 'w') as f:
                f.write(txt)
            p = subprocess.run(['timeout', '300', 'coqc', '-Q', '.', 'FIM', '-w', '-all', 'Cases/%s.v' % name],
                               cwd=common.COQ, stdout=subprocess.PIPE, stderr=subprocess.STDOUT, text=True)
            for ext in ('.v', '.vo', '.vok', '.vos', '.glob'):
                try:
                    os.remove(os.path.join(d, name + ext))
                except OSError:
                    pass
            o = ' '.join(p.stdout.split())
            tup = re.findall(r'\("(\w+)"%string, (true|false), (Some \[[^\]]*\]|None), (true|false), (Some \[[^\]]*\]|None)\)', o)
            nsh = len(ir()['shared']['order']) if ir() else 0
            names = [('shared.' if i < nsh else 'disjoint.') + t[0] for i, t in enumerate(tup)]
            bad = [(n, t[2]) for n, t in zip(names, tup) if t[1] == 'false']
            badd = [{'method': n, 'witness_path': t[4]} for n, t in zip(names, tup) if t[3] == 'false']
            nm = len(tup)
            out.append({'name': 'lock_ok holds for every regenerated method (witness path printed otherwise)',
                        'ok': p.returncode == 0 and not bad and nm >= 2,
                        'detail': {'failing': [{'method': m, 'witness_path': w} for m, w in bad], 'methods': nm}})
            out.append({'name': 'data_ok (counter discipline) holds for every regenerated method',
                        'ok': p.returncode == 0 and not badd and nm >= 2,
                        'detail': {'failing': badd}})
            sg = re.search(r'= \((true|false), (Some \d+|None), (true|false), (Some \d+|None), 4242\)', o)
            out.append({'name': 'singleton guard of both shell classes is an identity test (no __len__/__bool__ on the inner class under `if not X.storage_instance`); witness = size of a store that a new importer would replace',
                        'ok': bool(sg) and sg.group(1) == 'true' and sg.group(3) == 'true',
                        'detail': {'shared': sg.group(1, 2) if sg else None, 'disjoint': sg.group(3, 4) if sg else None}})
            tail = o[o.rfind('= (['):] if '= ([' in o else ''
            assumed = [(m, [int(x) for x in re.findall(r'\d+', ls)]) for m, ls in re.findall(r'\("(\w+)"%string, \[([^\]]*)\]\)', tail)]
            out.append({'name': 'statements outside any try (assumed non-raising; between acquire and release they are the attack targets) listed from the regenerated IR',
                        'ok': p.returncode == 0 and len(assumed) >= 2,
                        'detail': {'fnever_lines (shared methods, then disjoint methods)': [a for a in assumed if a[1]]}})
        except Exception as e:
            out.append({'name': 'static checker evaluation', 'ok': False, 'detail': repr(e)})
        return out


_guard_stream(Seq, BAD_CCASE)
_guard_stream(Sched, BAD_CCASE)
_guard_stream(Attack, BAD_ATTACK)

if __name__ == '__main__':
    sys.exit(safe_main(C20()))

"""C09 - a topology operation that fails leaves the model unchanged.

Per-step tie: histories of REAL API calls (ExperimentTopology / SubstrateTopology on the in-memory backend);
for every tested call the canonical snapshot of the graph is taken before the call and after it returned or
raised.  The Coq model (Model/T9Ops.v) is run on the real pre-state snapshot and must predict the outcome
class and the post-state.  The independent oracle: call raised  =>  snapshot_before == snapshot_after.
"""
import sys, json, copy
from . import common
from .common import *
from . import topo9_gen
from .topo9_impl import observe_case

EXN = {'TopologyException': 'ETopology', 'PropertyGraphQueryException': 'EQuery', 'ValueError': 'EValue',
       'AssertionError': 'EAssert', 'AttributeError': 'EAttr', 'CatalogException': 'ECatalog',
       'RuntimeError': 'ERuntime', 'TypeError': 'EType', 'KeyError': 'EKey'}
CLS = {'NetworkNode': 1, 'Component': 2, 'NetworkService': 3, 'ConnectionPoint': 4, 'Link': 5, 'CompositeNode': 6}
REL = {'has': 1, 'connects': 2}
TYPES = {'Facility': 1, 'SubInterface': 2, 'SharedPort': 3, 'ServicePort': 4, 'DedicatedPort': 5, 'L2PTP': 6,
         'L2Path': 7, 'Patch': 8, 'FacilityPort': 9, 'Switch': 10, 'PortMirror': 11}
_types_dyn = {}


_switch_rb = []


def switch_rollback():
    """does the running library's Topology.add_switch remove the half-built switch when a later step fails
    (proposed_fixes/C09-5.patch)?  Read off its source; the model takes it as a flag."""
    if not _switch_rb:
        import inspect
        from fim.user.topology import Topology
        src = inspect.getsource(Topology.add_switch)
        _switch_rb.append('remove_network_node_with_components_nss_cps_and_links' in src and 'except' in src)
    return _switch_rb[0]


_flags = {}


def source_flag(key, fn, needle):
    """a repair that may or may not be in the running library, read off its source (the model takes it as a flag)"""
    if key not in _flags:
        import inspect
        _flags[key] = needle in inspect.getsource(fn())
    return _flags[key]


def component_precheck():
    from fim.graph.abc_property_graph import ABCPropertyGraph
    return source_flag('comp', lambda: ABCPropertyGraph.add_component_sliver, 'pairwise distinct')


def parent_check():
    from fim.graph.abc_property_graph import ABCPropertyGraph
    return source_flag('pchk', lambda: ABCPropertyGraph.add_interface_sliver, 'get_node_properties(node_id=parent_node_id)')


def connect_rollback():
    from fim.user.network_service import NetworkService
    return source_flag('conn', lambda: NetworkService.connect_interface, 'remove_cp_and_links')


def ctype(t):
    if t in TYPES:
        return TYPES[t]
    if t not in _types_dyn:
        _types_dyn[t] = 100 + len(_types_dyn)
    return _types_dyn[t]


def cexn(name):
    return 'None' if name is None else '(Some %s)' % EXN.get(name, 'EOther')


class Interner:
    def __init__(self):
        self.t = {}

    def __call__(self, s):
        if s not in self.t:
            self.t[s] = len(self.t) + 1
        return self.t[s]


def coq_graph(snap, ids, rests, pre_ids=None):
    ns = []
    for (i, c, n, t, r) in snap['nodes']:
        rest = rests(r) if (pre_ids is None or i in pre_ids) else 0
        ns.append('mkNode %d %d %s %d %d' % (ids(i), CLS.get(c, 50), cstr(n or ''), ctype(t or ''), rest))
    es = ['mkEdge %d %d %d' % (ids(a), ids(b), REL.get(r, 50)) for (a, b, r, _) in snap['edges']]
    return '(mkGraph %s %s)' % (clist(ns), clist(es))


def coq_ifs(l, ids):
    return clist(['mkIface %d %s' % (ids(i), cstr(n)) for i, n in l])


def coq_call(s, info, ids):
    op = s['op']
    if op == 'rename':
        return 'CRename %s %s %s' % (cN(ids(info['id'])), cN(info['kind']), cstr(s['new']))
    if op == 'set_props':
        return 'CSetProps %s %s %s' % (cN(ids(info['id'])), cexn(info['pure']), cN(info['new_rest']))
    if op == 'remove_link':
        return 'CRemoveLink %s' % cstr(s['name'])
    if op == 'unpeer':
        return 'CUnpeer %s %s' % (cN(ids(info['a'])), cN(ids(info['b'])))
    if op == 'port_mirror':
        to = 'None' if info['to'] is None else '(Some (mkIface %d %s))' % (ids(info['to'][0]), cstr(info['to'][1]))
        return 'CPortMirror %s %s %s %s %s' % (cstr(s['name']), copt(s.get('node_id'), lambda x: cN(ids(x))), to,
                                               cbool(s.get('from') is not None), cexn(info['pure']))
    if op == 'connect':
        return 'CConnect %s %s (mkIface %d %s)' % (cbool(connect_rollback()), cN(ids(info['svc'])),
                                                   ids(info['if'][0]), cstr(info['if'][1]))
    if op == 'add_child':
        return 'CAddChild %s %s %s %s %s' % (cN(ids(info['id'])), cstr(s['name']),
                                             copt(s.get('node_id'), lambda x: cN(ids(x))),
                                             cexn(info['label_verdict']), cexn(info['pure']))
    if op == 'peer' and s['b'][0] == 'other_svc':
        return 'CPeerForeign %s %s %s %s %s %s %s' % (cbool(parent_check()), cN(ids(info['a'])), cstr(info['an']),
                                                    clist([cstr(x) for x in info['ca']]), cstr(info['bn']),
                                                    clist([cstr(x) for x in info['cb']]), cexn(info['pure']))
    if op == 'peer':
        return 'CPeer %s %s %s %s %s %s %s %s' % (cbool(parent_check()), cN(ids(info['a'])), cstr(info['an']),
                                                 clist([cstr(x) for x in info['ca']]), cN(ids(info['b'])), cstr(info['bn']),
                                                 clist([cstr(x) for x in info['cb']]), cexn(info['pure']))
    oid = copt(s.get('node_id'), lambda x: cN(ids(x)))
    name = cstr(s['name'])
    if op == 'add_node':
        return 'CAddNode %s %s %s %s' % (name, oid, copt(s.get('ntype'), lambda t: cN(ctype(t))), cexn(info['pure']))
    if op == 'add_service':
        return 'CAddService %s %s %s %s %s' % (name, oid, copt(s.get('nstype'), lambda t: cN(ctype(t))),
                                             coq_ifs(info['ifs'] or [], ids), cexn(info['pure']))
    if op == 'add_node_service':
        return 'CAddNodeService %s %s %s %s %s' % (cN(ids(info['parent'])), name, oid,
                                                  copt(s.get('nstype'), lambda t: cN(ctype(t))), cexn(info['pure']))
    if op == 'add_interface':
        return 'CAddInterface %s %s %s %s %s %s %s' % (cbool(parent_check()), cN(ids(info['svc'])),
                                                      clist([cstr(x) for x in info['cached']]), name, oid,
                                                copt(s.get('itype'), lambda t: cN(ctype(t))), cexn(info['pure']))
    if op == 'add_link':
        ifs = 'None' if info['ifs'] is None else '(Some %s)' % coq_ifs(info['ifs'], ids)
        return 'CAddLink %s %s %s %s %s' % (name, oid, copt(s.get('ltype'), lambda t: cN(ctype(t))), ifs,
                                           cexn(info['pure']))
    if op == 'add_component':
        spec_given = not ((s.get('model') is None or s.get('ctype') is None) and s.get('model_type') is None)
        nic = s.get('ctype') in ('SharedNIC', 'SmartNIC')
        sub_ids = not (s.get('ns_id') is None or s.get('if_ids') is None or s.get('if_labels') is None)
        if info['cat_exc']:
            cat = '(Err %s)' % EXN.get(info['cat_exc'], 'EOther')
        else:
            ch = info['cat']['child']
            if ch is None:
                child = 'None'
            else:
                cifs = clist(['mkChildIf %s %s %s' % (cstr(i['name']), cN(ctype(i['type'])),
                                                     copt(i['id'], lambda x: cN(ids(x)))) for i in ch['ifs']])
                child = '(Some (mkChildNs %s %s %s %s))' % (cstr(ch['ns_name']), cN(ctype(ch['ns_type'])),
                                                          copt(ch['ns_id'], lambda x: cN(ids(x))), cifs)
            cat = '(Ok (mkCompSpec %s %s))' % (cN(ctype(info['cat']['ctype'])), child)
        return 'CAddComponent %s %s %s %s %s %s %s %s %s' % (cbool(component_precheck()), cN(ids(info['parent'])), name, oid, cbool(spec_given),
                                                         cbool(nic), cbool(sub_ids), cat, cexn(info['pure']))
    if op == 'add_facility':
        nid = s.get('node_id')
        d = (lambda suf: cN(ids(nid + suf))) if nid else (lambda suf: cN(0))
        its = s.get('interfaces')
        k = len(its) if its else 0
        dk = clist([d('-int%d' % i) for i in range(k)])
        if its is None:
            ports, single = 'None', cexn(info['pure_ifs'][0])
        elif not its:
            ports, single = '(Some [])', cexn(info['pure_ifs'][0])
        else:
            ports = '(Some %s)' % clist(['mkFacPort %s %s' % (cstr(t[0]), cexn(p)) for t, p in zip(its, info['pure_ifs'])])
            single = 'None'
        return 'CAddFacility %s %s %s %s %s %s %s %s %s' % (name, oid, d('-ns'), d('-int'), dk,
                                                           cN(ctype(s.get('nstype', 'VLAN'))), cexn(info['pure_ns']),
                                                           ports, single)
    if op == 'add_switch':
        nid = s.get('node_id')
        d = (lambda suf: cN(ids(nid + suf))) if nid else (lambda suf: cN(0))
        np_ = s.get('nports', 2)
        dk = clist([d('-int%d' % i) for i in range(1, np_ + 1)])
        return 'CAddSwitch %s %s %s %s %s %s %s %s %s' % (cbool(switch_rollback()), name, oid, d('-ns'), dk, cN(ctype(s.get('nstype', 'P4'))),
                                                     cexn(info['pure_ns']), cnat(np_), cexn(info['pure_port']))
    raise ValueError(op)


def canon_full(snap):
    return json.dumps(snap, sort_keys=True)


def debris(pre, post):
    a = {tuple(x) for x in pre['nodes']}
    b = {tuple(x) for x in post['nodes']}
    ea = {tuple(x) for x in pre['edges']}
    eb = {tuple(x) for x in post['edges']}
    return {'nodes_added': sorted([list(x[:4]) for x in b - a]), 'nodes_removed_or_changed': sorted([list(x[:4]) for x in a - b]),
            'edges_added': sorted([list(x[:3]) for x in eb - ea]), 'edges_removed': sorted([list(x[:3]) for x in ea - eb])}


class Steps(Stream):
    name = 'steps'
    header = ('From Coq Require Import List NArith.\nImport ListNotations.\n'
              'From FIM Require Import Base.Str Model.T9Graph Model.T9Ops Model.T9Check.\nOpen Scope N_scope.\n')
    case_type = 'case'
    check_fn = 'check_case'
    shard = 120
    rule = ('one tested call in a reached topology (real API history incl. earlier failing calls and their debris); '
            'non-trivial = the call raised; distinct by (operation, injected fault, position, exception class, '
            'pre-state size class, flavour)')

    def __init__(self):
        self.cache = {}

    def gen(self, rng, tier):
        cases = topo9_gen.generate(rng, tier, self.cache)
        return cases

    def corpus(self):
        return topo9_gen.corpus()

    def observe(self, case):
        k = json.dumps(case, sort_keys=True)
        if k in self.cache:
            return self.cache.pop(k)
        return observe_case(case)

    def to_coq(self, case, o):
        if o['prep_err']:
            # the call could not even be set up (dangling reference in a shrunk case): vacuous case
            return ('(mkCase Experiment (mkGraph [] []) [] (CAddNode [110;49] None None None) (Some ETopology) '
                    '(mkGraph [] []))')
        ids, rests = Interner(), Interner()
        pre_ids = {n[0] for n in o['pre']['nodes']}
        pre = coq_graph(o['pre'], ids, rests)
        post = coq_graph(o['post'], ids, rests, pre_ids)
        if case['call']['op'] == 'set_props':
            src = o['post'] if o['exc'] is None else o['pre']
            rr = [n[4] for n in src['nodes'] if n[0] == o['info']['id']]
            o['info']['new_rest'] = rests(rr[0]) if rr else 0
        call = coq_call(case['call'], o['info'], ids)
        fresh = clist([cN(ids(x)) for x in o['fresh']])
        return '(mkCase %s %s %s (%s) %s %s)' % ('Experiment' if case['flavour'] == 'exp' else 'Substrate', pre, fresh,
                                              call, cexn(o['exc']), post)

    def oracle(self, case, o):
        if o['prep_err'] or o['exc'] is None:
            return None
        if canon_full(o['pre']) != canon_full(o['post']):
            d = debris(o['pre'], o['post'])
            return 'the call raised %s but the model changed: %s' % (o['exc'], json.dumps(d)[:600])
        if o.get('pre_other') is not None and canon_full(o['pre_other']) != canon_full(o['post_other']):
            d = debris(o['pre_other'], o['post_other'])
            return 'the call raised %s but the OTHER topology (whose handle was passed) changed: %s' % (
                o['exc'], json.dumps(d)[:600])
        return None

    def known_signature(self, case, o, why):
        if not why:
            return ''
        c = case['call']
        d = debris(o['pre'], o['post']) if not o['prep_err'] else {}
        classes = sorted({x[1] for x in d.get('nodes_added', [])})
        return 'op=%s fault=%s exc=%s left=%s' % (c['op'], c.get('fault', 'none'), o['exc'], '+'.join(classes))

    def key(self, case, o):
        if o['prep_err'] or o['exc'] is None:
            return None
        c = case['call']
        n = len(o['pre']['nodes'])
        return (c['op'], c.get('fault', 'none'), c.get('pos', -1), o['exc'], min(n // 8, 4), case['flavour'],
                canon_full(o['pre']) == canon_full(o['post']))

    def histogram(self, cases, obs):
        h = {'ops': {}, 'faults': {}, 'exceptions': {}, 'raised': 0, 'returned': 0, 'raised_and_changed': 0,
             'pre_nodes': {}, 'flavour': {}, 'history_len': {}}
        hyp = {'service_calls': 0, 'ifaces_typed_violated': 0, 'supply_apart_violated': 0,
               'wf_graph': 'evaluated in Coq on every pre- and post-snapshot (a violation would be a disagreement)'}
        h['service_rollback_hypotheses'] = hyp
        for c, o in zip(cases, obs):
            call = c['call']
            if call['op'] in ('add_service', 'port_mirror') and o.get('info'):
                # do the hypotheses of C09_service_rollback hold of the cases the tie actually runs?
                ifs = o['info'].get('ifs') if call['op'] == 'add_service' else ([o['info']['to']] if o['info'].get('to') else [])
                cls = {n[0]: n[1] for n in o['pre']['nodes']}
                hyp['service_calls'] += 1
                if any(i[0] in cls and cls[i[0]] != 'ConnectionPoint' for i in (ifs or [])):
                    hyp['ifaces_typed_violated'] += 1
                pot = set(o['fresh']) | ({call['node_id']} if call.get('node_id') else set())
                if any(i[0] in pot for i in (ifs or [])):
                    hyp['supply_apart_violated'] += 1
            h['ops'][call['op']] = h['ops'].get(call['op'], 0) + 1
            fk = '%s/%s' % (call['op'], call.get('fault', 'none'))
            h['faults'][fk] = h['faults'].get(fk, 0) + 1
            h['exceptions'][str(o['exc'])] = h['exceptions'].get(str(o['exc']), 0) + 1
            h['raised' if o['exc'] else 'returned'] += 1
            if o['exc'] and canon_full(o['pre']) != canon_full(o['post']):
                h['raised_and_changed'] += 1
            b = '%d-%d' % (len(o['pre']['nodes']) // 8 * 8, len(o['pre']['nodes']) // 8 * 8 + 7)
            h['pre_nodes'][b] = h['pre_nodes'].get(b, 0) + 1
            h['flavour'][c['flavour']] = h['flavour'].get(c['flavour'], 0) + 1
            hl = str(len(c['build']))
            h['history_len'][hl] = h['history_len'].get(hl, 0) + 1
        return h

    def describe(self, case, o):
        return {'case': {'flavour': case['flavour'], 'history': len(case['build']), 'call': case['call']},
                'impl': {'exception': o['exc'], 'pre_nodes': len(o['pre']['nodes']), 'post_nodes': len(o['post']['nodes']),
                         'unchanged': canon_full(o['pre']) == canon_full(o['post'])}}

    def shrink(self, case, failing):
        """drop build steps one at a time (from the end) while the case keeps failing"""
        case = copy.deepcopy(case)
        i = len(case['build']) - 1
        while i >= 0:
            trial = copy.deepcopy(case)
            del trial['build'][i]
            try:
                if failing(trial):
                    case = trial
            except Exception:
                pass
            i -= 1
        return case


class C09(Check):
    pid = 'C09'
    translators = ['gen_t9names']
    model_targets = ['Model/T9Check.vo']
    streams = [Steps()]
    trusted_base = [
        'Coq 8.16.1 kernel (coqc), vm_compute for the correspondence evaluation; no native_compute',
        'Print Assumptions of every C09 theorem: Closed under the global context (no axioms)',
        'translator/gen_t9names.py (NAME_REGEX of the five sliver classes -> Gen/T9Names.v, fail-closed)',
        'harness/c09.py + harness/topo9_impl.py + harness/topo9_gen.py + harness/common.py (history generation, snapshots, '
        'interning of ids/classes/types to N, cases writer)',
        'INPUT of the model, not modelled: the verdict of the pure sliver construction for non-name arguments '
        '(set_type/set_site/set_properties(kwargs), ComponentCatalog.generate_component) computed by building the '
        'sliver alone; the model fixes where in the order of checks and mutations that verdict is raised',
        'modelled not verified: networkx Graph add_node/add_edge/remove_node/neighbors, networkx_query search_nodes '
        '(= filters over the node list), Python set iteration order (never relied on: results compared as sets), '
        'construction of EXISTING-element handles inside the calls (read-only), uuid.uuid4 (replaced by a counter)',
    ]
    assumptions = [
        'snapshots are well-formed (distinct node ids, edges join nodes of the graph, one edge per pair): checked in Coq on every case',
        'interface/service/node handles passed to a call were obtained from the topology views just before the call, '
        'or are stale handles of removed elements (handle caches are C07/C08 material)',
        'names are ASCII',
    ]

    def refuted_witnesses(self):
        return topo9_gen.refuted_witnesses()


if __name__ == '__main__':
    sys.exit(main(C09()))

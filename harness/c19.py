"""C19 - persistent-backend (Neo4j) statements are well-formed and data-independent.

The real backend classes (Neo4jPropertyGraph / Neo4jGraphImporter / Neo4jCBMGraph / Neo4jASM / ...) are run with
a stand-in driver that records (statement text, parameter dict) and - from the frame of the calling method - the
values of the python expressions the translator found interpolated into the statement.  Coq then checks, per
recorded statement, that  render(gen_template, env) = recorded text,  that the keyword set is the template's, and
that the model's well-formedness scanner agrees with the independent checker below.  The property oracle (python
only, independent of the Coq model) says: the same operation with the same identifiers but different stored
values sends the same text, the text is well-formed, names only supplied parameters, contains none of the stored
values, and every stored value arrives intact among the parameters.
"""
import sys, os, re, json, inspect, logging, tempfile, copy
from . import common
from .common import *

sys.path.insert(0, os.path.join(VERIF, 'translator'))

PID = 'C19'

# ------------------------------------------------------------------------------------------------
# independent well-formedness checker (token based; the Coq model is a one-pass character automaton)
# ------------------------------------------------------------------------------------------------

TOKEN_RE = re.compile(r'''
   (?P<ws>[ \t\n\r]+)
  |(?P<sq>'(?:\\.|[^'\\])*')
  |(?P<dq>"(?:\\.|[^"\\])*")
  |(?P<bt>`[^`]*`[A-Za-z0-9_]*)
  |(?P<param>\$[A-Za-z0-9_]+)
  |(?P<id>[A-Za-z_][A-Za-z0-9_]*)
  |(?P<num>[0-9][A-Za-z0-9_]*)
  |(?P<p>.)
''', re.X | re.S)

KEYWORDS = set('''match optional return with where and or xor not in is null as set remove delete detach call yield
unwind union distinct create index if exists for on all any none single true false merge order by limit skip desc
asc case when then else end starts ends contains'''.split())

CLOSER = {')': '(', ']': '[', '}': '{'}


def py_check(text):
    """-> dict(struct=bool, why=str|None, params=[..], uses=[..], binds=[..]) ; lists are sorted sets"""
    stack = []
    pv = 'other'       # other label dot keyopen keycomma afterkey patopen brack kwas kwmatch kwindex comma
    pend = None        # (name, ctx)   ctx: bind | use | useeq
    yld = False
    params, uses, binds = set(), set(), set()

    def bad(why):
        return {'struct': False, 'why': why, 'params': [], 'uses': [], 'binds': []}

    def resolve():
        nonlocal pend
        if pend is not None:
            (binds if pend[1] == 'bind' else uses).add(pend[0])
            pend = None

    for m in TOKEN_RE.finditer(text):
        kind = m.lastgroup
        t = m.group()
        if kind == 'ws':
            continue
        keyctx = pv in ('keyopen', 'keycomma', 'afterkey')
        if kind in ('id', 'bt'):
            if pv in ('label', 'dot', 'keyopen', 'keycomma'):
                pv = 'afterkey' if pv in ('keyopen', 'keycomma') else 'other'
                continue                       # text irrelevant; a pending chain head stays pending
            if pv == 'afterkey':
                return bad('two words where "key:" is expected')
            resolve()
            if kind == 'bt':
                pv = 'other'
                continue
            lw = t.lower()
            if lw in KEYWORDS:
                yld = True if lw == 'yield' else (yld if lw == 'as' else False)
                pv = {'as': 'kwas', 'match': 'kwmatch', 'index': 'kwindex'}.get(lw, 'other')
                continue
            if pv == 'kwindex':
                pv = 'other'
                continue
            if pv in ('patopen', 'brack', 'kwas', 'kwmatch') or yld:
                ctx = 'bind'
            elif pv == 'comma':
                ctx = 'useeq'
            else:
                ctx = 'use'
            pend = (t, ctx)
            pv = 'other'
            continue
        if kind == 'p' and t in ('}', ':'):
            pass
        elif keyctx:
            return bad('malformed map: %r where a key, ":" or "}" is expected' % t)
        if kind == 'num' or kind == 'sq' or kind == 'dq':
            resolve()
            pv = 'other'
        elif kind == 'param':
            resolve()
            params.add(t[1:])
            pv = 'other'
        elif t == '(':
            if pend is not None:
                pend = None
                pv = 'other'
            else:
                pv = 'patopen'
            stack.append('(')
        elif t in CLOSER:
            if t == '}' and pv in ('afterkey', 'keycomma'):
                return bad('unexpanded template residue "{name}"' if pv == 'afterkey' else 'trailing comma in map')
            resolve()
            if not stack or stack[-1] != CLOSER[t]:
                return bad('unbalanced %r' % t)
            stack.pop()
            pv = 'other'
        elif t == '[':
            resolve()
            stack.append('[')
            pv = 'brack'
        elif t == '{':
            resolve()
            stack.append('{')
            pv = 'keyopen'
        elif t == ':':
            if pv == 'afterkey':
                pv = 'other'
            elif pv in ('keyopen', 'keycomma'):
                return bad('":" without a key')
            else:
                resolve()
                pv = 'other' if (stack and stack[-1] == '{') else 'label'
        elif t == ',':
            resolve()
            pv = 'keycomma' if (stack and stack[-1] == '{') else 'comma'
        elif t == '.':
            if pend is not None and pend[1] == 'useeq':
                pend = (pend[0], 'use')
            pv = 'dot'
        elif t == '=':
            if pend is not None and pend[1] == 'useeq':
                binds.add(pend[0])
                pend = None
            else:
                resolve()
            pv = 'other'
        elif t in ("'", '"', '`', '$'):
            return bad('unterminated quote or bare "$"')
        else:
            resolve()
            pv = 'other'
    resolve()
    if stack:
        return bad('unclosed %r' % stack[-1])
    return {'struct': True, 'why': None, 'params': sorted(params), 'uses': sorted(uses), 'binds': sorted(binds)}


def py_unescape(content):
    """what a Cypher lexer makes of the inside of a quoted literal (only \\x -> x matters here)"""
    return re.sub(r'\\(.)', r'\1', content, flags=re.S)


def py_literals(text):
    """[(start, end, unescaped content)] of the string literals of a statement"""
    return [(m.start(), m.end(), py_unescape(m.group()[1:-1])) for m in TOKEN_RE.finditer(text)
            if m.lastgroup in ('sq', 'dq')]


def py_shape(text):
    """the token sequence with every string literal abstracted: two statements with the same shape differ inside
    string literals only"""
    return [('STR',) if m.lastgroup in ('sq', 'dq') else (m.lastgroup, m.group())
            for m in TOKEN_RE.finditer(text) if m.lastgroup != 'ws']


STMT_HEAD_RE = re.compile(r'\s*(match|optional|call|with|create|merge|unwind|return)\b', re.I)


def value_only_in_literals(text, mk, v, depth=0):
    """the stored value v (recognised by its marker mk) occurs in `text` only inside string literals, and each of
    those literals - read the way the lexer reads it - contains v verbatim, or is itself a statement (a nested
    statement handed to a procedure) for which the same holds.  None if so, else what is wrong."""
    lits = py_literals(text)
    rest, pos = '', 0
    for a, b, _ in lits:
        rest += text[pos:a] + ' '
        pos = b
    rest += text[pos:]
    if mk in rest:
        return 'outside any string literal'
    for a, b, u in lits:
        if mk not in text[a:b]:
            continue
        if STMT_HEAD_RE.match(u.replace(v, '\x00')):      # (a value that merely looks like a statement does not count)
            # the literal is itself a statement (run by a procedure after one un-escaping): the value has to be
            # safe inside THAT statement, and the statement well-formed on its own (it gets no parameters)
            if depth < 3 and value_only_in_literals(u, mk, v, depth + 1) is None and py_wf(u, []) is None:
                continue
            return 'inside a literal that is itself a statement, where it is not safely quoted (%s)' % (
                py_wf(u, []) or 'the inner literal does not read back the value')
        if v in u:
            continue
        return 'inside a string literal but not escaped so that the literal reads back the value'
    return None


def arrives_in_literal(text, v, depth=0):
    """v is read back verbatim from some string literal of the statement (or of a statement nested in one)"""
    for _, _, u in py_literals(text):
        if STMT_HEAD_RE.match(u.replace(v, '\x00')):
            if depth < 3 and arrives_in_literal(u, v, depth + 1):
                return True
        elif v in u:
            return True
    return False


def py_wf(text, kws):
    """None if well-formed, else the reason"""
    r = py_check(text)
    if not r['struct']:
        return r['why']
    missing = [p for p in r['params'] if p not in kws]
    if missing:
        return 'parameter(s) $%s referenced but not supplied' % ', $'.join(missing)
    unbound = [u for u in r['uses'] if u not in r['binds']]
    if unbound:
        return 'variable(s) %s used but never bound' % ', '.join(unbound)
    return None


# ------------------------------------------------------------------------------------------------
# stand-in driver
# ------------------------------------------------------------------------------------------------

class AnyDict(dict):
    def __missing__(self, k):
        rec = Recorder.current
        if k == 'labels(n)':
            return ['GraphNode', rec.fake_label]
        if k in ('properties(n)', 'properties(r)'):
            return dict(rec.node_props)
        if k == 'type(r)':
            return 'connects'
        return [] if rec.empty else ['n1', 'n2']

    def __len__(self):
        return 1


class FakeRecord:
    def data(self):
        return AnyDict()

    def value(self):
        return [] if Recorder.current.empty else ['S1', 'S2']

    def values(self):
        return [] if Recorder.current.empty else [['n1', 'n2']]

    def get(self, k, default=None):
        return '<graphml/>'

    def __getitem__(self, k):
        return [] if Recorder.current.empty else ['n1', 'n2']


class FakeResult:
    """the stand-in's answer: a non-empty result by default, an empty one when the case asks for it, so that both
    the `found` and the `not found` continuation of every operation are walked"""

    def single(self):
        return None if Recorder.current.empty else FakeRecord()

    def peek(self):
        return None if Recorder.current.empty else FakeRecord()

    def value(self):
        return [] if Recorder.current.empty else ['S1', 'S2']

    def values(self):
        return [] if Recorder.current.empty else [['n1', 'n2']]

    def data(self):
        return [AnyDict()]

    def __iter__(self):
        return iter([] if Recorder.current.empty else [FakeRecord()])


class Recorder:
    """what the stand-in driver saw during one operation"""
    current = None

    def __init__(self, templates):
        self.templates = templates
        self.stmts = []
        self.site_calls = {}
        self.node_props = {}
        self.fake_label = 'NetworkNode'
        self.empty = False


class FakeSession:
    def __enter__(self):
        return self

    def __exit__(self, *a):
        return False

    def close(self):
        pass

    def run(self, *args, **kw):
        rec = Recorder.current
        f = sys._getframe(1)
        text = args[0] if args else None
        # the driver's signature is run(query, parameters=None, **kwargs): both ways of passing parameters count
        params = {}
        if len(args) > 1 and isinstance(args[1], dict):
            params.update(args[1])
        if isinstance(kw.get('parameters'), dict):
            params.update(kw['parameters'])
        params.update({k: v for k, v in kw.items() if k != 'parameters' or not isinstance(v, dict)})
        ent = {'text': text if isinstance(text, str) else repr(text), 'kws': sorted(params.keys()), 'tid': None,
               'env': None, 'op': getattr(f.f_code, 'co_qualname', f.f_code.co_name), 'params': params,
               'positional': len(args)}
        cands = [t for t in rec.templates if t['op'] == ent['op'] and t['line'] <= f.f_lineno <= t['end_line']
                 and t.get('nested_of') is None]
        if cands:
            k = rec.site_calls.get((ent['op'], cands[0]['site']), 0)
            rec.site_calls[(ent['op'], cands[0]['site'])] = k + 1
            chosen = None
            if cands[0]['data_index'] is not None:
                ch = [t for t in cands if t['data_index'] == k]
                chosen = ch[0] if ch else None
            elif len(cands) == 1:
                chosen = cands[0]
            else:
                for t in cands:
                    try:
                        if all(bool(eval(s, f.f_globals, f.f_locals)) == v for s, v in t['conds']):
                            chosen = t
                            break
                    except Exception:
                        continue
            if chosen is not None:
                try:
                    ent['env'] = [format(eval(h, f.f_globals, f.f_locals), '') for h in chosen['holes']]
                    ent['tid'] = chosen['id']
                except Exception as e:
                    ent['env_error'] = repr(e)
        rec.stmts.append(ent)
        # statements pasted (escaped) into a literal of this one - e.g. the inner statement of the APOC export -
        # are statements too: recorded with the text the code built for them, no parameters
        if ent['tid'] is not None:
            for nt in rec.templates:
                if nt.get('nested_of') != ent['tid']:
                    continue
                sub = {'text': None, 'kws': [], 'tid': None, 'env': None, 'op': ent['op'], 'params': {}, 'positional': 1,
                       'nested_in': len(rec.stmts) - 1}
                try:
                    sub['text'] = format(eval(nt['arg_src'], f.f_globals, f.f_locals), '')
                    sub['env'] = [format(eval(h, f.f_globals, f.f_locals), '') for h in nt['holes']]
                    sub['tid'] = nt['id']
                except Exception as e:
                    sub['text'] = sub['text'] or ''
                    sub['env_error'] = repr(e)
                rec.stmts.append(sub)
        if len(rec.stmts) > MAX_STATEMENTS:
            raise RuntimeError('stand-in driver: statement budget exhausted')
        return FakeResult()


class FakeDriver:
    def session(self, **kw):
        return FakeSession()

    def close(self):
        pass

    def verify_connectivity(self):
        pass


_LOG = logging.getLogger('c19-standin')


def mk_importer():
    from fim.graph.neo4j_property_graph import Neo4jGraphImporter
    imp = object.__new__(Neo4jGraphImporter)
    imp.driver = FakeDriver()
    imp.log = _LOG
    imp.url = imp.user = imp.pswd = None
    imp.import_host_dir = tempfile.gettempdir()
    imp.import_dir = tempfile.gettempdir()
    return imp


# ------------------------------------------------------------------------------------------------
# translator output (python side) and the catalogue of operations
# ------------------------------------------------------------------------------------------------

_AN = {}


def analysis():
    if 'a' not in _AN:
        import gen_cypher
        try:
            _AN['a'] = gen_cypher.analyse(REPO)
            _AN['err'] = None
        except Exception as e:
            _AN['a'] = {'templates': [], 'consts': []}
            _AN['err'] = repr(e)
        _AN['ident_params'] = gen_cypher.IDENT_PARAMS
    return _AN['a']


def ident_params():
    analysis()
    return _AN['ident_params']


CLASS_MODULES = {
    'Neo4jPropertyGraph': 'fim.graph.neo4j_property_graph',
    'Neo4jGraphImporter': 'fim.graph.neo4j_property_graph',
    'Neo4jCBMGraph': 'fim.graph.resources.neo4j_cbm',
    'Neo4jASM': 'fim.graph.slices.neo4j_asm',
    'Neo4jADMGraph': 'fim.graph.resources.neo4j_adm',
    'Neo4jARMGraph': 'fim.graph.resources.neo4j_arm',
}
# classes an operation defined on Neo4jPropertyGraph is also run through (same code, other receivers)
SUBCLASSES = ['Neo4jPropertyGraph', 'Neo4jCBMGraph', 'Neo4jASM', 'Neo4jADMGraph']

ADV_PIECES = ["'", '"', '\\', '{', '}', '{{', '}}', '$', '$graphId', '\n', '\t', ' ', '`', ')', '(', ']', '[', ':',
              ',', ';', '//', '/*', '--', ' RETURN ', ' DETACH DELETE n ', ' OR 1=1 ', "' OR '1'='1", '\\\'',
              '\\"', '{name}', '{kind}', 'é', '中', '\U0001f600', '\x00', 'null', 'true', '.', '=', '*', '|']
BENIGN = 'abcdefghijklmnopqrstuvwxyzABCDEFGHIJKLMNOPQRSTUVWXYZ0123456789'


def marker(rng):
    return 'Q' + ''.join(rng.choice('0123456789bcdfghjkmnpqrstvwxz') for _ in range(7))


def adv_string(rng, benign=False):
    """a stored value: a unique marker (so that its presence in a text can be decided) plus adversarial pieces"""
    mk = marker(rng)
    if benign:
        return mk + ''.join(rng.choice(BENIGN) for _ in range(rng.randrange(0, 6)))
    n = rng.randrange(1, 5)
    parts = [rng.choice(ADV_PIECES) for _ in range(n)]
    if not any(c in p for p in parts for c in '\'"\\') and rng.random() < 0.8:
        parts.append(rng.choice(["'", '"', '\\']))      # what tells a pasted value from an escaped one
    pos = rng.randrange(0, n + 1)
    parts.insert(pos, mk)
    return ''.join(parts)


def gen_ident(rng, consts):
    r = rng.random()
    if r < 0.6 and consts:
        return rng.choice(consts)
    first = 'abcdefghijklmnopqrstuvwxyzABCDEFGHIJKLMNOPQRSTUVWXYZ_'
    s = rng.choice(first) + ''.join(rng.choice(first + '0123456789') for _ in range(rng.randrange(0, 9)))
    if r > 0.93:
        s = rng.choice(['RETURN', 'match', 'Delete', 'n', 'r', 'x', '_', 'properties', 'apoc'])   # still identifiers
    return s


def class_of(cname):
    import importlib
    if cname in CLASS_MODULES:
        return getattr(importlib.import_module(CLASS_MODULES[cname]), cname)
    for t in analysis()['templates']:            # a backend class the harness has never heard of
        if t['op'].split('.')[0] == cname:
            return getattr(importlib.import_module(t['file'][:-3].replace('/', '.')), cname)
    raise KeyError(cname)


def method_of(op):
    cname, meth = op.split('.', 1)
    cls = class_of(cname)
    return cls, getattr(cls, meth)


MARK_RE = re.compile(r'Q[0-9bcdfghjkmnpqrstvwxz]{7}')
FALSY_STR = ['']
FALSY_ANY = ['', 0, 0.0, False]      # what `if v` drops although `v is not None`


def arg_spec(op, rng, consts, variant_hint, benign, falsy=False):
    """JSON-able description of one invocation: identifier arguments, the *shape* of the data arguments, and two
    assignments of stored values to that shape.  falsy: the first assignment is benign, the second is the same
    shape with some stored values replaced by edge values ('' everywhere, also 0 / 0.0 / False for prop_val) -
    a statement / parameter set that depends on the *truthiness* of a stored value shows up as a difference."""
    cls, fn = method_of(op)
    sig = inspect.signature(fn)
    idents, shape = {}, {}
    for name, p in sig.parameters.items():
        if name == 'self':
            continue
        if name in ident_params():
            if p.default is None and variant_hint % 2 == 1:
                idents[name] = None           # e.g. get_nodes_on_shortest_path(rel=None)
            else:
                idents[name] = gen_ident(rng, consts)
        elif name == 'props':
            if p.default is None and variant_hint % 3 == 2:
                shape[name] = None
            else:
                keys = []
                for _ in range(rng.randrange(0 if p.default is None else 1, 4)):
                    k = gen_ident(rng, [c for c in consts if c[0].isupper() and c not in RESERVED_KEYS])
                    if k not in keys:
                        keys.append(k)
                # the keys the backend itself fills in (and lets the caller override): systematically present
                if variant_hint % 4 == 1:
                    keys = [k for k in keys if k != 'Class']
                    keys.insert(rng.randrange(len(keys) + 1), 'Class')
                elif variant_hint % 4 == 2:
                    for k in rng.sample(RESERVED_KEYS, rng.randrange(1, len(RESERVED_KEYS) + 1)):
                        if k not in keys:
                            keys.insert(rng.randrange(len(keys) + 1), k)
                shape[name] = {'dict': keys}
        elif name == 'other_graph':
            # the other graph may live in this store (Neo4j, stand-in driver) or be a graph of another backend:
            # in-memory NetworkX (shared store / disjoint store), empty or holding nodes whose ids are stored values
            kinds = ['neo4j', 'neo4j', ('nx', 1), ('nx', 3), ('nxd', 2), 'neo4j', ('nx', 0), ('nxd', 1), ('nx', 2)]
            kd = kinds[variant_hint % len(kinds)]
            shape[name] = {'graph': 1} if kd == 'neo4j' else {'graph': 1, 'backend': kd[0], 'nodes': kd[1]}
        elif name == 'comps':
            if variant_hint % 2 == 0:
                shape[name] = None
            else:
                types = ['GPU', 'SmartNIC', 'SharedNIC', 'FPGA', 'NVME', 'Storage']
                shape[name] = {'comps': [[rng.choice(types), rng.random() < 0.85] for _ in range(rng.randrange(1, 4))]}
        elif name == 'merge_properties':
            # every shape of a policy map: absent, empty, a lone catch-all (bare / back-ticked), one ordinary key,
            # caller-chosen keys, catch-all plus another, several.  A fixed key is part of the shape (the same in both
            # value assignments), None is a caller-chosen (adversarial) key; the values are always stored values.
            shapes = [None, [], ['.*'], ['`.*`'], ['Name'], [None, None], ['.*', 'Name'], ['Name', 'Site', None],
                      ['`addr.*`'], [None]]
            ks = shapes[variant_hint % len(shapes)]
            shape[name] = None if ks is None else {'policy': len(ks), 'keys': ks}
        elif name == 'hops':
            shape[name] = {'list': rng.randrange(0, 3)}
        elif name == 'cut_off':
            shape[name] = {'int': rng.randrange(1, 200)}
        elif name == 'format':
            shape[name] = {'default': 1}
        elif name == 'rules_file':
            shape[name] = {'rules_file': 1}
        elif name == 'prop_val' and rng.random() < 0.2:
            shape[name] = {'intval': 1}
        elif p.kind in (p.VAR_KEYWORD, p.VAR_POSITIONAL):
            continue
        elif isinstance(p.default, bool):
            continue
        elif name == 'sliver':
            shape[name] = {'node_sliver': 1}
        elif p.default is None and variant_hint % 3 == 1:
            shape[name] = None            # an optional argument left out is part of the shape, not a stored value
        else:
            shape[name] = {'str': 1}
    if falsy:
        vals = [fill(shape, rng, True), falsify(fill(shape, rng, True), shape, rng, op)]
    else:
        vals = [fill(shape, rng, benign), fill(shape, rng, benign)]
    return idents, shape, vals


def falsify(vals, shape, rng, op):
    """replace a non-empty random subset of the stored values of one assignment by falsy edge values"""
    slots = [] if op.startswith('Neo4jGraphImporter.') else [('__gid__', None)]
    for name, sh in shape.items():
        if sh is None or vals.get(name) is None:
            continue
        if 'str' in sh or 'intval' in sh or 'graph' in sh:
            slots.append((name, None))
        elif 'dict' in sh or 'list' in sh:
            slots += [(name, i) for i in range(len(vals[name]))]
    if not slots:
        return vals
    chosen = [sl for sl in slots if rng.random() < 0.5] or [rng.choice(slots)]
    # the single-property update value is the slot most likely to be tested for truth: never leave it out
    chosen += [sl for sl in slots if sl[0] == 'prop_val' and sl not in chosen]
    for name, i in chosen:
        pool = FALSY_ANY if name == 'prop_val' else FALSY_STR
        f = rng.choice(pool)
        if i is None and isinstance(vals.get(name), dict):
            vals[name]['gid'] = f
        elif i is None:
            vals[name] = f
        elif 'dict' in shape[name]:
            vals[name][i][1] = f
        else:
            vals[name][i] = f
    vals['__falsy__'] = sorted({n for n, _ in chosen})
    return vals


def fill(shape, rng, benign):
    out = {'__gid__': adv_string(rng, benign)}
    for name, sh in shape.items():
        if sh is None:
            out[name] = None
        elif 'dict' in sh:
            out[name] = [[k, adv_string(rng, benign)] for k in sh['dict']]
        elif 'graph' in sh and sh.get('backend'):
            out[name] = {'gid': adv_string(rng, benign), 'nodes': [adv_string(rng, benign) for _ in range(sh['nodes'])]}
        elif 'graph' in sh:
            out[name] = adv_string(rng, benign)
        elif 'comps' in sh:
            out[name] = [[t, adv_string(rng, benign) if has_model else None, adv_string(rng, True)]
                         for t, has_model in sh['comps']]
        elif 'policy' in sh:
            ks = sh.get('keys') or [None] * sh['policy']
            out[name] = [[k if k is not None else adv_string(rng, benign), adv_string(rng, benign)] for k in ks]
        elif 'list' in sh:
            out[name] = [adv_string(rng, benign) for _ in range(sh['list'])]
        elif 'int' in sh:
            out[name] = sh['int']
        elif 'intval' in sh:
            out[name] = rng.randrange(-5, 10 ** 6)
        elif 'default' in sh or 'rules_file' in sh:
            out[name] = None
        elif 'node_sliver' in sh:
            out[name] = [adv_string(rng, benign) for _ in range(4)]
        else:
            out[name] = adv_string(rng, benign)
    return out


def stored_strings(shape, vals, op=''):
    """(argument name, value) of every caller-stored string of one assignment"""
    out = [] if op.startswith('Neo4jGraphImporter.') else [('graph_id', vals['__gid__'])]
    for name, sh in shape.items():
        v = vals.get(name)
        if sh is None or v is None:
            continue
        if 'dict' in sh:
            out += [(name, x[1]) for x in v]
        elif 'graph' in sh and isinstance(v, dict):
            out.append((name, v['gid']))
            out += [(name + ' (node id)', x) for x in v['nodes']]
        elif 'graph' in sh:
            out.append((name, v))
        elif 'comps' in sh:
            out += [(name, x[1]) for x in v if x[1] is not None]
        elif 'policy' in sh:
            out += [(name + ' (key)', x[0]) for x in v] + [(name, x[1]) for x in v]
        elif 'list' in sh or 'node_sliver' in sh:
            out += [(name, x) for x in v]
        elif 'str' in sh:
            out.append((name, v))
    # edge values ('' / 0 / False ...) carry no marker: they are judged by the comparison of the two assignments
    return [(n, v) for n, v in out if isinstance(v, str) and MARK_RE.search(v)]


_PREP = {}


def prepare_backends():
    """Import order matters in this library: ABCASMPropertyGraph.__subclasshook__ (inherited by Neo4jASM) answers
    True for every class that has get_all_network_nodes, so as soon as fim.graph.slices.neo4j_asm is imported
    `isinstance(<any property graph>, Neo4jPropertyGraph)` becomes True - unless the (negative) answer was cached
    before.  A process that never imports the ASM module sees False.  To walk the code paths of BOTH kinds of process
    the harness asks the question for the in-memory graph classes before it imports the ASM module; every
    observation records what isinstance answers at that moment (`nx_is_neo4j`)."""
    if _PREP:
        return _PREP
    import importlib
    m = importlib.import_module('fim.graph.neo4j_property_graph')
    for mod in ('fim.graph.resources.neo4j_cbm', 'fim.graph.resources.neo4j_adm', 'fim.graph.resources.neo4j_arm',
                'fim.graph.networkx_property_graph', 'fim.graph.networkx_property_graph_disjoint',
                'fim.slivers.attached_components', 'fim.slivers.network_node'):
        try:
            importlib.import_module(mod)
        except Exception:
            pass
    try:
        from fim.graph.networkx_property_graph import NetworkXPropertyGraph
        from fim.graph.networkx_property_graph_disjoint import NetworkXPropertyGraphDisjoint
        _PREP['classes'] = (NetworkXPropertyGraph, NetworkXPropertyGraphDisjoint)
        _PREP['asm_imported_first'] = 'fim.graph.slices.neo4j_asm' in sys.modules
        _PREP['primed'] = [issubclass(c, m.Neo4jPropertyGraph) for c in _PREP['classes']]
    except Exception as e:
        _PREP['error'] = repr(e)
    _PREP['done'] = True
    return _PREP


def nx_is_neo4j():
    try:
        import fim.graph.neo4j_property_graph as m
        return any(issubclass(c, m.Neo4jPropertyGraph) for c in prepare_backends().get('classes', ()))
    except Exception:
        return None


def other_backend_graph(backend, v):
    """a real in-memory property graph (NetworkX, shared or disjoint store) holding the given node ids"""
    if backend == 'nxd':
        from fim.graph.networkx_property_graph_disjoint import NetworkXGraphImporterDisjoint as Imp, \
            NetworkXPropertyGraphDisjoint as G
    else:
        from fim.graph.networkx_property_graph import NetworkXGraphImporter as Imp, NetworkXPropertyGraph as G
    imp = Imp(logger=_LOG)
    g = G(graph_id=v['gid'], importer=imp, logger=_LOG)
    for i, nid in enumerate(v['nodes']):
        g.add_node(node_id=nid, label='NetworkNode', props={'Name': 'n%d' % i, 'Type': 'Server'})
    CREATED.append(imp)
    return g


CREATED = []      # importers of in-memory graphs built for the current call (their stores are emptied afterwards)


def build_args(op, receiver_cls, idents, shape, vals):
    """-> (receiver object, kwargs) for the real method"""
    import importlib
    from fim.graph.neo4j_property_graph import Neo4jPropertyGraph, Neo4jGraphImporter
    imp = mk_importer()
    cls, fn = method_of(op)
    if cls is Neo4jGraphImporter:
        recv = imp
    else:
        rc = class_of(receiver_cls)
        recv = rc(graph_id=vals['__gid__'], importer=imp, logger=_LOG)
    kw = dict(idents)
    for name, sh in shape.items():
        v = vals.get(name)
        if sh is None:
            kw[name] = None
        elif 'dict' in sh:
            kw[name] = {k: x for k, x in v}
        elif 'graph' in sh and isinstance(v, dict):
            kw[name] = other_backend_graph(sh['backend'], v)
        elif 'graph' in sh:
            kw[name] = Neo4jPropertyGraph(graph_id=v, importer=imp, logger=_LOG)
        elif 'comps' in sh:
            from fim.slivers.attached_components import AttachedComponentsInfo, ComponentSliver, ComponentType
            aci = AttachedComponentsInfo()
            for t, model, nm in v:
                cs = ComponentSliver()
                cs.resource_name = nm
                cs.resource_type = ComponentType[t]
                cs.resource_model = model
                aci.add_device(cs)
            kw[name] = aci
        elif 'policy' in sh:
            kw[name] = {k: x for k, x in v}
        elif 'default' in sh:
            continue
        elif 'node_sliver' in sh:
            from fim.slivers.network_node import NodeSliver, NodeType
            ns = NodeSliver()
            ns.node_id, ns.resource_name, ns.site, ns.details = v
            ns.resource_type = NodeType.Server
            kw[name] = ns
        elif 'rules_file' in sh:
            import fim.graph.neo4j_property_graph as m
            kw[name] = os.path.join(os.path.dirname(m.__file__), 'data', 'graph_validation_rules.json')
        else:
            kw[name] = v
    return recv, fn, kw


def run_once(templates, op, receiver_cls, idents, shape, vals, fake=None):
    prepare_backends()
    from fim.graph.neo4j_property_graph import Neo4jGraphImporter
    rec = Recorder(templates)
    fake = fake or {}
    rec.fake_label = fake.get('label', 'NetworkNode')
    rec.empty = bool(fake.get('empty'))
    # what the stand-in database "contains": node properties that mention the stored values of this call, so
    # that e.g. unmerge_adm finds the graph id it is asked to remove
    ids = [v for _, v in stored_strings(shape, vals, op)][:6]
    rec.node_props = {'Name': 'x', 'Type': 'Server', 'Class': rec.fake_label,
                      'StructuralInfo': json.dumps({'adm_graph_ids': ids + ['other']})}
    Recorder.current = rec
    exc = None
    saved = Neo4jGraphImporter.index_initialized
    try:
        recv, fn, kw = build_args(op, receiver_cls, idents, shape, vals)
        if op.endswith('._add_indexes'):
            Neo4jGraphImporter.index_initialized = False
        fn(recv, **kw)
    except BaseException as e:     # assertion errors of the method are part of the observation
        exc = type(e).__name__
    finally:
        Neo4jGraphImporter.index_initialized = saved
        Recorder.current = None
        while CREATED:
            try:
                CREATED.pop().delete_all_graphs()
            except Exception:
                pass
    stmts = []
    for s in rec.stmts:
        deep = []
        collect_strings(s['params'], deep)
        stmts.append({'text': s['text'], 'kws': s['kws'], 'tid': s['tid'], 'env': s['env'], 'op': s['op'],
                      'positional': s['positional'], 'param_strings': deep, 'nested_in': s.get('nested_in')})
    return {'stmts': stmts, 'exc': exc, 'nx_is_neo4j': nx_is_neo4j()}


def collect_strings(v, out):
    if isinstance(v, str):
        out.append(v)
    elif isinstance(v, dict):
        for k, x in v.items():
            collect_strings(k, out)
            collect_strings(x, out)
    elif isinstance(v, (list, tuple, set)):
        for x in v:
            collect_strings(x, out)


# not required to arrive verbatim as a parameter: `hops` is used by the method itself to filter results; the keys of
# a merge policy are property-name patterns whose quoting belongs to the statement syntax
# ... and the node ids held by an other-backend graph argument are that graph's data, not arguments of the call
CLIENT_SIDE_ARGS = ('hops', 'merge_properties (key)', 'other_graph (node id)')
# keys the backend fills in itself from other arguments; a caller's props may override them (all_props.update(props))
RESERVED_KEYS = ['Class', 'GraphID', 'NodeID', 'Type', 'Name']
OVERRIDDEN_BY = {'NodeID': 'node_id', 'GraphID': 'graph_id'}

# (receiver class, inherited public method): every parameter is a stored string (or a sliver of stored strings)
COMPOSITE = [
    ('Neo4jPropertyGraph', 'get_all_network_nodes'), ('Neo4jPropertyGraph', 'get_all_network_links'),
    ('Neo4jPropertyGraph', 'get_all_network_service_nodes'),
    ('Neo4jPropertyGraph', 'find_peer_connection_points'), ('Neo4jPropertyGraph', 'get_all_child_connection_points'),
    ('Neo4jPropertyGraph', 'get_all_node_or_component_connection_points'),
    ('Neo4jPropertyGraph', 'get_all_ns_or_link_connection_points'),
    ('Neo4jPropertyGraph', 'remove_network_link'), ('Neo4jPropertyGraph', 'remove_cp_and_links'),
    ('Neo4jPropertyGraph', 'remove_ns_with_cps_and_links'), ('Neo4jPropertyGraph', 'remove_component_with_nss_cps_and_links'),
    ('Neo4jPropertyGraph', 'remove_network_node_with_components_nss_cps_and_links'),
    ('Neo4jPropertyGraph', 'add_network_node_sliver'),
    ('Neo4jPropertyGraph', 'get_node_json_property_as_object'),
    ('Neo4jASM', 'set_mapping'), ('Neo4jASM', 'get_mapping'), ('Neo4jASM', 'find_component_by_name'),
    ('Neo4jASM', 'find_ns_by_name'), ('Neo4jASM', 'find_connection_point_by_name'),
    ('Neo4jASM', 'find_child_connection_point_by_name'), ('Neo4jASM', 'get_all_network_node_components'),
    ('Neo4jASM', 'get_all_network_node_or_component_nss'),
    ('Neo4jCBMGraph', 'unmerge_adm'),
    ('Neo4jADMGraph', 'rewrite_delegations'),
]
MAX_STATEMENTS = 400


# ------------------------------------------------------------------------------------------------
# Coq terms
# ------------------------------------------------------------------------------------------------

def c_strs(l):
    return clist([cstr(x) for x in l])


def c_verdict(text):
    r = py_check(text)
    return '(%s, %s, %s, %s)' % (cbool(r['struct']), c_strs(r['params']), c_strs(r['uses']), c_strs(r['binds']))


def c_rec(s):
    tid = s['tid'] if s['tid'] is not None else 999999
    env = s['env'] if s['env'] is not None else []
    return '(%s, %s, %s, %s, %s)' % (cN(tid), c_strs(env), cstr(s['text']), c_strs(s['kws']), c_verdict(s['text']))


HEADER = ('From Coq Require Import List NArith Bool.\nImport ListNotations.\n'
          'From FIM Require Import Base.Str Model.Cypher19 Gen.Cypher Model.Cypher19Tie.\n')


# ------------------------------------------------------------------------------------------------
# stream 1: every operation x identifiers x two assignments of stored values
# ------------------------------------------------------------------------------------------------

HIT = set()       # template ids exercised in this process (read by the coverage stream)


class Ops(Stream):
    name = 'ops'
    header = HEADER
    case_type = 'list stmt_rec'
    check_fn = 'check_recs'
    shard = 150
    rule = ('one case = one backend operation called twice through the real class with a recording stand-in driver: '
            'same identifier arguments and argument shapes, two different assignments of stored values (adversarial '
            'strings with quotes, backslashes, braces, $, newlines, Cypher keywords, non-ASCII; a benign share); '
            'non-trivial = at least one statement recorded; distinct by (operation, receiver class, templates hit, '
            'identifiers, value assignment)')

    def ops(self):
        seen = []
        for t in analysis()['templates']:
            if t['op'] not in seen:
                seen.append(t['op'])
        return seen

    def fake(self, rng, i, consts):
        labels = ['NetworkNode', 'NetworkService', 'Component', 'ConnectionPoint', 'Link', 'CompositeNode']
        return {'label': labels[i % len(labels)] if i else 'NetworkNode', 'empty': i > 0 and rng.random() < 0.2}

    def mk_case(self, op, i, rng, consts):
        """the i-th case of an operation: i drives the argument SHAPES systematically (optional arguments absent /
        present, props with and without the reserved keys, every policy-map shape, components or none, receiver
        class), the rng the identifiers and stored values"""
        cls = op.split('.')[0]
        falsy = i % 4 == 3
        try:
            idents, shape, vals = arg_spec(op, rng, consts, i, benign=(i % 5 == 4), falsy=falsy)
        except Exception as e:
            return {'op': op, 'unsupported': repr(e)}
        recv = cls
        if cls == 'Neo4jPropertyGraph':
            recv = SUBCLASSES[i % len(SUBCLASSES)] if i % 2 else cls
        return {'op': op, 'recv': recv, 'idents': idents, 'shape': shape, 'vals': vals,
                'benign': i % 5 == 4 or falsy, 'falsy': falsy, 'fake': self.fake(rng, i, consts)}

    def reach_missing(self, cases, rng, consts, tier):
        """search for statement variants the regular cases do not reach: dry-run the cases (observations are kept
        for the real run), and for every template still unreached enumerate further argument shapes of its
        operation; a case that reaches a new template is kept, together with a few more of the same shape (other
        values), so that the oracle judges the variant like any other"""
        templates = analysis()['templates']
        hit = set()
        for c in cases:
            o = self.observe(c)
            self._memo[id(c)] = o
            for r in o['runs']:
                hit.update(s['tid'] for s in r['stmts'])
        extra = []
        budget = 150 if tier == 'quick' else 600
        for op in self.ops():
            want = {t['id'] for t in templates if t['op'] == op} - hit
            if not want:
                continue
            for i in range(16, 16 + budget):
                c = self.mk_case(op, i, rng, consts)
                if 'unsupported' in c:
                    break
                o = self.observe(c)
                got = {s['tid'] for r in o['runs'] for s in r['stmts']} & want
                if got:
                    c['reached_by_search'] = sorted(got)
                    self._memo[id(c)] = o
                    extra.append(c)
                    for j in range(5):       # same shape index, other identifiers / values
                        c2 = self.mk_case(op, i, rng, consts)
                        if 'unsupported' not in c2:
                            c2['reached_by_search'] = sorted(got)
                            extra.append(c2)
                    want -= got
                    hit |= got
                    if not want:
                        break
        return extra

    def gen(self, rng, tier):
        prepare_backends()
        a = analysis()
        consts = [v for _, v in a['consts']]
        self._memo = {}
        per_op = 16 if tier == 'quick' else 150
        out = []
        for op in self.ops():
            cls = op.split('.')[0]
            try:
                class_of(cls)
            except Exception as e:
                out.append({'op': op, 'unsupported': 'class %s can not be imported by the harness: %r' % (cls, e)})
                continue
            for i in range(per_op):
                c = self.mk_case(op, i, rng, consts)
                out.append(c)
                if 'unsupported' in c:
                    break
        out += self.reach_missing(out, rng, consts, tier)
        # composite public operations inherited from the abstract layer: they issue their statements through the
        # sites above, with identifier arguments that are interface constants and stored values passed on
        per_c = 6 if tier == 'quick' else 40
        for recv, meth in COMPOSITE:
            op = recv + '.' + meth
            for i in range(per_c):
                try:
                    idents, shape, vals = arg_spec(op, rng, consts, i, benign=(i % 3 == 2))
                except Exception as e:
                    break          # the method does not exist (any more) on this tree: nothing to call
                out.append({'op': op, 'recv': recv, 'idents': idents, 'shape': shape, 'vals': vals,
                            'benign': i % 3 == 2, 'composite': True, 'fake': self.fake(rng, i + 1, consts)})
        return out

    def corpus(self):
        d = os.path.join(VERIF, 'corpus', PID)
        out = []
        if os.path.isdir(d):
            for p in sorted(os.listdir(d)):
                if p.startswith('ops_') and p.endswith('.json'):
                    with open(os.path.join(d, p)) as f:
                        out.append(json.load(f))
        return out

    _memo = {}

    def observe(self, case):
        if 'unsupported' in case:
            return {'runs': [], 'unsupported': case['unsupported']}
        if id(case) in self._memo:
            return self._memo.pop(id(case))      # observed during the coverage search of gen(): same call, same result
        templates = analysis()['templates']
        runs = []
        for vals in case['vals']:
            try:
                runs.append(run_once(templates, case['op'], case['recv'], case['idents'], case['shape'], vals, case.get('fake')))
            except Exception as e:
                runs.append({'stmts': [], 'exc': 'harness:' + repr(e)})
        for r in runs:
            for s in r['stmts']:
                if s['tid'] is not None:
                    HIT.add(s['tid'])
        return {'runs': runs}

    def to_coq(self, case, obs):
        recs = []
        for r in obs['runs']:
            recs += [c_rec(s) for s in r['stmts']]
        return clist(recs)

    def oracle(self, case, obs):
        if 'unsupported' in obs:
            return '%s: unexercised: the harness can not call this operation: %s' % (case['op'], obs['unsupported'])
        runs = obs['runs']
        for r in runs:
            if r['exc'] and r['exc'].startswith('harness:'):
                return '%s: unexercised: %s' % (case['op'], r['exc'])
        r1, r2 = runs
        ids = ident_params()

        def which(j):
            fl = case['vals'][j].get('__falsy__')
            return ' [called as %s, value assignment %d%s; parameters supplied: %%s]' % (
                case['op'], j + 1, (', falsy stored value(s): ' + ', '.join(
                    '%s=%r' % (n.replace('__gid__', 'graph_id'), case['vals'][j].get(n)) for n in fl)) if fl else '')
        # (a) structure, on benign values only (so that a broken bracket is told apart from an injected one)
        if case.get('benign'):
            for j, r in enumerate(runs):
                for s in r['stmts']:
                    why = py_wf(s['text'], s['kws'])
                    if why:
                        return '%s: ill-formed: sends %r : %s%s' % (s['op'], s['text'][:300], why, which(j) % s['kws'])
        # (b) the text may depend on identifiers only
        if len(r1['stmts']) != len(r2['stmts']):
            return '%s: value-interpolated: the number of statements depends on stored values' % case['op']
        #     - or, the alternative the property allows, differ inside correctly escaped string literals only
        for s1, s2 in zip(r1['stmts'], r2['stmts']):
            if s1['text'] != s2['text'] and py_shape(s1['text']) != py_shape(s2['text']):
                also = py_wf(s2['text'], s2['kws'])
                return '%s: value-interpolated: sends different text for different stored values: %r / %r%s' % (
                    s1['op'], s1['text'][:300], s2['text'][:300],
                    (' ; the second is moreover ill-formed: ' + also) if also else '')
        for r, vals in zip(runs, case['vals']):
            stored = stored_strings(case['shape'], vals, case['op'])
            for s in r['stmts']:
                for name, v in stored:
                    mk = MARK_RE.search(v).group()
                    if mk in s['text']:
                        bad = value_only_in_literals(s['text'], mk, v)
                        if bad:
                            return '%s: value-interpolated: pastes the stored value of %s into the text %s: %r' % (
                                s['op'], name, bad, s['text'][:300])
        # (b') a nested statement is what the literal of the statement around it denotes
        for r in runs:
            for s in r['stmts']:
                if s.get('nested_in') is not None:
                    outer = r['stmts'][s['nested_in']]['text']
                    if s['text'] not in [u for _, _, u in py_literals(outer)]:
                        return '%s: ill-formed: the statement %r pasted into a literal of %r is not what that literal ' \
                               'reads back as' % (s['op'], s['text'][:200], outer[:200])
        # (c) well-formed, parameters supplied, variables bound - for every value
        for j, r in enumerate(runs):
            for s in r['stmts']:
                if s['positional'] not in (1, 2):
                    return '%s: ill-formed: passes %d positional arguments to run' % (s['op'], s['positional'])
                why = py_wf(s['text'], s['kws'])      # includes: every $name of the text is among the supplied keywords
                if why:
                    return '%s: ill-formed: sends %r : %s%s' % (s['op'], s['text'][:300], why, which(j) % s['kws'])
        # (c') the set of parameters handed over may not depend on the stored values either
        for s1, s2 in zip(r1['stmts'], r2['stmts']):
            if s1['kws'] != s2['kws']:
                return '%s: param-set-depends-on-value: the same statement gets the parameters %s for one assignment of ' \
                       'stored values and %s for another%s' % (s1['op'], s1['kws'], s2['kws'], which(1) % s2['kws'])
        # (d) every stored value arrives intact as (part of) a parameter (primitive operations only: the composite
        #     ones legitimately encode their arguments, e.g. set_mapping stores json.dumps([graph, node]))
        for r, vals in zip(runs, case['vals']) if not case.get('composite') else []:
            if not r['stmts'] or r['exc']:
                continue               # the operation gave up (assertion / not found): nothing had to be stored
            allp = set()
            for s in r['stmts']:
                allp.update(s['param_strings'])
            pk = (case['shape'].get('props') or {}).get('dict', [])
            overridden = {OVERRIDDEN_BY[k] for k in pk if k in OVERRIDDEN_BY}     # props win over the plain argument
            for name, v in stored_strings(case['shape'], vals, case['op']):
                if name in CLIENT_SIDE_ARGS or name in overridden:
                    continue
                if v not in allp and not any(arrives_in_literal(s['text'], v) for s in r['stmts']):
                    return '%s: value-lost: the stored value of %s reaches the driver neither intact as a parameter nor as a correctly escaped literal' % (
                        case['op'], name)
        return None

    def known_signature(self, case, obs, why):
        return why or ''

    def key(self, case, obs):
        n = sum(len(r['stmts']) for r in obs['runs'])
        if n == 0:
            return None
        tids = sorted({s['tid'] for r in obs['runs'] for s in r['stmts'] if s['tid'] is not None})
        return stable_hash([case['op'], case.get('recv'), tids, case.get('idents'), case.get('vals')])

    def histogram(self, cases, obs):
        h = {'operations': len({c['op'] for c in cases if not c.get('composite')}),
             'composite_operations': len({c['op'] for c in cases if c.get('composite')}), 'statements_recorded': 0, 'templates_hit': 0,
             'raised': {}, 'benign_cases': 0, 'no_statement': 0, 'by_class': {}}
        hit = set()
        for c, o in zip(cases, obs):
            n = 0
            for r in o['runs']:
                n += len(r['stmts'])
                for s in r['stmts']:
                    hit.add(s['tid'])
                if r['exc']:
                    h['raised'][r['exc']] = h['raised'].get(r['exc'], 0) + 1
            h['statements_recorded'] += n
            h['no_statement'] += n == 0
            h['benign_cases'] += bool(c.get('benign'))
            h['falsy_value_cases'] = h.get('falsy_value_cases', 0) + bool(c.get('falsy'))
            h['found_by_coverage_search'] = h.get('found_by_coverage_search', 0) + bool(c.get('reached_by_search'))
            if 'other_graph' in (c.get('shape') or {}):
                k = 'other_graph:' + ((c['shape']['other_graph'] or {}).get('backend') or 'neo4j')
                h[k] = h.get(k, 0) + 1
            for r in o['runs']:
                if r.get('nx_is_neo4j'):
                    h['runs_where_isinstance_quirk_active'] = h.get('runs_where_isinstance_quirk_active', 0) + 1
            k = c.get('recv', '?')
            h['by_class'][k] = h['by_class'].get(k, 0) + 1
        h['templates_hit'] = len(hit - {None})
        h['templates_total'] = len(analysis()['templates'])
        return h

    def describe(self, case, obs):
        return {'case': {k: case.get(k) for k in ('op', 'recv', 'idents')},
                'impl': [[{'text': s['text'][:160], 'kws': s['kws']} for s in r['stmts']][:2] for r in obs['runs']][:1]}

    def shrink(self, case, failing):
        if 'unsupported' in case:
            return case
        best = copy.deepcopy(case)
        # try simpler stored values: one adversarial piece per value, keeping the markers
        for piece in ["'", '"', '\\', '{']:
            c = copy.deepcopy(best)

            def simp(v, j):
                if isinstance(v, (str, int, float)) and not v:
                    return v                      # an edge value ('' / 0 / False) is the point of the case
                if isinstance(v, str):
                    mk = re.search(r'Q[0-9bcdfghjkmnpqrstvwxz]{7}', v)
                    return (mk.group() if mk else 'Q0000000') + (piece if j == 0 else '')
                if isinstance(v, list):
                    return [simp(x, j) for x in v]
                return v
            for j, vals in enumerate(c['vals']):
                for k in list(vals.keys()):
                    if k == '__falsy__':
                        continue
                    sh = c['shape'].get(k)
                    if k == '__gid__' or (sh and ('str' in sh or 'graph' in sh or 'list' in sh)):
                        vals[k] = simp(vals[k], j)
                    elif sh and ('dict' in sh):
                        vals[k] = [[x[0], simp(x[1], j)] for x in vals[k]]
                    elif sh and ('policy' in sh):
                        vals[k] = [[simp(x[0], j), simp(x[1], j)] for x in vals[k]]
                    elif sh and ('comps' in sh):
                        vals[k] = [[x[0], simp(x[1], j) if x[1] is not None else None, x[2]] for x in vals[k]]
            try:
                if failing(c):
                    return c
            except Exception:
                pass
        return best


# ------------------------------------------------------------------------------------------------
# stream 2: the model's scanner against the independent checker on damaged statements
# ------------------------------------------------------------------------------------------------

def py_render(t, env):
    import gen_cypher
    out = ''
    for f in t['frags']:
        if isinstance(f, gen_cypher.Lit):
            out += f.s
        else:
            v = env[t['holes'].index(f.src)]
            for _ in range(f.kind[1] if isinstance(f.kind, tuple) else 0):
                v = gen_cypher.py_esc(v)
            out += v
    return out


class Scanner(Stream):
    name = 'scanner'
    header = HEADER
    case_type = 'str * list str * (bool * list str * list str * list str)'
    check_fn = 'check_text'
    shard = 300
    rule = ('statements rendered from the regenerated templates (holes filled with identifiers, and - for the '
            'value-class holes of the known findings - with benign and adversarial values) and damaged by 0-3 random '
            'edits (delete / insert a bracket, quote, backslash, $, colon, comma, dot, letter; double a brace; cut the '
            'tail; rename a word; drop a supplied parameter); the model scanner and the independent token-based checker '
            'must return the same verdict (structure, $names, used and bound variables); non-trivial = damaged; distinct '
            'by text')
    MUT = list("'\"\\(){}[]$:,.= ") + list('anrx_1')

    def gen(self, rng, tier):
        import gen_cypher
        a = analysis()
        consts = [v for _, v in a['consts']]
        n_per = 6 if tier == 'quick' else 90
        out = []
        for t in a['templates']:
            for i in range(n_per):
                env = []
                for h in t['holes']:
                    kind = [f.kind for f in t['frags'] if isinstance(f, gen_cypher.Hole) and f.src == h][0]
                    if kind == 'ident':
                        env.append(gen_ident(rng, consts))
                    else:
                        env.append(adv_string(rng, benign=rng.random() < 0.5))
                text = py_render(t, env)
                kws = list(t['kws'])
                nm = 0 if i == 0 else rng.randrange(1, 4)
                for _ in range(nm):
                    text, kws = self.mutate(rng, text, kws)
                out.append({'text': text, 'kws': kws, 'edits': nm, 'from': t['op']})
        return out

    def mutate(self, rng, text, kws):
        r = rng.random()
        if not text:
            return rng.choice(self.MUT), kws
        i = rng.randrange(len(text))
        if r < 0.3:
            return text[:i] + text[i + 1:], kws
        if r < 0.6:
            return text[:i] + rng.choice(self.MUT) + text[i:], kws
        if r < 0.7:
            j = text.find(rng.choice('{}'), i)
            if j >= 0:
                return text[:j] + text[j] + text[j:], kws
            return text, kws
        if r < 0.78:
            return text[:i], kws
        if r < 0.9:
            words = list(re.finditer(r'[A-Za-z_][A-Za-z0-9_]*', text))
            if words:
                w = rng.choice(words)
                return text[:w.start()] + rng.choice(['zz9', 'n', 'RETURN', 'q']) + text[w.end():], kws
            return text, kws
        if kws:
            k = list(kws)
            k.pop(rng.randrange(len(k)))
            return text, k
        return text, kws

    def corpus(self):
        d = os.path.join(VERIF, 'corpus', PID)
        out = []
        if os.path.isdir(d):
            for p in sorted(os.listdir(d)):
                if p.startswith('scanner_') and p.endswith('.json'):
                    with open(os.path.join(d, p)) as f:
                        out.append(json.load(f))
        return out

    def observe(self, case):
        r = py_check(case['text'])
        r['wf'] = py_wf(case['text'], case['kws']) is None
        return r

    def to_coq(self, case, obs):
        return '(%s, %s, %s)' % (cstr(case['text']), c_strs(case['kws']), c_verdict(case['text']))

    def oracle(self, case, obs):
        return None

    def key(self, case, obs):
        return stable_hash(case['text']) if case.get('edits') else None

    def histogram(self, cases, obs):
        h = {'undamaged': 0, 'accepted': 0, 'rejected_structure': 0, 'rejected_params_or_vars': 0}
        for c, o in zip(cases, obs):
            h['undamaged'] += not c.get('edits')
            if o['wf']:
                h['accepted'] += 1
            elif not o['struct']:
                h['rejected_structure'] += 1
            else:
                h['rejected_params_or_vars'] += 1
        return h

    def describe(self, case, obs):
        return {'case': {'text': case['text'][:200], 'kws': case['kws']}, 'impl': {k: obs[k] for k in ('struct', 'wf')}}


# ------------------------------------------------------------------------------------------------
# stream 3: every statement site of the translator's table was exercised by the real code in this run
# ------------------------------------------------------------------------------------------------

class Coverage(Stream):
    name = 'coverage'
    header = HEADER
    case_type = 'list stmt_rec'
    check_fn = 'check_recs'
    rule = 'one case: the set of regenerated templates never reached by the operations stream must be empty'

    def gen(self, rng, tier):
        return [{'coverage': True}]

    def observe(self, case):
        a = analysis()
        missing = [{'id': t['id'], 'op': t['op'], 'variant': t['variant']} for t in a['templates'] if t['id'] not in HIT]
        return {'missing': missing, 'translator_error': _AN.get('err')}

    def to_coq(self, case, obs):
        return '[]'

    def oracle(self, case, obs):
        if obs['translator_error']:
            return 'unexercised: translator failed: ' + obs['translator_error']
        if obs['missing']:
            return 'unexercised: statement site(s) never reached through the real code: ' + json.dumps(obs['missing'][:5])
        return None

    def known_signature(self, case, obs, why):
        return 'coverage: ' + (why or '')

    def key(self, case, obs):
        return None


# ------------------------------------------------------------------------------------------------
# refuted witnesses (known findings replayed on the implementation on every run)
# ------------------------------------------------------------------------------------------------

def witness(op, idents, shape, v1, v2, recv=None):
    def fn():
        templates = analysis()['templates']
        recvc = recv or op.split('.')[0]
        try:
            r1 = run_once(templates, op, recvc, idents, shape, v1)
            r2 = run_once(templates, op, recvc, idents, shape, v2)
        except Exception as e:
            return False, 'witness could not be replayed: %r' % e
        t1 = [s['text'] for s in r1['stmts']]
        t2 = [s['text'] for s in r2['stmts']]
        bad = [py_wf(s['text'], s['kws']) for s in r2['stmts']]
        still = [py_shape(t) for t in t1] != [py_shape(t) for t in t2] or any(bad)
        return still, {'op': op, 'texts_value_1': t1, 'texts_value_2': t2, 'well_formedness_value_2': bad}
    return fn


WITNESSES = [
    ('C19_serialize_graph_refuted', witness('Neo4jPropertyGraph.serialize_graph', {}, {'format': {'default': 1}},
                                            {'__gid__': 'g1', 'format': None}, {'__gid__': 'g"}) detach delete n //', 'format': None})),
    ('C19_get_matching_nodes_refuted', witness('Neo4jCBMGraph.get_matching_nodes_with_components', {'label': 'NetworkNode'},
                                               {'props': {'dict': ['Site']}, 'comps': None},
                                               {'__gid__': 'g', 'props': [['Site', 'RENC']], 'comps': None},
                                               {'__gid__': 'g', 'props': [['Site', 'x"}) detach delete n //']], 'comps': None})),
]


class C19(Check):
    pid = PID
    translators = ['gen_cypher']
    model_targets = ['Model/Cypher19Tie.vo']
    streams = [Ops(), Scanner(), Coverage()]
    trusted_base = [
        'Coq 8.16.1 kernel (coqc), vm_compute for the correspondence evaluation and for the finite obligation over the regenerated template table; no native_compute',
        'Print Assumptions of every C19 theorem: Closed under the global context (no axioms)',
        'translator/gen_cypher.py + translator/pyast.py: symbolic evaluation of the first argument of every `.run(` call under fim/ into Lit/Hole fragments, hole classification (identifier-class = bare never-reassigned parameter named label/rel/rel1/rel2/kind/prop_name/node*_label; everything else value-class), keyword set of the call; JSON statement files read when the method has the expected shape; fail-closed',
        'harness/c19.py + harness/common.py: stand-in driver, frame inspection that reads the hole values and selects the variant, generators, the independent token-based well-formedness checker, cases.v writer',
        'modelled not verified: the Cypher grammar (the model accepts a superset characterised in Model/Cypher19.v: quotes, brackets, map-key shape, $names, a conservative used/bound variable analysis); that Neo4j/APOC accept and execute the text as intended; python f-string / + / join evaluation (tied by render = recorded text on every recorded statement)',
    ]
    assumptions = [
        'identifier-class arguments (class label, relation type, property name) match [A-Za-z_][A-Za-z0-9_]* - true of every CLASS_/REL_/PROP_ constant of the interface (theorem C19_interface_constants_are_identifiers over the regenerated list)',
        'only the text and the parameter names/values handed to session.run are observed; the server is not run',
    ]

    def extra_static(self, ctx):
        out = []
        # the pinned list of excused operations in the Coq model is exactly the list of known findings
        try:
            with open(os.path.join(COQ, 'Model', 'Cypher19.v')) as f:
                txt = f.read()
            m = re.search(r'Definition known_ops.*?\[(.*?)\]%string', txt, re.S)
            coq_ops = sorted(re.findall(r'"([^"]+)"', m.group(1)))
            kf = sorted({k.get('operation') for k in known_for(PID) if k.get('operation')})
            out.append({'name': 'known_ops pinned in Model/Cypher19.v = operations of known_findings', 'ok': coq_ops == kf,
                        'detail': {'coq': coq_ops, 'known_findings': kf}})
        except Exception as e:
            out.append({'name': 'known_ops pinned in Model/Cypher19.v = operations of known_findings', 'ok': False,
                        'detail': repr(e)})
        a = analysis()
        out.append({'name': 'translator recognised every session.run site (python side)', 'ok': _AN.get('err') is None,
                    'detail': _AN.get('err')})
        # the same facts the Coq obligation C19_all_operations_checked_partial decides, stated per operation so that
        # a broken obligation names the operation and what the translator saw there
        try:
            import gen_cypher
            known_ops = set(coq_ops)
            offenders = []
            for t in a['templates']:
                vh = sorted({f.src for f in t['frags'] if isinstance(f, gen_cypher.Hole) and f.kind == 'value'})
                if (vh and t['op'] not in known_ops) or not t['kws_known']:
                    offenders.append({'operation': t['op'], 'line': '%s:%d' % (t['file'], t['line']),
                                      'value_class_holes': vh,
                                      'keyword_set': 'depends on run-time data (**dict / computed parameter dict)'
                                      if not t['kws_known'] else t['kws']})
            out.append({'name': 'no statement outside the known findings has a value-class hole or a computed keyword set',
                        'ok': not offenders, 'detail': offenders[:8]})
        except Exception as e:
            out.append({'name': 'no statement outside the known findings has a value-class hole or a computed keyword set',
                        'ok': False, 'detail': repr(e)})
        return out

    def refuted_witnesses(self):
        # table-driven: only the witnesses of findings that are still registered are replayed
        names = {k.get('witness') for k in known_for(PID)}
        return [w for w in WITNESSES if w[0] in names]


if __name__ == '__main__':
    sys.exit(main(C19()))
